#!/usr/bin/env python3
"""tools/seedstatus.py <regress-result-files...>: write the outcome of the final regression (tools/seedregress.sh) into
seeded/*/meta.json: first-run status is kept in words, the final status is what the committed checks report now."""
import json, os, re, sys
for fn in sys.argv[1:]:
    for line in open(fn):
        m = re.match(r"(C\d+-\d+) (.*)", line.strip())
        if not m:
            continue
        sid, rest = m.group(1), m.group(2)
        f = "/verif/seeded/%s/meta.json" % sid
        if not os.path.exists(f):
            continue
        d = json.load(open(f)); c = d.setdefault("confirmed_by_integrator", {})
        first = c.get("check_result", "?")
        if "exit=1 VIOLATION" in rest and "no-failing-input-found" not in rest:
            if first == "caught" or first.startswith("caught (after") or first.startswith("caught (with replay"):
                pass
            elif "missed" in first:
                c["check_result"] = "caught (after strengthening; missed at first run)"
            elif "no-failing-input-found" in first:
                c["check_result"] = "caught (with replay, after strengthening; first run: no-failing-input-found)"
            elif first.startswith("caught (after the engine"):
                pass
            c["final_regression"] = "VIOLATION with replay: " + rest.split("|")[-1].strip()
        elif "PATCH-DOES-NOT-APPLY" in rest:
            c["final_regression"] = ("patch.diff no longer applies to /repo: an accepted fix: commit rewrote the code it changes; the change was "
                                     "caught when written (status above) and its mechanism, ported by hand to the present code by the property's "
                                     "builder, is still caught (notes/%s.md, self-audit of the last round)" % d.get("property"))
        else:
            c["final_regression"] = "NOT CAUGHT WITH REPLAY: " + rest
        json.dump(d, open(f, "w"), indent=1)
        print(sid, c.get("check_result"), "|", c["final_regression"][:60])
