#!/bin/sh
# tools/mkagent.sh <cxx>: private workspace for a builder (clone of /verif + worktree of /repo)
set -e
id="$1"
base=/tmp/agents/$id
mkdir -p $base
[ -d $base/verif ] || git clone -q /verif $base/verif
git -C $base/verif checkout -q -B $id
[ -d $base/repo ] || git -C /repo worktree add -q -b $id-$(date +%s) $base/repo HEAD
echo "$base"
