#!/usr/bin/env python3
"""tools/mergeknown.py <Cxx> [--stage]: property-aware resolution of a KNOWN_FINDINGS.jsonl merge conflict.
Takes 'ours' (stage 2) for every line that does not belong to property <Cxx> and 'theirs' (stage 3) for the lines that do
(JSON lines with "property": <Cxx>, and `fixed: property=<Cxx> ...` lines).  Builder-worktree commit hashes in fixed: lines
are mapped to the cherry-picked commit in /repo by subject."""
import json, re, subprocess, sys
pid = sys.argv[1].upper()
def show(stage):
    return subprocess.run(["git", "show", ":%d:KNOWN_FINDINGS.jsonl" % stage], capture_output=True, text=True, check=True).stdout.splitlines()
def belongs(line):
    s = line.strip()
    if s.startswith("fixed:"):
        return ("property=%s " % pid) in s
    if s.startswith("{"):
        try:
            return json.loads(s).get("property") == pid
        except ValueError:
            return False
    return False
subj2hash = {}
for l in subprocess.run(["git", "-C", "/repo", "log", "--format=%h\t%s"], capture_output=True, text=True).stdout.splitlines():
    h, s = l.split("\t", 1); subj2hash.setdefault(s, h)
agent = "/tmp/agents/%s/repo" % pid.lower()
def maphash(line):
    m = re.match(r"(fixed: property=\S+ )([0-9a-f]{7,40})( .*)", line)
    if not m:
        return line
    h = m.group(2)
    if subprocess.run(["git", "-C", "/repo", "merge-base", "--is-ancestor", h, "main"], capture_output=True).returncode == 0:
        return line
    r = subprocess.run(["git", "-C", agent, "log", "-1", "--format=%s", h], capture_output=True, text=True)
    s = r.stdout.strip()
    if s in subj2hash:
        return m.group(1) + subj2hash[s] + m.group(3)
    sys.stderr.write("mergeknown: no /repo commit for %s (%s)\n" % (h, s[:80]))
    return line
ours, theirs = show(2), show(3)
out = [l for l in ours if not belongs(l)] + [maphash(l) for l in theirs if belongs(l)]
open("KNOWN_FINDINGS.jsonl", "w").write("\n".join(out) + "\n")
subprocess.check_call(["git", "add", "KNOWN_FINDINGS.jsonl"])
print("mergeknown: %s lines of %s taken from the branch" % (sum(1 for l in theirs if belongs(l)), pid))
