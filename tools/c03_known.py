#!/usr/bin/env python3
"""regenerate known/C03.jsonl: one minimal program per open finding (built with the generator's printers)"""
import json, os, sys
sys.path.insert(0, os.path.dirname(os.path.dirname(os.path.abspath(__file__))))
from props.c03 import *  # noqa

K = []


FIXED = {  # finding -> fix commit in the repository (round 2)
    "pp-if-32bit": "3499036", "str-range-rev-neg": "56370ef", "lv-range-const-rev": "fa775d5",
    "fold-add-zero-real": "0455d4e", "zero-minus-neg": "d913250",
    "buf-store-zero": "f7cccce", "rev-range-wrap": "cf52b3b", "compose-self": "435bb8a"}
ROOT = os.path.dirname(os.path.dirname(os.path.abspath(__file__)))


def known(kid, why, what, fns, same=None, defines=()):
    c = make_case("k", fns, same=same, defines=defines)
    d = {"property": "C03", "id": kid, "status": "open", "signature": r"^bad spec-mismatch why=%s fn=" % why,
         "input": c.lines, "what": what}
    if why in FIXED:
        # repaired: the witness moves to the corpus (replayed first on every run, must pass) and the record is kept as fixed
        d["status"] = "fixed"
        d["commit"] = FIXED[why]
        del d["input"]
        os.makedirs(os.path.join(ROOT, "corpus", "C03"), exist_ok=True)
        with open(os.path.join(ROOT, "corpus", "C03", "fixed-%s.case" % why), "w") as f:
            f.write("\n".join(c.lines) + "\n")
    K.append(d)


known("C03-num-opeq-real", "num-opeq-real",
      "`int op= real` (+= -= *= /=) leaves a truncated integer in the variable (x = 1; x += 1.5 gives 2, x = x + 1.5 gives 2.5); "
      "-=, *=, /= yield a real as the value of the expression but store an int (operator.c f_*_eq, interpret.c F_ADD_EQ)",
      [[("expr", ("asg", L(A), I(1))), ("expr", ("aop", "add", L(A), Fl(1.5))), ("ret", L(A))],
       [("expr", ("asg", L(A), I(1))), ("expr", ("asg", L(A), ("bin", "add", L(A), Fl(1.5)))), ("ret", L(A))],
       [("expr", ("asg", L(A), I(7))), ("expr", ("aop", "div", L(A), Fl(2.0))), ("ret", L(A))],
       [("expr", ("asg", L(A), I(7))), ("expr", ("aop", "sub", L(A), Fl(0.5))), ("ret", L(A))]], same=[[0, 1]])
known("C03-addeq-num-str", "addeq-num-str",
      "`x += \"s\"` with x an int or real raises 'Left hand side of += is a number' although the grammar explicitly allows "
      "int += string and `x = x + \"s\"` concatenates (interpret.c F_ADD_EQ)",
      [[("expr", ("asg", L(A), I(0))), ("expr", ("aop", "add", L(A), S(b"abc"))), ("ret", L(A))],
       [("expr", ("asg", L(A), I(0))), ("expr", ("asg", L(A), ("bin", "add", L(A), S(b"abc")))), ("ret", L(A))]])
known("C03-str-range-rev-neg", "str-range-rev-neg",
      "with OLD_RANGE_BEHAVIOR `s[<5..<1]` on a 3-character string starts at 0 while `s[<5..]` (documented as the same) counts the "
      "negative position from the end (operator.c f_range uses `else if` for strings, f_extract_range and buffers do not)",
      [[("expr", ("asg", L(A), S(b"abc"))), ("expr", ("asg", L(B), I(5))), ("expr", ("asg", L(C), I(1))), ("ret", ("rng", True, True, L(A), L(B), L(C)))],
       [("expr", ("asg", L(A), S(b"abc"))), ("expr", ("asg", L(B), I(5))), ("ret", ("rnge", True, L(A), L(B)))]])
known("C03-buf-store-zero", "buf-store-zero",
      "a zero byte cannot be stored through a buffer element lvalue: b[i] = 0 raises 'Strings cannot contain NUL character' "
      "(buffer elements share the char-lvalue code of strings, interpret.c F_ASSIGN / T_LVALUE_BYTE)",
      [[("expr", ("asg", L(A), Buf([65, 66]))), ("expr", ("asg", ("idx", L(A), I(0)), I(0))), ("ret", L(A))],
       [("expr", ("asg", L(A), Buf([65, 66]))), ("expr", ("asg", ("idx", L(A), I(1)), I(256))), ("ret", L(A))]], same=[])
known("C03-fold-add-zero-real", "fold-add-zero-real",
      "`0 + x` / `x + 0` are folded to `x` for a real-typed x: the result keeps the sign of a negative zero, the computed sum is +0.0",
      [[("expr", ("asg", L(LX), ("un", "neg", Fl(0.0)))), ("ret", ("bin", "add", I(0), L(LX)))],
       [("expr", ("asg", L(A), ("un", "neg", Fl(0.0)))), ("expr", ("asg", L(B), I(0))), ("ret", ("bin", "add", L(B), L(A)))]])
known("C03-optimistic-types", "optimistic-types",
      "the rewrites `e == 0 -> !e` and `0 + e -> e` trust the grammar's optimistic result type (`mixed + int` is typed int): "
      "(m + 1) == 0 with m = -1.0 gives 0, the comparison of the computed operands gives 1",
      [[("expr", ("asg", L(A), Fl(-1.0))), ("ret", ("bin", "eq", ("bin", "add", L(A), I(1)), I(0)))],
       [("expr", ("asg", L(A), Fl(-1.0))), ("expr", ("asg", L(B), ("bin", "add", L(A), I(1)))), ("expr", ("asg", L(C), I(0))),
        ("ret", ("bin", "eq", L(B), L(C)))]])
known("C03-rev-range-wrap", "rev-range-wrap",
      "`a[<i..]` with i near INT64_MIN: `size - i` overflows int64 and wraps to a position inside the array, the whole array is "
      "returned instead of the empty one (operator.c f_range / f_extract_range)",
      [[("expr", ("asg", L(A), Arr([I(10)]))), ("expr", ("asg", L(B), I(I64MIN))), ("ret", ("rnge", True, L(A), L(B)))]])
_sel = ("cond", ("efun", "#if", [("bin", "gt", I(0), I(2 ** 31))]), I(1), I(2))
known("C03-pp-if-32bit", "pp-if-32bit",
      "`#if` expressions are evaluated in 32-bit int: `#if 0 > 2147483648` is true (lib/lpc/preprocess.c cond_get_exp)",
      [[("ret", ("macro", "SEL", None, _sel))]],
      defines=["#if 0 > 2147483648", "#define SEL 1", "#else", "#define SEL 2", "#endif"])
known("C03-lv-range-const-rev", "lv-range-const-rev",
      "`a[1..<0] = v` with the literal 0 is accepted (the parser rewrote `[i..<k]`, k <= 1, to `[i..]`, re-expanded to `[i..<1]` for "
      "the lvalue) while the same bound in a variable raises 'The 2nd index to range lvalue must be >= -1 and < sizeof'",
      [[("expr", ("asg", L(A), Arr([I(10)]))), ("expr", ("asg", ("rng", False, True, L(A), I(1), I(0)), Arr([I(7)]))), ("ret", L(A))],
       [("expr", ("asg", L(A), Arr([I(10)]))), ("expr", ("asg", L(B), I(0))), ("expr", ("asg", ("rng", False, True, L(A), I(1), L(B)), Arr([I(7)]))), ("ret", L(A))]])

known("C03-zero-minus-neg", "zero-minus-neg",
      "`0 - x` is rewritten to `-x` by the grammar: for x = 0.0 the result is -0.0 while the difference computed from two "
      "variables is +0.0 (sign of zero only; the values compare equal)",
      [[("expr", ("asg", L(LX), Fl(0.0))), ("ret", ("bin", "sub", I(0), L(LX)))],
       [("expr", ("asg", L(A), Fl(0.0))), ("expr", ("asg", L(B), I(0))), ("ret", ("bin", "sub", L(B), L(A)))]])

_mk = [("expr", ("asg", L(A), Map([(I(0), I(1)), (I(1), I(2)), (I(2), I(0))])))]
known("C03-compose-self", "compose-self",
      "`m *= m` (also `b = m; m *= b`) composed the mapping in place while looking the values up among the entries it had "
      "already replaced: ([0:1,1:2,2:0]) gave a result that depends on the bucket order instead of ([0:2,1:0,2:1]) (mapping.c compose_mapping)",
      [_mk + [("expr", ("aop", "mul", L(A), L(A))), ("ret", L(A))],
       _mk + [("expr", ("asg", L(A), ("bin", "mul", L(A), L(A)))), ("ret", L(A))],
       _mk + [("expr", ("asg", L(B), L(A))), ("expr", ("aop", "mul", L(A), L(B))), ("ret", L(A))]])

# one corpus case per defect repaired in round 1 (the deterministic boundary programs of the plugin)
for bc in PROP.boundary():
    with open(os.path.join(ROOT, "corpus", "C03", "fixed-r1-%s.case" % bc.id[2:]), "w") as f:
        f.write("\n".join(bc.lines) + "\n")

# the records live in KNOWN_FINDINGS.jsonl: open findings as JSON lines, repaired ones as `fixed:` text lines
kf = os.path.join(ROOT, "KNOWN_FINDINGS.jsonl")
old = open(kf).read().split("\n")
keep, have_fixed = [], set()
for l in old:
    if l.startswith('{"property": "C03"'):
        continue
    if l.startswith("fixed: property=C03 "):
        have_fixed.add(l.split(" ", 3)[3][:60])
    keep.append(l)
while keep and keep[-1] == "":
    keep.pop()
for k in K:
    if k["status"] == "open":
        keep.append(json.dumps(k))
    elif k["what"][:60] not in have_fixed:
        keep.append("fixed: property=C03 %s %s" % (k["commit"], k["what"]))
open(kf, "w").write("\n".join(keep) + "\n")
print("rewrote C03 records in", kf, len(K))
