#!/bin/sh
# tools/merge.sh <id>: merge builder branch <id> from /tmp/agents/<id>/verif; generated files are regenerated, evidence taken from the branch
id="$1"
cd "$(dirname "$0")/.."
git fetch -q /tmp/agents/$id/verif $id || exit 1
git merge -q --no-edit FETCH_HEAD > /dev/null 2>&1
for f in $(git diff --name-only --diff-filter=U); do
  case "$f" in
    lean/NV.lean|lean/Drive/Main.lean) git checkout --ours "$f" 2>/dev/null; python3 tools/gen_main.py; git add "$f";;
    evidence/*) git checkout --theirs "$f"; git add "$f";;
    KNOWN_FINDINGS.jsonl) python3 tools/mergeknown.py $id;;
    lean/NV/Gen/*) git checkout --theirs "$f"; git add "$f";;   # regenerated on every run
    *) echo "REAL CONFLICT: $f";;
  esac
done
python3 tools/gen_main.py; git add lean/NV.lean lean/Drive/Main.lean
if git diff --name-only --diff-filter=U | grep -q .; then echo "unresolved conflicts remain"; exit 1; fi
git commit -q --no-edit 2>/dev/null || git commit -qm "merge builder branch $id"
git log --oneline | head -1
echo "repo commits of $id:"; git -C /tmp/agents/$id/repo log --reverse --format='  %h %s' $(git -C /repo rev-parse 01f7deb)..HEAD | grep -v "call_out scheduled from inside"
