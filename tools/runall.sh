#!/bin/sh
# tools/runall.sh [tier] [seed...]: run every claimed check; prints one status line per (property, seed)
tier="${1:-quick}"; shift 2>/dev/null
seeds="${*:-1}"
cd "$(dirname "$0")/.."
for p in $(python3 -c "import json;print(' '.join(c['property_id'] for c in json.load(open('MANIFEST.json'))['checks']))"); do
  for s in $seeds; do
    start=$(date +%s)
    VERIF_SEED=$s ./check $p --tier $tier > .work/runall-$p-$s.log 2>&1
    rc=$?
    echo "$p seed=$s tier=$tier exit=$rc $(( $(date +%s) - start ))s $(grep -c '^KNOWN-FINDING' .work/runall-$p-$s.log) known $(grep '^VIOLATION' .work/runall-$p-$s.log | head -1)"
  done
done
