#!/usr/bin/env python3
"""tools/mkseed.py <Cxx> <n>: create scratch worktree /tmp/seed/<Cxx>-<n>/repo and print the prompt for an
independent sub-agent (property text only; nothing from /verif)."""
import json
import os
import subprocess
import sys

pid, n = sys.argv[1], sys.argv[2]
props = {json.loads(l)['id']: json.loads(l) for l in open('/verif/properties.jsonl')}
p = props[pid]
base = "/tmp/seed/%s-%s" % (pid, n)
wt = base + "/repo"
os.makedirs(base, exist_ok=True)
if not os.path.exists(wt):
    subprocess.check_call(["git", "-C", "/repo", "worktree", "add", "-q", "--detach", wt, "HEAD"])
txt = "%s — %s\n\nStatement: %s\n\nQuantified over: %s\n\nWhy the existing tests cannot settle it: %s\n\nAnchors (files): %s\nMechanisms meant to make it hold: %s" % (
    p['id'], p['title'], p['statement'], p['quantifier']['text'], p['why_tests_cant'], ", ".join(p['anchors']['files']),
    "; ".join("%s (%s)" % (m.get('name'), m.get('where')) for m in p['anchors']['mechanism']))
t = open('/verif/tools/prompts/mutant_template.txt').read()
extra = sys.argv[3] if len(sys.argv) > 3 else ""
print(t.replace("@WT@", wt).replace("@BASE@", base).replace("@PROPERTY@", txt).replace("@ID@", pid) + ("\n" + extra if extra else ""))
