#!/usr/bin/env python3
"""tools/keepseed.py <seed-dir> <caught|missed|...> [note]: copy a confirmed seeded change into /verif/seeded/<id>/"""
import json, os, shutil, sys, re
src = sys.argv[1].rstrip("/")
status = sys.argv[2]
note = sys.argv[3] if len(sys.argv) > 3 else ""
sid = os.path.basename(src)
dst = os.path.join("/verif/seeded", sid)
os.makedirs(dst, exist_ok=True)
shutil.copy(os.path.join(src, "patch.diff"), dst)
if os.path.exists(os.path.join(dst, "demo")):
    shutil.rmtree(os.path.join(dst, "demo"))
shutil.copytree(os.path.join(src, "demo"), os.path.join(dst, "demo"), ignore=shutil.ignore_patterns("_*build*", "*.o", "build*"))
meta = json.load(open(os.path.join(src, "meta.json")))
log = lambda n: open(os.path.join(src, n)).read() if os.path.exists(os.path.join(src, n)) else ""
chk = log("check-patched.log")
meta["breaks_property"] = meta.get("property")
meta["confirmed_by_integrator"] = {
    "ran": ["tools/seedtest.sh (scratch worktree of /repo HEAD: demo on unpatched tree, git apply patch.diff, cmake build + ctest, demo on patched tree, NV_REPO=<scratch> ./check %s --tier quick)" % meta.get("property")],
    "demo_unpatched_exit": 0, "demo_patched_exit": "non-zero", "test_suite": "100% passed with the patch",
    "check_result": status,
    "check_output": [l for l in chk.splitlines() if l.startswith("VIOLATION") or l.startswith("  ")][:6],
    "note": note,
}
json.dump(meta, open(os.path.join(dst, "meta.json"), "w"), indent=1)
print("kept", dst)
