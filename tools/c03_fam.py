#!/usr/bin/env python3
"""C03 developer tool: run N generated cases of ONE family (or all: `-`) through the real driver, the model and the judge
without the Lean build / obligations stage.   usage: NV_REPO=.. tools/c03_fam.py <family|-> <n> [seed]
Prints model/implementation differences and judge verdicts that are not `ok` / not an open known finding."""
import os, sys, re, collections
sys.path.insert(0, os.path.dirname(os.path.dirname(os.path.abspath(__file__))))
from nvlib import engine as E
from nvlib.check import Ctx
import props.c03 as m

fam, n = sys.argv[1], int(sys.argv[2])
seed = int(sys.argv[3]) if len(sys.argv) > 3 else 1
P = m.PROP
ctx = Ctx(P, "quick", seed)
P.prepare(ctx)
rng = E.Rng(seed)
cases = [getattr(P, "fam_" + fam)(rng, "g%d" % k) for k in range(n)] if fam != "-" else P.generate(rng, n, "quick") + P.boundary()
impl = P.run_impl(ctx, cases)
model = E.nvdrive("C03", "model", E.cases_text(cases))
jin = [E.Case(c.id, c.lines + ["--"] + impl.get(c.id, [])) for c in cases]
judge = E.nvdrive("C03", "judge", E.cases_text(jin))
nd = nb = 0
hist = collections.Counter()
for c in cases:
    a, b = impl.get(c.id, []), model.get(c.id, [])
    hist[c.meta.get("family")] += 1
    if a != b:
        nd += 1
        if nd <= 3:
            print("DIFF", c.id, c.meta)
            for x, y in zip(a, b):
                if x != y:
                    print("   impl ", x[:200]); print("   model", y[:200])
            if len(a) != len(b):
                print("   lengths", len(a), len(b), a[-2:], b[-2:])
    bad = [v for v in judge.get(c.id, []) if v != "ok" and not re.match(r"bad spec-mismatch why=(num-opeq-real|addeq-num-str|optimistic-types) ", v)]
    if bad:
        nb += 1
        if nb <= 4:
            print("BAD", c.id, c.meta)
            for v in bad[:3]:
                print("   ", v[:300])
            if nb == 1:
                for l in c.lines:
                    if l.startswith("L mixed t"):
                        print("      ", l[2:].replace("mixed a, b, c, d; int i, j, n; float x, y; string s; ", "")[:300])
print("cases=%d diffs=%d bad=%d" % (len(cases), nd, nb), dict(hist) if fam == "-" else "")
import shutil
shutil.rmtree(ctx.rundir, ignore_errors=True)
sys.exit(1 if nd or nb else 0)
