#!/usr/bin/env python3
"""tools/mkbuilder.py <Cxx> [prompt-template]: private workspace (tools/mkagent.sh) + prompt for an extend-round builder;
writes the prompt to /tmp/agents/prompts/<cxx>.txt and prints its path."""
import json, os, subprocess, sys
pid = sys.argv[1].upper()
tpl = sys.argv[2] if len(sys.argv) > 2 else "/verif/tools/prompts/extend_round.md"
base = subprocess.check_output(["/verif/tools/mkagent.sh", pid.lower()]).decode().strip().splitlines()[-1]
focus = json.load(open("/verif/tools/prompts/extend_focus.json")).get(pid, "see the coverage map")
t = open(tpl).read().replace("@ID@", pid).replace("@id@", pid.lower()).replace("@BASE@", base).replace("@FOCUS@", focus)
os.makedirs("/tmp/agents/prompts", exist_ok=True)
out = "/tmp/agents/prompts/%s.txt" % pid.lower()
open(out, "w").write(t)
print(out)
