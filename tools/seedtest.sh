#!/bin/sh
# tools/seedtest.sh <seeded-dir> : confirm a seeded change and run the property's check against it.
#   seeded-dir has patch.diff, demo/run.sh (arg: repo dir; exit 0 = property holds), meta.json {"property": "Cxx", ...}
# Steps (all in a scratch worktree outside /repo and /verif, removed afterwards):
#   1 patch applies & builds   2 unedited test-suite passes   3 demo fails with the patch, passes without
#   4 ./check <prop> --tier quick reports a VIOLATION against the patched tree
set -u
d="$(cd "$1" && pwd)"
V="$(cd "$(dirname "$0")/.." && pwd)"   # the /verif tree this script belongs to (a clone may be used for testing)
prop=$(python3 -c "import json,sys;print(json.load(open('$d/meta.json'))['property'])")
wt=/tmp/seedtest-$$
git -C /repo worktree add -q "$wt" HEAD || exit 2
cleanup() { git -C /repo worktree remove --force "$wt" 2>/dev/null; rm -rf "$wt"; }
trap cleanup EXIT
echo "== demo on unpatched tree"
sh "$d/demo/run.sh" "$wt" > "$d/demo-unpatched.log" 2>&1; r0=$?
echo "   exit $r0 (want 0)"
git -C "$wt" apply "$d/patch.diff" || { echo "PATCH DOES NOT APPLY"; exit 2; }
echo "== build + test-suite on patched tree"
cmake -G Ninja -S "$wt" -B "$wt/_build" > "$wt/cmake.log" 2>&1 && cmake --build "$wt/_build" -j16 > "$wt/build.log" 2>&1 || { echo "BUILD FAILS"; tail -5 "$wt/build.log"; exit 2; }
(ctest --test-dir "$wt/_build" -j8 --timeout 900 2>&1 | grep -E "tests passed|tests failed|Failed|\*\*\*") | head -8
rm -rf "$wt/_build"
echo "== demo on patched tree"
sh "$d/demo/run.sh" "$wt" > "$d/demo-patched.log" 2>&1; r1=$?
echo "   exit $r1 (want non-zero)"
echo "== ./check $prop against patched tree"
cd "$V" && NV_EVIDENCE_DIR="$wt/_evidence" NV_REPO="$wt" ./check "$prop" --tier quick > "$d/check-patched.log" 2>&1; rc=$?
grep -E "^VIOLATION|^KNOWN|^BUILD" "$d/check-patched.log" | head -5
echo "   check exit $rc (want 1)"
# drop the build tree of the scratch repo
key=$(python3 -c "import hashlib,os;print(hashlib.sha1(os.path.realpath('$wt').encode()).hexdigest()[:10])")
rm -rf "$V"/.work/build-*-$key "$V"/.work/harness-$key
# the run above regenerated lean/NV/Gen/<prop>.lean from the patched tree: regenerate it from /repo again
cd "$V" && NV_EVIDENCE_DIR="$wt/_evidence2" ./check "$prop" --tier quick > /dev/null 2>&1
rm -f "$V"/replays/$prop-*.json.tmp
echo "RESULT demo_unpatched=$r0 demo_patched=$r1 check=$rc"
