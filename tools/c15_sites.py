#!/usr/bin/env python3
"""c15_sites.py - translator for property C15 (file-system access is mediated).

Inventories every file-system libc call site in the efun layer of the driver and
emits, as Lean 4 source text, a table `sites` (one row per call site and path
argument) and a table `calls` (the callers of every function whose site depends on
one of its own parameters).  The Lean side proves by `decide` that every row is
mediated or on an explicit allow-list; a source change that adds an unmediated file
call changes the table and breaks that theorem.

USE
    from tools import c15_sites
    text = c15_sites.generate(repo, bdir, include_flags)          # Lean text
    rows = c15_sites.analyze(repo, bdir, include_flags)           # raw rows (dict)
  or
    python3 tools/c15_sites.py --repo R --bdir B [--json] [--override REL=ABS ...]
  (`--override lib/efuns/file.c=/scratch/file.c` parses the given copy in place of the
  repository file; used for mutation tests.)

INPUT (recomputed each run): every lib/efuns/*.c (globbed) except EXCLUDED
(edit_source.c, a build-time tool) and NOT_BUILT (func_spec.c: preprocessor input of
edit_source, not C), plus EXTRA_FILES.  Functions of a `*.c` file that is textually
#included by a scanned file (lex.c includes preprocess.c) are scanned too and labelled
with their own file name.  clang failing on a file, or a listed file missing, raises
SitesError; nothing is skipped silently.

PARSING: `clang-14 -Xclang -ast-dump=json -fsyntax-only -DHAVE_CONFIG_H -D_GNU_SOURCE
-DNEOLITH_VERIF -w <include_flags> file`; only code active under these flags on this
platform is seen (an `#ifdef _WIN32` branch is invisible).

EXTERNAL CALLEES (fail closed): every function declared outside the repository that takes a
character pointer (or is variadic / has no prototype) and is called from a scanned function is
listed in `extCallees` unless it is in FS_CALLEES (a site), FILLS or PASSTHROUGH; the Lean side
(`ext_callees_classified`) accepts only names on its list of functions that do not take a file
name: a new way to reach the file system (fopen64, openat2, statx, a libc wrapper ...) that
is not in FS_CALLEES breaks that obligation instead of being invisible.

SITE: a CallExpr whose callee (through casts/parens) is a DeclRefExpr to a function
named in FS_CALLEES; one row per path-argument index of that callee.

WHAT "FLOWS SYNTACTICALLY" MEANS (the trusted rule).  Everything is decided inside the
body of the enclosing function, on the AST, with no semantic analysis.

 Positions.  Every node has a position = byte offset in the function's file (macro
 bodies collapse to the offset of the macro invocation; macro arguments keep their own
 offset).  An assignment / a call takes effect at its END offset, an operand is read at
 its BEGIN offset.

 Events of a local variable or parameter V:
   def   `V = rhs` (BinaryOperator `=` whose LHS peels to DeclRef V) or the initialiser
         of V's declaration.  Element stores `V[i] = c`, `*V = c`, `V++`, `V += n` are
         ignored.
   fill  a call to sprintf snprintf vsprintf vsnprintf strcpy strncpy stpcpy memcpy
         memmove (overwriting) or strcat strncat (appending) whose destination
         argument mentions exactly one local/parameter V (`V`, `V + k`, `&V[k]`, ...),
         and `strip_name(src, V, n)`.  Its sources are all other pointer/array typed
         arguments (integer arguments are skipped, string literals are harmless).
         One level of aliasing: if the function contains `p = V`, `p = V + n`,
         `p = &V[n]`, `p = strrchr/strchr/strstr/strpbrk(V, ..)`, every fill of p is
         also an (appending) fill of V.
   med   `inc_lexically_normal(base, name, V)` and `inc_open(V, name)`: an overwriting
         fill whose result is mediated "<that function>".
   Writes to V by any other callee (read(), fgets(), a callee storing through a
   pointer argument) are NOT seen.  This is the stated limit of the rule.
 A fill whose destination is neither `V` nor an alias shape counts as an appending fill
 of every local/parameter pointer it mentions.
 Guard of V: a call `legal_path(x)`, x peeling to DeclRef V, that ends textually BEFORE
 the read of V that is classified (a site in front of its guard is not guarded; it is
 not checked that the result is tested, nor that the call is on every path), provided
 no event of V lies textually after that call.

 Nearest preceding definition (applied uniformly).  For a read of V at position t the
 reaching events are computed textually:
   * D := the last event before t that is an overwriting def/fill/med of V itself (not
     via an alias, destination exactly `V`), that is evaluated unconditionally in its
     statement S (not under `?:`, not right of `&&`/`||`), where S is an expression
     statement, a declaration, or the condition of an if/switch, S is a DIRECT child of
     a compound statement B, B contains t, and no case/default label of a switch that
     started before S lies between S and t.  (So S is executed on every path that
     reaches t from the top of B.)  Also accepted: the event sits in the left operand
     of an `&&` (`||`) whose right operand contains t and is reached inside that left
     operand only through unconditional operands and right operands of the same
     operator (`a && (V = f()) && use(V)`).  If the function contains goto/labels
     there is no D.
   * events before D are dropped; events between D and t are all kept (joined),
     whatever branch they sit in; events after t are kept only if a while/do/for loop
     contains both the event and t and does not contain D.
   * the incoming value of a parameter counts as one more source iff there is no D.
 For `V = W` with W a pointer variable, W is read at the assignment for the purpose of
 D, but every later event of W up to t is still kept; with W an array, W is read at t.

 Origin of an expression E (casts and parentheses peeled), evaluated in this order:
   StringLiteral                         literal (harmless as a source; as a site
                                          argument it is emitted `other "literal .."`)
   integer 0 / NULL                      null (harmless)
   call check_valid_path(..)             mediated "check_valid_path"
   call strrchr/strchr/strstr/strpbrk    origin of its first argument
   call G(..), G defined with a body in the same translation unit: the join (rule 1-4
                                          below) of the origins of all `return e;` of G,
                                          each e classified inside G; if harmless:
                                          derived "G()+.." [leaves], else other
   `config_str[..]`/`config_int[..]` (CONFIG_STR/CONFIG_INT), a global `config_*`
                                          config "<text>"
   `X->d_name`, X only defined by readdir(d), d only defined by opendir(W)
                                          derived "readdir" [origin of W] (if harmless)
   pointer arithmetic, `&W[i]`, `c ? a : b`   origin of the pointer operand(s)
   DeclRef to local/parameter V          origin of V, below
   anything else (globals, members, other calls)   other "<source text>"
 Origin of V from its reaching events (sources classified recursively, depth <=
 MAX_DEPTH = 6, a variable re-entered at the same position contributes nothing):
   1. some reaching def is `V = check_valid_path(..)`: mediated "check_valid_path",
      provided every other source is mediated/derived/literal/null/config, else other.
   2. else V has a guard: mediated "legal_path".
   3. else any source other -> other; two different parameters -> other; exactly one
      parameter k and the rest harmless -> param k (the site depends on the callers'
      k-th argument); no events: param k for a parameter, other for a local.
   4. else all harmless: a `med` event -> mediated "<via>"; only plain assignments
      from one and the same origin -> that origin; otherwise
      derived "<fill callees / 'assign' / 'G()' / 'readdir' of all levels, sorted,
      '+'-joined>" [leaf origins of all levels, sorted, deduplicated].
 A use of an FS_CALLEES function other than as a callee (address taken) is emitted as a
 site row `other "address of <f> taken"`.

CALLS: for every function F with a `param k` site (or, transitively, a `param k` call
row; MAX_CALL_DEPTH rounds, then a synthetic `other` row) every CallExpr to F in the
scanned files is listed with the origin of its k-th argument in the caller.  A static
F is only looked up in its own translation unit.  For a non-static F the other
`src/`, `lib/` *.c/*.cpp files (not tests/) are grepped for `\\bF\\s*(`; each hit that is
not a definition/prototype line becomes a row `other "unscanned caller file:line"`.
A use of F other than as a callee becomes a row `other "address of F taken"`.
A `param k` site of a function without any call row has no caller in src/ or lib/.
"""
import argparse
import concurrent.futures
import glob
import json
import os
import re
import subprocess
import sys

CLANG = "/usr/bin/clang-14"
CLANG_ARGS = ["-Xclang", "-ast-dump=json", "-fsyntax-only", "-DHAVE_CONFIG_H", "-D_GNU_SOURCE",
              "-DNEOLITH_VERIF", "-w"]

EFUN_DIR = "lib/efuns"
# build-time tool (add_executable(edit_source ...)), not part of the driver
EXCLUDED = ["lib/efuns/edit_source.c"]
# lib/efuns/*.c that are not in efuns_SOURCES of lib/efuns/CMakeLists.txt: func_spec.c is
# LPC-prototype input for `cc -E | edit_source`, it is not C and is never compiled.
NOT_BUILT = ["lib/efuns/func_spec.c"]
EXTRA_FILES = ["lib/lpc/otable.c", "lib/lpc/object.c", "src/simulate.c", "lib/lpc/lex.c", "lib/lpc/program/binaries.c"]

MAX_DEPTH = 6
MAX_CALL_DEPTH = 4

_P0, _P01, _P1, _P13, _P02 = [0], [0, 1], [1], [1, 3], [0, 2]
FS_CALLEES = {
    "open": _P0, "openat": _P1, "open64": _P0, "creat": _P0, "fopen": _P0, "fopen64": _P0,
    "freopen": _P0, "stat": _P0, "lstat": _P0, "stat64": _P0, "lstat64": _P0, "__xstat": _P0,
    "access": _P0, "faccessat": _P1, "unlink": _P0, "unlinkat": _P1, "remove": _P0,
    "rename": _P01, "renameat": _P13, "mkdir": _P0, "mkdirat": _P1, "rmdir": _P0, "opendir": _P0,
    "link": _P01, "linkat": _P13, "symlink": _P01, "symlinkat": _P02, "readlink": _P0,
    "truncate": _P0, "chmod": _P0, "chown": _P0, "lchown": _P0, "utime": _P0, "utimes": _P0,
    "mkfifo": _P0, "mknod": _P0, "chdir": _P0, "chroot": _P0, "realpath": _P0, "mkstemp": _P0,
    "mkdtemp": _P0, "tmpfile": [], "tempnam": _P0, "tmpnam": _P0, "popen": _P0, "system": _P0,
    "execl": _P0, "execlp": _P0, "execv": _P0, "execve": _P0, "execvp": _P0, "dlopen": _P0,
    "scandir": _P0, "nftw": _P0, "ftw": _P0,
    # further ways to name a file (none is used today; a first use becomes a site row)
    "openat2": _P1, "statx": _P1, "fstatat": _P1, "fstatat64": _P1, "newfstatat": _P1, "__fxstatat": [2],
    "__lxstat": _P1, "__xstat64": _P1, "__lxstat64": _P1, "readlinkat": _P1, "fchmodat": _P1, "fchownat": _P1,
    "utimensat": _P1, "futimesat": _P1, "lutimes": _P0, "euidaccess": _P0, "eaccess": _P0, "mkostemp": _P0,
    "mkstemps": _P0, "truncate64": _P0, "renameat2": _P13, "glob": _P0, "glob64": _P0, "wordexp": _P0,
    "execle": _P0, "execvpe": _P0, "posix_spawn": _P1, "posix_spawnp": _P1, "mkfifoat": _P1, "mknodat": _P1,
    "setxattr": _P0, "getxattr": _P0, "listxattr": _P0, "removexattr": _P0, "pathconf": _P0, "statfs": _P0,
    "statvfs": _P0, "mount": _P01, "umount": _P0, "umount2": _P0, "swapon": _P0, "acct": _P0,
    "ftok": _P0, "shm_open": _P0, "shm_unlink": _P0, "sem_open": _P0, "mq_open": _P0, "dlmopen": _P1,
    "canonicalize_file_name": _P0,
}
FS_CALLEES["__xstat"] = _P1
# name -> (destination argument index, overwriting?, explicit source indices or None = all others)
FILLS = {
    "sprintf": (0, True, None), "snprintf": (0, True, None), "vsprintf": (0, True, None),
    "vsnprintf": (0, True, None), "strcpy": (0, True, None), "strncpy": (0, True, None),
    "stpcpy": (0, True, None), "memcpy": (0, True, None), "memmove": (0, True, None),
    "strcat": (0, False, None), "strncat": (0, False, None),
    "__builtin___sprintf_chk": (0, True, None), "__builtin___snprintf_chk": (0, True, None),
    "__builtin___strcpy_chk": (0, True, None), "__builtin___strncpy_chk": (0, True, None),
    "__builtin___memcpy_chk": (0, True, None), "__builtin___memmove_chk": (0, True, None),
    "__builtin___strcat_chk": (0, False, None), "__builtin___strncat_chk": (0, False, None),
    "strip_name": (1, True, [0]),
}
MEDIATOR_FILLS = {"inc_lexically_normal": 2, "inc_open": 0}
GUARDS = {"legal_path": 0}
MEDIATOR_CALLS = {"check_valid_path"}
PASSTHROUGH = {"strrchr", "strchr", "strstr", "strpbrk", "index", "rindex"}
CONFIG_ARRAYS = {"config_str", "config_int"}
HARMLESS = ("mediated", "derived", "literal", "null", "config")
PEEL = ("ImplicitCastExpr", "ParenExpr", "CStyleCastExpr")
LOOPS = ("WhileStmt", "DoStmt", "ForStmt")
C_SUFFIXES = (".c", ".cc", ".cpp")


# files whose static character arrays are inventoried (a path kept in static storage across the master apply can be
# overwritten by a re-entrant call: seeded change C15-5)
# globals that feed a file-system call without a check at the use: every store must be guarded where it happens
GUARDED_GLOBALS = ("inc_list",)
COPY_CALLS = ("make_shared_string", "string_copy", "alloc_cstring", "xstrdup")
STATIC_FILES = ("lib/efuns/file_utils.c", "lib/efuns/file.c", "lib/efuns/ed.c", "lib/lpc/program/binaries.c",
                "lib/lpc/lex.c", "lib/lpc/preprocess.c", "lib/lpc/object.c", "lib/efuns/dumpstat.c", "lib/efuns/dump_prog.c")
# functions whose integer literals belong to the fingerprint too (strip_name: `p - dest > 2`)
INT_LITERAL_FNS = ("strip_name",)
LITERAL_FNS = ("strip_name", "legal_path", "check_valid_path", "inc_lexically_normal", "inc_open", "match_string")


class SitesError(Exception):
    def __init__(self, site, msg):
        Exception.__init__(self, "%s: %s" % (site, msg))
        self.site = site
        self.msg = msg

    def __reduce__(self):
        return (SitesError, (self.site, self.msg))


# ---------------------------------------------------------------------------- AST utilities

def annotate(root):
    """clang omits `file`/`line` of a location when equal to the previously printed one;
    replay that while walking in print order and store them on every bare location."""
    cur_file, cur_line = None, None
    seen = set()
    stack = [iter([root])]
    while stack:
        try:
            v = next(stack[-1])
        except StopIteration:
            stack.pop()
            continue
        if isinstance(v, dict):
            if "offset" in v and "tokLen" in v:
                if "file" in v:
                    cur_file = v["file"]
                    seen.add(cur_file)
                if "line" in v:
                    cur_line = v["line"]
                v["_f"] = cur_file
                v["_l"] = cur_line
                continue
            stack.append(iter(v.values()))
        elif isinstance(v, list):
            stack.append(iter(v))
    return seen


def peel(e):
    while e is not None and e.get("kind") in PEEL and e.get("inner"):
        e = e["inner"][0]
    return e


def qual(node):
    t = node.get("type") or {}
    return (t.get("desugaredQualType") or t.get("qualType") or "").strip()


def is_ptr(node):
    q = qual(node)
    for w in ("const", "restrict", "volatile", "__restrict"):
        q = re.sub(r"\b%s\b" % w, "", q)
    q = q.strip()
    return q.endswith("*") or q.endswith("]")


def is_array(node):
    return qual(node).endswith("]")


def callee_name(call):
    inner = call.get("inner") or []
    if not inner:
        return None
    c = peel(inner[0])
    if c and c.get("kind") == "DeclRefExpr":
        r = c.get("referencedDecl") or {}
        if r.get("kind") == "FunctionDecl":
            return r.get("name")
    return None


def call_args(call):
    return (call.get("inner") or [])[1:]


class Fn:
    """syntactic index of one function body"""

    def __init__(self, tu, node, fn_file_abs, fn_file_rel):
        self.tu = tu
        self.node = node
        self.name = node.get("name")
        self.file_abs = fn_file_abs
        self.file = fn_file_rel
        self.static = node.get("storageClass") == "static"
        self.params = [c for c in node.get("inner", []) if c.get("kind") == "ParmVarDecl"]
        self.body = [c for c in node.get("inner", []) if c.get("kind") == "CompoundStmt"][0]
        self.vars = {}
        self.pindex = {}
        for i, p in enumerate(self.params):
            self.vars[p["id"]] = p
            self.pindex[p["id"]] = i
        self.parent = {}
        self.nodes = []
        self.loops = []
        self.cases = []
        self.has_goto = False
        self.calls = []
        self.events = {}
        self.guards = set()
        self.guard_pos = {}
        self.aliases = {}   # V id -> set of alias var ids
        self._index()
        self._collect()

    # ---- positions
    def _loc(self, loc):
        if "expansionLoc" in loc or "spellingLoc" in loc:
            ex = loc.get("expansionLoc") or {}
            sp = loc.get("spellingLoc") or {}
            if ex.get("isMacroArgExpansion") and sp.get("_f") == self.file_abs and "offset" in sp:
                return sp, False
            return ex, True
        return loc, False

    def bpos(self, n):
        loc, _ = self._loc((n.get("range") or {}).get("begin") or {})
        return loc.get("offset", -1)

    def epos(self, n):
        loc, _ = self._loc((n.get("range") or {}).get("end") or {})
        return loc.get("offset", -1) + loc.get("tokLen", 0)

    def line(self, n):
        b = (n.get("range") or {}).get("begin") or {}
        loc = b.get("expansionLoc") or b
        return loc.get("_l") or 0

    def text(self, n):
        r = n.get("range") or {}
        b, bm = self._loc(r.get("begin") or {})
        e, em = self._loc(r.get("end") or {})
        src = self.tu.source(self.file_abs)
        if "offset" not in b or "offset" not in e or src is None:
            return "<%s>" % n.get("kind")
        bo, eo = b["offset"], e["offset"] + e.get("tokLen", 0)
        if em:
            # ends inside a macro body: take the invocation, with its argument list if any
            m = re.compile(rb"\s*\(").match(src, eo)
            if m:
                depth, i = 0, m.end() - 1
                while i < len(src):
                    if src[i:i + 1] == b"(":
                        depth += 1
                    elif src[i:i + 1] == b")":
                        depth -= 1
                        if depth == 0:
                            break
                    i += 1
                eo = min(i + 1, len(src))
        if eo <= bo:
            eo = bo + b.get("tokLen", 1)
        s = src[bo:eo].decode("latin-1")
        return cut(s)

    # ---- indexing
    def _index(self):
        stack = [(self.body, None)]
        while stack:
            n, par = stack.pop()
            if not isinstance(n, dict) or "kind" not in n:
                continue
            if "id" in n:
                self.parent[n["id"]] = par
            self.nodes.append(n)
            k = n["kind"]
            if k == "VarDecl":
                self.vars[n["id"]] = n
            elif k in LOOPS:
                self.loops.append((self.bpos(n), self.epos(n)))
            elif k in ("GotoStmt", "LabelStmt", "IndirectGotoStmt"):
                self.has_goto = True
            elif k == "CallExpr":
                self.calls.append(n)
            for c in reversed(n.get("inner") or []):
                stack.append((c, n))
        self.nodes.sort(key=lambda x: (self.bpos(x), -self.epos(x)))
        for n in self.nodes:
            if n["kind"] in ("CaseStmt", "DefaultStmt"):
                p = self.parent.get(n["id"])
                while p is not None and p["kind"] != "SwitchStmt":
                    p = self.parent.get(p["id"])
                if p is not None:
                    self.cases.append((self.bpos(n), self.bpos(p), self.epos(p)))
                else:
                    self.has_goto = True

    def local_ref(self, e):
        """var id if e peels to a DeclRefExpr of a local/param of this function"""
        e = peel(e)
        if e is not None and e.get("kind") == "DeclRefExpr":
            r = e.get("referencedDecl") or {}
            if r.get("id") in self.vars:
                return r["id"]
        return None

    def local_refs_in(self, e):
        out = []
        stack = [e]
        while stack:
            n = stack.pop()
            if not isinstance(n, dict):
                continue
            if n.get("kind") == "DeclRefExpr":
                r = n.get("referencedDecl") or {}
                if r.get("id") in self.vars and is_ptr(self.vars[r["id"]]):
                    out.append(r["id"])
            stack.extend(n.get("inner") or [])
        return out

    def base_var(self, e):
        """V if e is `V`, `V + k`, `&V[k]`, `strrchr(V, ..)`: else None (alias shapes)"""
        e = peel(e)
        if e is None:
            return None
        v = self.local_ref(e)
        if v is not None:
            return v
        k = e.get("kind")
        if k == "BinaryOperator" and e.get("opcode") in ("+", "-"):
            ptrs = [x for x in e["inner"] if is_ptr(peel(x)) or is_ptr(x)]
            if len(ptrs) == 1:
                return self.base_var(ptrs[0])
            return None
        if k == "UnaryOperator" and e.get("opcode") == "&":
            s = peel(e["inner"][0])
            if s is not None and s.get("kind") == "ArraySubscriptExpr":
                return self.base_var(s["inner"][0])
            return None
        if k == "CallExpr" and callee_name(e) in PASSTHROUGH and call_args(e):
            return self.base_var(call_args(e)[0])
        return None

    def _dominfo(self, n):
        """(S, B) when n is evaluated unconditionally in statement S, a direct child of
        compound statement B; else None"""
        cur = n
        while True:
            p = self.parent.get(cur.get("id"))
            if p is None:
                return None
            k = p["kind"]
            if k == "CompoundStmt":
                return (cur, p)
            if k in ("IfStmt", "SwitchStmt"):
                if not p.get("inner") or p["inner"][0] is not cur:
                    return None
            elif k in ("CaseStmt", "DefaultStmt", "LabelStmt"):
                if p["inner"][-1] is not cur:
                    return None
            elif k in ("DeclStmt", "VarDecl"):
                pass
            elif k.endswith("Stmt"):
                return None
            elif k in ("ConditionalOperator", "BinaryConditionalOperator"):
                if p["inner"][0] is not cur:
                    return None
            elif k == "BinaryOperator" and p.get("opcode") in ("&&", "||"):
                if p["inner"][0] is not cur:
                    return None
            elif k in ("StmtExpr", "UnaryExprOrTypeTraitExpr"):
                return None
            cur = p

    def _expr_dominates(self, n, k):
        """n sits in the left operand of an `&&` (`||`) whose right operand contains position k,
        and is itself reached through unconditional operands or right operands of the same
        operator only: then n was evaluated whenever k is"""
        cur = n
        ops = set()
        while True:
            p = self.parent.get(cur.get("id"))
            if p is None:
                return False
            kd = p["kind"]
            if kd.endswith("Stmt") or kd in ("VarDecl", "StmtExpr", "UnaryExprOrTypeTraitExpr"):
                return False
            if kd == "BinaryOperator" and p.get("opcode") in ("&&", "||"):
                if p["inner"][0] is cur:
                    rhs = p["inner"][1]
                    if self.bpos(rhs) <= k < self.epos(rhs) and ops <= {p["opcode"]}:
                        return True
                else:
                    ops.add(p["opcode"])
            elif kd in ("ConditionalOperator", "BinaryConditionalOperator"):
                if p["inner"][0] is not cur:
                    return False
            cur = p

    def _add_event(self, v, ev):
        self.events.setdefault(v, []).append(ev)

    def _collect(self):
        fills = []
        for n in self.nodes:
            k = n["kind"]
            if k == "VarDecl":
                init = [c for c in n.get("inner") or [] if "kind" in c and not c["kind"].endswith("Attr")
                        and c["kind"] not in ("FullComment",)]
                if n.get("init") and init:
                    self._add_event(n["id"], dict(kind="def", pos=self.epos(n), node=n, rhs=init[-1],
                                                  via="assign", full=True, dom=self._dominfo(n)))
                    if is_ptr(n) and not is_array(n):
                        b = self.base_var(init[-1])
                        if b is not None and b != n["id"]:
                            self.aliases.setdefault(b, set()).add(n["id"])
            elif k == "BinaryOperator" and n.get("opcode") == "=":
                v = self.local_ref(n["inner"][0])
                if v is not None:
                    self._add_event(v, dict(kind="def", pos=self.epos(n), node=n, rhs=n["inner"][1],
                                            via="assign", full=True, dom=self._dominfo(n)))
                    if is_ptr(self.vars[v]):
                        b = self.base_var(n["inner"][1])
                        if b is not None and b != v:
                            self.aliases.setdefault(b, set()).add(v)
            elif k == "CallExpr":
                name = callee_name(n)
                args = call_args(n)
                if name in GUARDS and len(args) > GUARDS[name]:
                    v = self.local_ref(args[GUARDS[name]])
                    if v is not None:
                        self.guard_pos.setdefault(v, []).append(self.epos(n))
                if name in MEDIATOR_FILLS and len(args) > MEDIATOR_FILLS[name]:
                    v = self.local_ref(args[MEDIATOR_FILLS[name]])
                    if v is not None:
                        self._add_event(v, dict(kind="med", pos=self.epos(n), node=n, via=name,
                                                full=True, dom=self._dominfo(n)))
                if name in FILLS:
                    di, over, sidx = FILLS[name]
                    if len(args) > di:
                        dest = args[di]
                        v = self.local_ref(dest)
                        exact = v is not None
                        targets = [v] if v is not None else []
                        if v is None:
                            b = self.base_var(dest)
                            targets = [b] if b is not None else sorted(set(self.local_refs_in(dest)))
                        for v in targets:
                            if sidx is None:
                                srcs = [a for i, a in enumerate(args) if i != di and (is_ptr(a) or is_ptr(peel(a)))]
                            else:
                                srcs = [args[i] for i in sidx if i < len(args)]
                            via = re.sub(r"^__builtin___(\w+)_chk$", r"\1", name)
                            ev = dict(kind="fill", pos=self.epos(n), node=n, via=via, srcs=srcs,
                                      full=bool(over and exact), dom=self._dominfo(n))
                            self._add_event(v, ev)
                            fills.append((v, ev))
        for v, als in self.aliases.items():
            for p, ev in fills:
                if p in als:
                    ev2 = dict(ev)
                    ev2["full"] = False
                    ev2["dom"] = None
                    ev2["alias"] = True
                    self._add_event(v, ev2)
        for v in self.events:
            self.events[v].sort(key=lambda e: e["pos"])
        for v, gps in self.guard_pos.items():
            last = max([e["pos"] for e in self.events.get(v, [])] or [-1])
            if any(g > last for g in gps):
                self.guards.add(v)

    # ---- reaching events
    def _dominates(self, ev, k):
        if self.has_goto or not ev.get("full"):
            return False
        if ev.get("alias"):
            return False
        if ev["pos"] < k and self._expr_dominates(ev["node"], k):
            return True
        if ev.get("dom") is None:
            return False
        s, b = ev["dom"]
        if not (ev["pos"] < k and self.epos(s) <= k and self.bpos(b) <= k < self.epos(b)):
            return False
        sb = self.bpos(s)
        for (cp, swb, swe) in self.cases:
            if ev["pos"] <= cp < k and swb < sb:
                return False
        return True

    def reaching(self, v, k, t):
        evs = self.events.get(v, [])
        d = None
        for ev in evs:
            if self._dominates(ev, k):
                d = ev
        out = []
        for ev in evs:
            if d is not None and ev is not d and ev["pos"] < d["pos"]:
                continue
            if ev["pos"] <= t:
                out.append(ev)
                continue
            for (lb, le) in self.loops:
                if lb <= ev["pos"] < le and (lb <= t < le or lb <= k < le) and not (d is not None and lb <= d["pos"] < le):
                    out.append(ev)
                    break
        return out, d

    # ---- classification
    def classify_expr(self, e, k, t, depth=0, stack=frozenset()):
        e0 = e
        e = peel(e)
        if e is None:
            return ("other", "<empty>")
        kind = e.get("kind")
        if kind == "StringLiteral":
            return ("literal", self.text(e))
        if kind == "IntegerLiteral" and e.get("value") == "0":
            return ("null",)
        if kind in ("GNUNullExpr", "CXXNullPtrLiteralExpr"):
            return ("null",)
        if kind == "CallExpr":
            name = callee_name(e)
            if name in MEDIATOR_CALLS:
                return ("mediated", name)
            if name in PASSTHROUGH and call_args(e):
                return self.classify_expr(call_args(e)[0], k, t, depth, stack)
            g = self.tu.fns.get(name)
            if g is not None and name not in FS_CALLEES and name not in FILLS:
                o = g.return_origin(depth + 1, stack)
                if o is not None and o[0] in HARMLESS:
                    vias = set([name + "()"]) | (set(o[1].split("+")) if o[0] == "derived" else set())
                    return ("derived", "+".join(sorted(vias)), leaf_bases([o]))
                if o is not None and o[0] == "other":
                    return ("other", "%s <- return of %s: %s" % (self.text(e), name, o[1]))
            return ("other", self.text(e))
        if kind == "DeclRefExpr":
            r = e.get("referencedDecl") or {}
            if r.get("id") in self.vars:
                v = r["id"]
                if is_array(self.vars[v]):
                    return self.classify_var(v, t, t, depth, stack)
                return self.classify_var(v, k, t, depth, stack)
            if r.get("kind") == "VarDecl" and (r.get("name") in CONFIG_ARRAYS or (r.get("name") or "").startswith("config_")):
                return ("config", self.text(e0))
            if r.get("kind") == "VarDecl":
                return ("other", "global " + self.text(e))
            return ("other", self.text(e))
        if kind == "ArraySubscriptExpr":
            b = peel(e["inner"][0])
            if b is not None and b.get("kind") == "DeclRefExpr":
                r = b.get("referencedDecl") or {}
                if r.get("id") not in self.vars and r.get("name") in CONFIG_ARRAYS:
                    return ("config", self.text(e))
            return ("other", self.text(e))
        if kind == "MemberExpr":
            o = self._dirent(e, t, depth, stack)
            if o is not None:
                return o
            return ("other", self.text(e))
        if kind == "BinaryOperator" and e.get("opcode") in ("+", "-"):
            ptrs = [x for x in e["inner"] if is_ptr(x) or is_ptr(peel(x))]
            if len(ptrs) == 1:
                return self.classify_expr(ptrs[0], k, t, depth, stack)
            return ("other", self.text(e))
        if kind == "BinaryOperator" and e.get("opcode") == ",":
            return self.classify_expr(e["inner"][1], k, t, depth, stack)
        if kind == "UnaryOperator" and e.get("opcode") == "&":
            s = peel(e["inner"][0])
            if s is not None and s.get("kind") == "ArraySubscriptExpr":
                return self.classify_expr(s["inner"][0], k, t, depth, stack)
            return ("other", self.text(e))
        if kind == "ConditionalOperator":
            cs = []
            cvp = False
            for br in e["inner"][1:3]:
                o = self.classify_expr(br, k, t, depth, stack)
                pb = peel(br)
                if pb is not None and pb.get("kind") == "CallExpr" and callee_name(pb) in MEDIATOR_CALLS:
                    cvp = True
                cs.append((o, "cond", "def"))
            return self.join(cs, cvp, False, None, self.text(e))
        return ("other", self.text(e))

    def _dirent(self, e, t, depth, stack):
        """`X->d_name` with X := readdir(d) only and d := opendir(W) only"""
        if e.get("name") != "d_name":
            return None
        x = self.local_ref(e["inner"][0])
        if x is None:
            return None
        xe = [ev for ev in self.events.get(x, []) if ev["kind"] == "def"]
        if not xe or len(xe) != len(self.events.get(x, [])):
            return None
        outs = []
        for ev in xe:
            c = peel(ev["rhs"])
            if c is None or c.get("kind") != "CallExpr" or callee_name(c) != "readdir" or not call_args(c):
                return None
            d = self.local_ref(call_args(c)[0])
            if d is None:
                return None
            de = self.events.get(d, [])
            if not de:
                return None
            for dv in de:
                oc = peel(dv.get("rhs")) if dv["kind"] == "def" else None
                if oc is None or oc.get("kind") != "CallExpr" or callee_name(oc) != "opendir" or not call_args(oc):
                    return None
                a = call_args(oc)[0]
                outs.append((self.classify_expr(a, self.bpos(a), self.bpos(a), depth + 1, stack), "readdir", "fill"))
        o = self.join(outs, False, False, None, "d_name")
        if o[0] in HARMLESS:
            vias = set(["readdir"]) | (set(o[1].split("+")) if o[0] == "derived" else set())
            return ("derived", "+".join(sorted(vias)), leaf_bases([o]))
        return ("other", "readdir of " + o[1] if o[0] == "other" else "readdir of directory from parameter")

    def return_origin(self, depth, stack):
        """join of the origins of all `return e;` of this function (None: no value / cyclic)"""
        key = ("return", self.name, self.file)
        if key in stack:
            return None
        if depth > MAX_DEPTH:
            return ("other", "depth limit at return of " + self.name)
        stack = stack | {key}
        contribs = []
        cvp = False
        for n in self.nodes:
            if n["kind"] == "ReturnStmt" and n.get("inner"):
                e = n["inner"][0]
                p = self.bpos(e)
                o = self.classify_expr(e, p, p, depth + 1, stack)
                pe = peel(e)
                if pe is not None and pe.get("kind") == "CallExpr" and callee_name(pe) in MEDIATOR_CALLS:
                    cvp = True
                contribs.append((o, self.name + "()", "fill"))
        if not contribs:
            return None
        return self.join(contribs, cvp, False, None, "return of " + self.name)

    def classify_var(self, v, k, t, depth, stack):
        key = (v, k, t)
        decl = self.vars[v]
        name = decl.get("name") or "?"
        if key in stack:
            return None
        if depth > MAX_DEPTH:
            return ("other", "depth limit at " + name)
        stack = stack | {key}
        evs, d = self.reaching(v, k, t)
        contribs = []
        cvp = False
        if v in self.pindex and d is None:
            contribs.append((("param", self.pindex[v]), "param", "param"))
        for ev in evs:
            if ev["kind"] == "def":
                rhs = ev["rhs"]
                o = self.classify_expr(rhs, self.bpos(rhs), max(t, ev["pos"]), depth + 1, stack)
                pr = peel(rhs)
                if pr is not None and pr.get("kind") == "CallExpr" and callee_name(pr) in MEDIATOR_CALLS:
                    cvp = True
                contribs.append((o, "assign", "def"))
            elif ev["kind"] == "med":
                contribs.append((("mediated", ev["via"]), ev["via"], "med"))
            else:
                if not ev["srcs"]:
                    contribs.append((None, ev["via"], "fill"))
                for s in ev["srcs"]:
                    p = self.bpos(s)
                    o = self.classify_expr(s, p, p, depth + 1, stack)
                    contribs.append((o, ev["via"], "fill"))
        # the guard must textually PRECEDE the read (the `legal_path (V)` call ends before the site argument begins):
        # a site placed in front of its guard is not guarded
        guarded = v in self.guards and any(g <= t for g in self.guard_pos.get(v, []))
        return self.join(contribs, cvp, guarded, v, name)

    def join(self, contribs, cvp, guarded, v, name):
        origins = [o for (o, _, _) in contribs if o is not None]
        bad = [o for o in origins if o[0] == "other"]
        params = sorted(set(o[1] for o in origins if o[0] == "param"))
        if cvp:
            if bad:
                return ("other", "check_valid_path result of %s mixed with: %s" % (name, bad[0][1]))
            if params:
                return ("other", "check_valid_path result of %s mixed with parameter %s" % (name, self.pname(params[0])))
            return ("mediated", "check_valid_path")
        if guarded:
            return ("mediated", "legal_path")
        if not contribs:
            return ("other", "local %s is never defined in %s" % (name, self.name))
        if bad:
            why = bad[0][1]
            if v is not None and not why.startswith(name):
                why = "%s <- %s" % (name, why)
            return ("other", why)
        if len(params) > 1:
            return ("other", "derived from parameters " + ", ".join(self.pname(p) for p in params))
        if len(params) == 1:
            return ("param", params[0])
        meds = sorted(set(via for (_, via, kind) in contribs if kind == "med"))
        if meds:
            return ("mediated", meds[0])
        if all(kind == "def" for (_, _, kind) in contribs):
            distinct = []
            for o in origins:
                if o not in distinct:
                    distinct.append(o)
            if len(distinct) == 1:
                return distinct[0]
        vias = set(via for (_, via, _) in contribs)
        for o in origins:
            if o[0] == "derived":
                vias.update(o[1].split("+"))
        return ("derived", "+".join(sorted(vias)), leaf_bases(origins))

    def pname(self, k):
        if k < len(self.params) and self.params[k].get("name"):
            return self.params[k]["name"]
        return "#%d" % k


def leaf_bases(origins):
    out = set()
    for o in origins:
        if o is None or o[0] == "null":
            continue
        if o[0] == "derived":
            out.update(o[2])
        elif o[0] == "mediated":
            out.add("mediated " + o[1])
        elif o[0] == "config":
            out.add("config " + o[1])
        elif o[0] == "literal":
            out.add("literal " + o[1])
        else:
            out.add("%s %s" % (o[0], o[1]))
    return sorted(out)


def cut(s, n=60):
    s = re.sub(r"\s+", " ", s).strip()
    if len(s) > n:
        s = s[:n - 3] + "..."
    return s


def final_origin(o):
    """internal origin -> one of the five Lean constructors (as a JSON-able list)"""
    if o is None:
        return ["other", "cyclic definition"]
    if o[0] == "literal":
        return ["other", cut("literal " + o[1])]
    if o[0] == "null":
        return ["other", "null"]
    if o[0] == "derived":
        return ["derived", o[1], list(o[2])]
    if o[0] == "param":
        return ["param", int(o[1])]
    if o[0] == "other":
        # third element: the ROOT of the flow ("a <- b <- expr" -> "expr"), taken before the text is shortened,
        # so that it does not depend on the chain of local variables in between
        return ["other", cut(o[1]), cut(o[1].split(" <- ")[-1], 48)]
    return [o[0], cut(o[1])]


def origin_root(o):
    """stable key of an `other` origin for the allow-list of NV/C15/Sites.lean ("" for the other constructors)"""
    if o[0] != "other":
        return ""
    return o[2] if len(o) > 2 else cut(o[1].split(" <- ")[-1], 48)


class TU:
    def __init__(self, repo, rel, path):
        self.repo = repo
        self.rel = rel
        self.path = path
        self._src = {}
        self.fns = {}

    def source(self, f):
        if f not in self._src:
            try:
                with open(f, "rb") as fh:
                    self._src[f] = fh.read()
            except OSError:
                self._src[f] = None
        return self._src[f]


def analyze_file(job):
    """worker wrapper: errors travel back as values (a custom exception does not always survive
    the process pool), the parent re-raises them"""
    try:
        return _analyze_file(job)
    except SitesError as ex:
        return dict(error=(ex.site, ex.msg))
    except BaseException as ex:   # noqa: anything else is a translator failure for this file
        return dict(error=(job[1], "translator failed: %r" % (ex,)))


def _analyze_file(job):
    """parse one translation unit, return its rows (picklable)"""
    repo, rel, path, flags = job
    if not os.path.isfile(path):
        raise SitesError(rel, "listed file is missing: %s" % path)
    cmd = [CLANG] + CLANG_ARGS + list(flags) + [path]
    r = subprocess.run(cmd, stdout=subprocess.PIPE, stderr=subprocess.PIPE)
    if r.returncode != 0:
        raise SitesError(rel, "clang failed (%d): %s" % (r.returncode, r.stderr.decode("utf-8", "replace")[:600]))
    try:
        root = json.loads(r.stdout)
    except ValueError as ex:
        raise SitesError(rel, "clang produced unparsable JSON: %s" % ex)
    del r
    seen = annotate(root)
    main_abs = os.path.realpath(path)
    repo_abs = os.path.realpath(repo)

    def relname(f):
        fa = os.path.realpath(f)
        if fa == main_abs:
            return rel
        if fa.startswith(repo_abs + os.sep):
            return os.path.relpath(fa, repo_abs)
        return None

    included = set()
    for f in seen:
        if f and f.endswith(C_SUFFIXES) and os.path.realpath(f) != main_abs:
            rn = relname(f)
            if rn is not None:
                included.add(rn)
    tu = TU(repo, rel, path)
    decl_file = {}
    fns = []
    for n in root.get("inner") or []:
        if n.get("kind") != "FunctionDecl":
            continue
        loc = n.get("loc") or {}
        loc = loc.get("expansionLoc") or loc
        f = loc.get("_f")
        decl_file[n.get("id")] = f
        if not any(c.get("kind") == "CompoundStmt" for c in n.get("inner") or []):
            continue
        if not f:
            continue
        fa = os.path.realpath(f)
        if fa == main_abs or (f.endswith(C_SUFFIXES) and relname(f) is not None):
            fns.append((n, f, relname(f)))
    out = dict(rel=rel, included=sorted(included), sites=[], calls=[], addr=[], defs=[], cvp=[], lits=[], ext=[], statics=[], gstores=[])

    def char_array(node):
        q = qual(node)
        return bool(re.match(r"^(const\s+)?(unsigned\s+|signed\s+)?char\s*\[", q))

    def walk_statics(node, fname, frel):
        for c in node.get("inner") or []:
            if not isinstance(c, dict):
                continue
            if c.get("kind") == "VarDecl" and c.get("storageClass") == "static" and char_array(c):
                out["statics"].append(dict(file=frel, fn=fname, name=c.get("name"), type=qual(c)))
            walk_statics(c, fname, frel)

    # character arrays that outlive a call: file scope (any linkage) and function-scope `static`
    for n in root.get("inner") or []:
        if n.get("kind") == "VarDecl" and char_array(n) and n.get("storageClass") != "extern":
            loc = n.get("loc") or {}
            loc = loc.get("expansionLoc") or loc
            f = loc.get("_f")
            if f and (os.path.realpath(f) == main_abs or (f.endswith(C_SUFFIXES) and relname(f) is not None)):
                out["statics"].append(dict(file=relname(f), fn="", name=n.get("name"), type=qual(n)))
    fobjs = []
    for (n, f, frel) in fns:
        try:
            fn = Fn(tu, n, f, frel)
        except Exception as ex:   # never drop a function silently
            raise SitesError("%s:%s" % (frel, n.get("name")), "cannot index function: %r" % (ex,))
        fobjs.append((n, fn, frel))
        tu.fns[fn.name] = fn
    for (n, fn, frel) in fobjs:
        walk_statics(n, fn.name, frel)
        out["defs"].append(dict(name=fn.name, file=frel, tu=rel, static=fn.static, nparams=len(fn.params),
                                line=(n.get("loc") or {}).get("_l") or fn.line(n)))
        callee_nodes = set()
        for c in fn.calls:
            name = callee_name(c)
            args = call_args(c)
            if c.get("inner"):
                pc = peel(c["inner"][0])
                if pc is not None and "id" in pc:
                    callee_nodes.add(pc["id"])
            if name is None:
                continue
            line = fn.line(c)
            if name == "check_valid_path" and len(args) >= 4:
                # the operation name and the write flag each caller presents to the master
                out["cvp"].append(dict(file=frel, fn=fn.name, line=line, op=cut(fn.text(args[2]), 40),
                                       flag=cut(fn.text(args[3]), 40)))
            if name in FS_CALLEES:
                idxs = FS_CALLEES[name]
                if not idxs:
                    out["sites"].append(dict(file=frel, fn=fn.name, callee=name, arg=0, line=line,
                                             origin=["other", name]))
                for i in idxs:
                    if i >= len(args):
                        o = ["other", "argument %d missing" % i]
                    else:
                        o = _safe_classify(fn, args[i])
                    out["sites"].append(dict(file=frel, fn=fn.name, callee=name, arg=i, line=line, origin=o))
            else:
                pc = peel(c["inner"][0])
                rid = (pc.get("referencedDecl") or {}).get("id")
                df = decl_file.get(rid)
                if name not in tu.fns and (df is None or relname(df) is None):
                    # a function declared OUTSIDE the repository (libc, compiler builtin) that takes a character
                    # pointer: it must be a known file-system callee (FS_CALLEES) or be classified as harmless on
                    # the Lean side (`NV.C15.Sites.knownNonFs`) - an unknown name fails closed there
                    fty = ((pc.get("referencedDecl") or {}).get("type") or {}).get("qualType") or qual(pc)
                    if re.search(r"\bchar\b[^,()]*\*", fty.split("(", 1)[-1]) or "..." in fty or "(" not in fty:
                        out["ext"].append(name)
                if df is not None and not df.startswith("/usr/"):
                    origins = [_safe_classify(fn, a) for a in args]
                    out["calls"].append(dict(file=frel, tu=rel, caller=fn.name, callee=name, line=line,
                                             origins=origins))
        # stores into the global include search path `inc_list[..] = X`: X must be 0 or a copy of a local that a
        # PRECEDING legal_path () call of the same function guards (data flow into the fallback of inc_open)
        for x in fn.nodes:
            if x["kind"] == "BinaryOperator" and x.get("opcode") == "=" and len(x.get("inner") or []) == 2:
                lhs = peel(x["inner"][0])
                if lhs is None or lhs.get("kind") != "ArraySubscriptExpr":
                    continue
                base = peel((lhs.get("inner") or [None])[0])
                if base is None or base.get("kind") != "DeclRefExpr" or \
                        (base.get("referencedDecl") or {}).get("name") not in GUARDED_GLOBALS:
                    continue
                rhs = peel(x["inner"][1])
                kind = "other"
                if rhs is not None and rhs.get("kind") == "IntegerLiteral" and str(rhs.get("value")) == "0":
                    kind = "null"
                elif rhs is not None and rhs.get("kind") == "CallExpr" and call_args(rhs):
                    a0 = call_args(rhs)[0]
                    v = fn.local_ref(a0)
                    if v is not None and callee_name(rhs) in COPY_CALLS and \
                            any(g <= fn.bpos(x) for g in fn.guard_pos.get(v, [])) and \
                            not any(e["pos"] > max(g for g in fn.guard_pos.get(v, [0]) if g <= fn.bpos(x)) and e["pos"] < fn.bpos(x)
                                    for e in fn.events.get(v, [])):
                        kind = "guarded"
                out["gstores"].append(dict(file=frel, fn=fn.name, glob=(base.get("referencedDecl") or {}).get("name"),
                                           rhs=cut(fn.text(x["inner"][1]), 60), kind=kind))
        if fn.name in LITERAL_FNS:
            # every character / string literal of the function, in source order (fingerprint of its comparisons)
            lits = []
            for x in fn.nodes:
                if x["kind"] == "CharacterLiteral":
                    lits.append((fn.bpos(x), "c%d" % int(x.get("value", 0))))
                elif x["kind"] == "IntegerLiteral" and fn.name in INT_LITERAL_FNS:
                    b = (x.get("range") or {}).get("begin") or {}
                    if "spellingLoc" in b or "expansionLoc" in b:
                        continue
                    lits.append((fn.bpos(x), "i" + str(x.get("value", ""))))
                elif x["kind"] == "StringLiteral" and len(str(x.get("value", ""))) <= 6:
                    # short strings only (the search pattern "/."); trace / error message texts are not logic,
                    # nor are strings that come out of a macro body (the "WARN" tag of debug_warn ...)
                    b = (x.get("range") or {}).get("begin") or {}
                    if "spellingLoc" in b or "expansionLoc" in b:
                        continue
                    lits.append((fn.bpos(x), "s" + str(x.get("value", ""))))
            out["lits"].append(dict(fn=fn.name, file=frel, lits=[v for (_, v) in sorted(lits)]))
        for x in fn.nodes:
            if x["kind"] == "DeclRefExpr" and x.get("id") not in callee_nodes:
                r = x.get("referencedDecl") or {}
                if r.get("kind") == "FunctionDecl" and r.get("name") in FS_CALLEES:
                    out["sites"].append(dict(file=frel, fn=fn.name, callee=r["name"], arg=0, line=fn.line(x),
                                             origin=["other", "address of %s taken" % r["name"]]))
                elif r.get("kind") == "FunctionDecl":
                    df = decl_file.get(r.get("id"))
                    if df is not None and not df.startswith("/usr/"):
                        out["addr"].append(dict(file=frel, tu=rel, caller=fn.name, callee=r.get("name"),
                                                line=fn.line(x)))
    return out


def _safe_classify(fn, e):
    try:
        p = fn.bpos(e)
        return final_origin(fn.classify_expr(e, p, p))
    except RecursionError:
        return ["other", "classification recursion limit"]
    except Exception as ex:  # complete: an unclassifiable site is `other`, never dropped
        return ["other", cut("unclassifiable: %r" % (ex,))]


# ---------------------------------------------------------------------------- driver

def input_files(repo):
    d = os.path.join(repo, EFUN_DIR)
    if not os.path.isdir(d):
        raise SitesError(EFUN_DIR, "directory missing")
    efuns = sorted(os.path.relpath(p, repo) for p in glob.glob(os.path.join(d, "*.c")))
    cm = os.path.join(d, "CMakeLists.txt")
    built = None
    if os.path.isfile(cm):
        m = re.search(r"set\s*\(\s*efuns_SOURCES\s+([^)]*)\)", open(cm).read())
        if m:
            built = set(EFUN_DIR + "/" + w for w in m.group(1).split())
    for nb in NOT_BUILT:
        if built is not None and nb in built:
            raise SitesError(nb, "is listed in NOT_BUILT but lib/efuns/CMakeLists.txt builds it")
    skip = set(EXCLUDED) | set(NOT_BUILT)
    files = [f for f in efuns if f not in skip]
    if built is not None:
        for b in sorted(built):
            if b not in efuns:
                raise SitesError(b, "named in efuns_SOURCES but missing from lib/efuns")
    files += EXTRA_FILES
    not_scanned = [f for f in efuns if f in skip]
    return files, not_scanned


DECL_WORDS = {"return", "else", "do", "case", "goto", "sizeof", "if", "while", "for", "switch"}


def grep_unscanned(repo, names, scanned):
    """textual callers of non-static functions in src/ and lib/ sources outside the scan"""
    hits = []
    if not names:
        return hits
    files = []
    for top in ("src", "lib"):
        for root, dirs, fs in os.walk(os.path.join(repo, top)):
            dirs[:] = sorted(x for x in dirs if x not in ("tests", "test"))
            for f in sorted(fs):
                if f.endswith((".c", ".cpp")):
                    rel = os.path.relpath(os.path.join(root, f), repo)
                    if rel not in scanned:
                        files.append(rel)
    pats = dict((n, re.compile(r"\b%s\s*\(" % re.escape(n))) for n in names)
    for rel in sorted(files):
        try:
            lines = open(os.path.join(repo, rel), encoding="latin-1").read().split("\n")
        except OSError as ex:
            raise SitesError(rel, "cannot read: %s" % ex)
        in_comment = False
        for ln, text in enumerate(lines, 1):
            code = text
            if in_comment:
                if "*/" in code:
                    code = code.split("*/", 1)[1]
                    in_comment = False
                else:
                    continue
            code = re.sub(r"/\*.*?\*/", " ", code)
            if "/*" in code:
                code = code.split("/*", 1)[0]
                in_comment = True
            code = code.split("//", 1)[0]
            for n in sorted(names):
                m = pats[n].search(code)
                if not m:
                    continue
                prefix = code[:m.start()].strip()
                if prefix == "":
                    if not text[:1].isspace():
                        continue        # definition with the name in column 0
                elif re.match(r"^[A-Za-z_][\w\s\*]*$", prefix) and prefix.split()[0] not in DECL_WORDS:
                    continue            # prototype / definition: only type words before the name
                hits.append(dict(file=rel, callee=n, line=ln))
    return hits


def analyze(repo, bdir, include_flags, overrides=None, jobs=None):
    repo = os.path.abspath(repo)
    overrides = overrides or {}
    files, not_scanned = input_files(repo)
    work = []
    for rel in files:
        path = overrides.get(rel, os.path.join(repo, rel))
        if not os.path.isfile(path):
            raise SitesError(rel, "listed file is missing: %s" % path)
        work.append((repo, rel, path, list(include_flags)))
    for k in overrides:
        if k not in files:
            raise SitesError(k, "override for a file that is not scanned")
    results = []
    with concurrent.futures.ProcessPoolExecutor(max_workers=jobs or min(len(work), os.cpu_count() or 4)) as ex:
        for res in ex.map(analyze_file, work):
            if "error" in res:
                raise SitesError(res["error"][0], res["error"][1])
            results.append(res)
    scanned = set(files)
    sites, calls, addr, defs = [], [], [], []
    cvp_calls, lit_rows = [], []
    ext_callees = set()
    statics = []
    gstores = []
    for r in results:
        ext_callees.update(r.get("ext", []))
        statics += r.get("statics", [])
        gstores += r.get("gstores", [])
        cvp_calls += r.get("cvp", [])
        lit_rows += r.get("lits", [])
        scanned.update(r["included"])
        sites += r["sites"]
        calls += r["calls"]
        addr += r["addr"]
        defs += r["defs"]
    # a textually included .c that is also scanned on its own would be listed twice
    sites = dedup(sites, ("file", "fn", "callee", "arg", "line"))
    sites.sort(key=lambda s: (s["file"], s["line"], s["arg"], s["callee"], s["fn"]))
    defmap = {}
    for d in defs:
        defmap.setdefault(d["name"], []).append(d)

    def scope_of(fname, ffile):
        ds = [d for d in defmap.get(fname, []) if d["file"] == ffile] or defmap.get(fname, [])
        if ds and all(d["static"] for d in ds):
            return sorted(set(d["tu"] for d in ds))
        return None

    needed = {}
    order = []

    def need(fname, ffile, k, depth):
        sc = scope_of(fname, ffile)
        key = (fname, k, tuple(sc) if sc is not None else None)
        if key not in needed:
            needed[key] = (ffile, depth)
            order.append(key)

    for s in sites:
        if s["origin"][0] == "param":
            need(s["fn"], s["file"], s["origin"][1], 0)
    rows = []
    i = 0
    while i < len(order):
        fname, k, scope = order[i]
        ffile, depth = needed[order[i]]
        i += 1
        if depth >= MAX_CALL_DEPTH:
            rows.append(dict(file=ffile, caller="<depth-limit>", callee=fname, arg=k, line=0,
                             origin=["other", "caller chain deeper than %d" % MAX_CALL_DEPTH]))
            continue
        for c in calls:
            if c["callee"] != fname or (scope is not None and c["tu"] not in scope):
                continue
            o = c["origins"][k] if k < len(c["origins"]) else ["other", "argument %d missing" % k]
            rows.append(dict(file=c["file"], caller=c["caller"], callee=fname, arg=k, line=c["line"], origin=o))
            if o[0] == "param":
                need(c["caller"], c["file"], o[1], depth + 1)
        for a in addr:
            if a["callee"] == fname and (scope is None or a["tu"] in scope):
                rows.append(dict(file=a["file"], caller=a["caller"], callee=fname, arg=k, line=a["line"],
                                 origin=["other", "address of %s taken" % fname]))
    nonstatic = sorted(set(f for (f, k, sc) in order if sc is None))
    for h in grep_unscanned(repo, nonstatic, scanned):
        for (f, k, sc) in order:
            if f == h["callee"] and sc is None:
                rows.append(dict(file=h["file"], caller="?", callee=f, arg=k, line=h["line"],
                                 origin=["other", "unscanned caller %s:%d" % (h["file"], h["line"])]))
    rows = dedup(rows, ("file", "caller", "callee", "arg", "line"))
    rows.sort(key=lambda c: (c["file"], c["line"], c["callee"], c["arg"], c["caller"]))
    # ---- efun surface: which efun implementations (f_* in lib/efuns) reach a file-system call site? ------
    # name-based call graph over all scanned functions (direct calls and address-taken references)
    graph = {}
    for c in calls + addr:
        graph.setdefault(c["caller"], set()).add(c["callee"])
    med_fns = set(x["fn"] for x in sites if x["file"].startswith("lib/efuns/") or x["file"] == "lib/lpc/object.c")
    ldr_fns = set(x["fn"] for x in sites) - med_fns

    # two functions are CUT nodes, each covered on its own: `load_object` (compiler layer: names pass legal_path,
    # no master consultation; exercised by the ld/inc/inh commands) and `save_ed_buffer` (writes the editor
    # buffer of a net-dead user to the file the MASTER names; allow-listed in NV/C15/Sites.lean)
    CUT = ("load_object", "save_ed_buffer")

    def reaches(start, targets, cut=()):
        seen, todo = set(), [start]
        while todo:
            f = todo.pop()
            if f in seen or (f in cut and f != start):
                continue
            seen.add(f)
            if f in targets:
                return True
            todo += list(graph.get(f, ()))
        return False

    efun_fns = sorted(set(d["name"] for d in defs if d["name"].startswith("f_") and d["file"].startswith("lib/efuns/")))
    fs_efuns = [f for f in efun_fns if reaches(f, med_fns, CUT)]
    loader_efuns = [f for f in efun_fns if f not in fs_efuns and (reaches(f, {"load_object"}) or reaches(f, ldr_fns, CUT))]
    # through which apply function does check_valid_path () consult the master?  (apply_master_ob propagates an
    # error raised by valid_read / valid_write; the safe_* variants swallow it and return 0 = "not defined")
    med_applies = sorted(set(c["callee"] for c in calls if c["caller"] == "check_valid_path" and "apply" in c["callee"]))
    if not any(d["name"] == "check_valid_path" for d in defs):
        raise SitesError("check_valid_path", "function check_valid_path not found in the scanned files")
    return dict(scanned=sorted(scanned), notScanned=not_scanned, fsCallees=sorted(FS_CALLEES),
                sites=sites, calls=rows, fsEfuns=fs_efuns, loaderEfuns=loader_efuns, mediationApplies=med_applies,
                cvpCalls=sorted(set((c["file"], c["fn"], c["op"], c["flag"]) for c in cvp_calls)),
                literals=sorted(set((l["fn"], tuple(l["lits"])) for l in lit_rows)),
                extCallees=sorted(ext_callees - set(FS_CALLEES) - set(FILLS) - set(PASSTHROUGH)),
                globalStores=sorted(set((x["file"], x["fn"], x["glob"], x["rhs"], x["kind"]) for x in gstores)),
                staticBufs=sorted(set((x["file"], x["fn"], x["name"], x["type"]) for x in statics
                                      if x["file"] in STATIC_FILES)))


def dedup(rows, keys):
    seen, out = set(), []
    for r in rows:
        k = tuple(r[x] for x in keys) + (json.dumps(r["origin"]),)
        if k not in seen:
            seen.add(k)
            out.append(r)
    return out


# ---------------------------------------------------------------------------- Lean output

def lstr(s):
    out = []
    for ch in str(s):
        if ch == "\\":
            out.append("\\\\")
        elif ch == '"':
            out.append('\\"')
        elif ch in "\n\r\t":
            out.append(" ")
        elif ord(ch) < 32 or ord(ch) == 127:
            out.append("?")
        else:
            out.append(ch)
    return '"' + "".join(out) + '"'


def lorigin(o):
    if o[0] == "param":
        return ".param %d" % o[1]
    if o[0] == "derived":
        return ".derived %s [%s]" % (lstr(o[1]), ", ".join(lstr(b) for b in o[2]))
    if o[0] in ("mediated", "config", "other"):
        return ".%s %s" % (o[0], lstr(o[1]))
    raise SitesError(str(o), "internal: unknown origin")


def llist(name, ty, items, doc=None):
    head = ("/-- %s -/\n" % doc if doc else "") + "def %s : List %s := " % (name, ty)
    if not items:
        return head + "[]\n"
    return head + "[\n" + ",\n".join("  " + x for x in items) + "\n]\n"


PRELUDE = """inductive Origin where
  | mediated (via : String)
  | derived (via : String) (bases : List String)
  | param (k : Nat)
  | config (what : String)
  | other (why : String)
deriving DecidableEq, Repr

structure Site where
  file : String
  fn : String
  callee : String
  arg : Nat
  line : Nat
  origin : Origin
  root : String        -- `other` origins: the root expression of the flow (allow-list key); "" otherwise
deriving DecidableEq, Repr

structure Call where
  file : String
  caller : String
  callee : String
  arg : Nat
  line : Nat
  origin : Origin
  root : String
deriving DecidableEq, Repr

"""


def render(res):
    out = [PRELUDE]
    out.append(llist("scanned", "String", [lstr(x) for x in res["scanned"]], "files scanned (repo-relative)"))
    out.append(llist("notScanned", "String", [lstr(x) for x in res["notScanned"]],
                     "lib/efuns sources not part of the build on this platform (not scanned)"))
    out.append(llist("fsCallees", "String", [lstr(x) for x in res["fsCallees"]],
                     "names of the libc functions searched for"))
    out.append(llist("sites", "Site", [
        "{ file := %s, fn := %s, callee := %s, arg := %d, line := %d, origin := %s, root := %s }" % (
            lstr(s["file"]), lstr(s["fn"]), lstr(s["callee"]), s["arg"], s["line"], lorigin(s["origin"]),
            lstr(origin_root(s["origin"])))
        for s in res["sites"]]))
    out.append(llist("calls", "Call", [
        "{ file := %s, caller := %s, callee := %s, arg := %d, line := %d, origin := %s, root := %s }" % (
            lstr(c["file"]), lstr(c["caller"]), lstr(c["callee"]), c["arg"], c["line"], lorigin(c["origin"]),
            lstr(origin_root(c["origin"])))
        for c in res["calls"]]))
    out.append(llist("fsEfuns", "String", [lstr(x) for x in res.get("fsEfuns", [])],
                     "efun implementations (f_* in lib/efuns) from which a file-system call site of lib/efuns or "
                     "lib/lpc/object.c is reachable in the call graph of the scanned files"))
    out.append(llist("mediationApplies", "String", [lstr(x) for x in res.get("mediationApplies", [])],
                     "the apply functions check_valid_path () calls to consult the master"))
    out.append(llist("cvpCalls", "(String × String × String × String)",
                     ["(%s, %s, %s, %s)" % tuple(lstr(x) for x in c) for c in res.get("cvpCalls", [])],
                     "every call of check_valid_path: (file, calling function, operation-name argument, write-flag argument)"))
    out.append(llist("literals", "(String × List String)",
                     ["(%s, [%s])" % (lstr(f), ", ".join(lstr(x) for x in ls)) for (f, ls) in res.get("literals", [])],
                     "character (c<code>) and string (s<text>) literals of legal_path / strip_name in source order"))
    out.append(llist("extCallees", "String", [lstr(x) for x in res.get("extCallees", [])],
                     "functions declared outside the repository (libc, builtins) that take a character pointer (or are "
                     "variadic) and are called from the scanned files, other than the file-system callees searched "
                     "for, the buffer-filling functions and the strchr family the translator interprets"))
    out.append(llist("globalStores", "(String × String × String × String × String)",
                     ["(%s, %s, %s, %s, %s)" % tuple(lstr(x) for x in b) for b in res.get("globalStores", [])],
                     "every store `G[..] = X` into a global path table (inc_list): (file, function, global, X, kind) with "
                     "kind = null | guarded (copy of a local guarded by a preceding legal_path) | other"))
    out.append(llist("staticBufs", "(String × String × String × String)",
                     ["(%s, %s, %s, %s)" % tuple(lstr(x) for x in b) for b in res.get("staticBufs", [])],
                     "character arrays with static storage duration in the files of the file efuns, the editor, the "
                     "saved-binary code and the lexer: (file, function or empty = file scope, name, type)"))
    out.append(llist("loaderEfuns", "String", [lstr(x) for x in res.get("loaderEfuns", [])],
                     "efun implementations that reach the file system only through load_object / #include / "
                     "saved binaries"))
    return "".join(out)


def generate(repo, bdir, include_flags, overrides=None):
    """Lean 4 text (no namespace, no imports) of the C15 site/call tables"""
    return render(analyze(repo, bdir, include_flags, overrides))


def main(argv=None):
    ap = argparse.ArgumentParser(description=__doc__.split("\n")[0])
    ap.add_argument("--repo", required=True)
    ap.add_argument("--bdir", required=True)
    ap.add_argument("--json", action="store_true", help="print the raw rows as JSON")
    ap.add_argument("--override", action="append", default=[], metavar="REL=ABS",
                    help="parse ABS in place of repo file REL (mutation tests)")
    a = ap.parse_args(argv)
    repo = os.path.abspath(a.repo)
    os.environ["NV_REPO"] = repo
    verif_root = os.path.dirname(os.path.dirname(os.path.abspath(__file__)))
    sys.path.insert(0, verif_root)
    from nvlib import engine as E
    if os.path.abspath(E.REPO) != repo:
        E.REPO = repo
    flags = E.include_flags(os.path.abspath(a.bdir))
    ov = {}
    for o in a.override:
        if "=" not in o:
            raise SitesError(o, "--override wants REL=ABS")
        k, v = o.split("=", 1)
        ov[k] = os.path.abspath(v)
    res = analyze(repo, os.path.abspath(a.bdir), flags, ov)
    if a.json:
        json.dump(res, sys.stdout, indent=1, sort_keys=True)
        sys.stdout.write("\n")
    else:
        sys.stdout.write(render(res))
    return 0


if __name__ == "__main__":
    sys.exit(main())
