#!/usr/bin/env python3
"""fold known/*.jsonl (written by property builders) into KNOWN_FINDINGS.jsonl:
   open findings  -> one JSON line (matched by signature; replayed on every run)
   fixed findings -> a line `fixed: property=<id> <commit in /repo> <what failed>` (suppresses nothing) and the witness
                     input is kept as corpus/<id>/fixed-<finding id>.case so the check reports it if it ever returns"""
import json
import os
import subprocess
import sys

HERE = os.path.dirname(os.path.dirname(os.path.abspath(__file__)))
os.chdir(HERE)
kf = "KNOWN_FINDINGS.jsonl"
have = open(kf).read() if os.path.exists(kf) else ""
subjects = {}
for line in subprocess.run(["git", "-C", "/repo", "log", "--format=%h\t%s"], capture_output=True, text=True).stdout.splitlines():
    h, s = line.split("\t", 1)
    subjects[s] = h


def repo_hash(agent_hash):
    # map a commit of a builder's worktree to the cherry-picked commit in /repo by subject
    r = subprocess.run(["git", "-C", "/repo", "log", "-1", "--format=%s", agent_hash], capture_output=True, text=True)
    subj = r.stdout.strip()
    return subjects.get(subj, agent_hash)


out = []
for fn in sorted(os.listdir("known")) if os.path.isdir("known") else []:
    if not fn.endswith(".jsonl"):
        continue
    for line in open(os.path.join("known", fn)):
        line = line.strip()
        if not line or not line.startswith("{"):
            continue
        d = json.loads(line)
        fid = d.get("id") or d["signature"]
        if d.get("status") == "fixed":
            h = repo_hash(d.get("commit", "?"))
            text = "fixed: property=%s %s %s" % (d["property"], h, d["what"].replace("\n", " "))
            if ("fixed: property=%s %s" % (d["property"], h)) not in have:
                out.append(text)
            if d.get("input"):
                cd = os.path.join("corpus", d["property"])
                os.makedirs(cd, exist_ok=True)
                p = os.path.join(cd, "fixed-%s.case" % fid.replace("/", "_"))
                if not os.path.exists(p):
                    open(p, "w").write("\n".join(d["input"]) + "\n")
        else:
            if ('"id": "%s"' % fid) not in have:
                out.append(json.dumps(d))
            else:
                # same id already recorded: the builder's newer record (signature / input) replaces it
                lines = open(kf).read().splitlines()
                lines = [json.dumps(d) if (l.startswith("{") and ('"id": "%s"' % fid) in l) else l for l in lines]
                open(kf, "w").write("\n".join(lines) + "\n")
                have = open(kf).read()
    os.unlink(os.path.join("known", fn))
with open(kf, "a") as f:
    for l in out:
        f.write(l + "\n")
print("added %d lines" % len(out))
