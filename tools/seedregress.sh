#!/bin/sh
# tools/seedregress.sh <out-file> <seed-id>... : regression of the detection: for every seeded change apply patch.diff to a
# scratch worktree of /repo HEAD (git apply, else patch -p1 -F3), run the property's quick check of THIS /verif tree (or clone)
# against it and record exit code + verdict.  Scratch worktrees and their build trees are removed afterwards.
V="$(cd "$(dirname "$0")/.." && pwd)"
out="$1"; shift
for s in "$@"; do
  d="$V/seeded/$s"
  [ -f "$d/patch.diff" ] || { echo "$s NO-PATCH" >> "$out"; continue; }
  prop=$(python3 -c "import json;print(json.load(open('$d/meta.json'))['property'])")
  wt=/tmp/seedregress-$$-$s
  git -C /repo worktree add -q --detach "$wt" HEAD || { echo "$s WORKTREE-FAILED" >> "$out"; continue; }
  how=apply
  if ! git -C "$wt" apply "$d/patch.diff" 2>/dev/null; then
    how=fuzz
    if ! (cd "$wt" && patch -p1 -F3 -s < "$d/patch.diff" > /dev/null 2>&1); then
      echo "$s PATCH-DOES-NOT-APPLY (code changed by an accepted fix)" >> "$out"
      git -C /repo worktree remove --force "$wt" 2>/dev/null; rm -rf "$wt"; continue
    fi
    find "$wt" -name '*.orig' -o -name '*.rej' | xargs rm -f
  fi
  (cd "$V" && NV_EVIDENCE_DIR="$wt/_evidence" NV_REPO="$wt" ./check "$prop" --tier quick > "$wt/check.log" 2>&1); rc=$?
  echo "$s $how exit=$rc $(grep -m1 '^VIOLATION' "$wt/check.log" | sed 's/replay=[^ ]*//') | $(grep -A1 -m1 '^VIOLATION' "$wt/check.log" | tail -1 | cut -c1-120)" >> "$out"
  key=$(python3 -c "import hashlib,os;print(hashlib.sha1(os.path.realpath('$wt').encode()).hexdigest()[:10])")
  rm -rf "$V"/.work/build-*-$key "$V"/.work/harness-$key "$V"/.work/*-$key 2>/dev/null
  git -C /repo worktree remove --force "$wt" 2>/dev/null; rm -rf "$wt"
done
# the runs regenerated lean/NV/Gen from patched trees: put the committed ones back
git -C "$V" checkout -- lean/NV/Gen evidence 2>/dev/null
