#!/usr/bin/env python3
"""regenerate MANIFEST.json from the property plugins (props/cNN.py) and tools/unclaimed.json"""
import importlib
import json
import os
import sys

HERE = os.path.dirname(os.path.dirname(os.path.abspath(__file__)))
sys.path.insert(0, HERE)
os.chdir(HERE)

props = {}
for line in open("properties.jsonl"):
    d = json.loads(line)
    props[d["id"]] = d

checks = []
claimed = set()
for fn in sorted(os.listdir("props")):
    import re as _re
    if not _re.match(r"c\d+\.py$", fn):
        continue
    p = importlib.import_module("props." + fn[:-3]).PROP
    if not getattr(p, "claimed", True):
        continue
    claimed.add(p.id)
    checks.append({
        "property_id": p.id,
        "quick_cmd": "./check %s --tier quick" % p.id,
        "thorough_cmd": "./check %s --tier thorough" % p.id,
        "evidence_file": "/verif/evidence/%s.json" % p.id,
        "replay_cmd_template": "./check %s --replay {path}" % p.id,
        "engine": "lean4-proof+correspondence",
        "level_claimed": {"category": "proof", "text": p.level_text, "design_ref": "DESIGN.md " + p.design_ref},
        "level_note": p.level_note,
        "technique": p.technique,
    })

unclaimed = json.load(open("tools/unclaimed.json"))
na = [{"property_id": k, "reason": unclaimed.get(k, "no check built yet for this property in the Lean-proof framework")}
      for k in sorted(props) if k not in claimed]

m = {
    "version": 1,
    "setup_cmd": "./check --setup",
    "hooks": {
        "guard": "NEOLITH_VERIF",
        "enable": "checks build /repo's working tree with cmake -DCMAKE_C_FLAGS='... -DNEOLITH_VERIF' into /verif/.work (ASan+UBSan)",
        "baseline_off_cmd": "cmake -G Ninja -S /repo -B /repo/_build && cmake --build /repo/_build && ctest --test-dir /repo/_build -j8 --timeout 900",
        "source_commits": json.load(open("tools/hook_commits.json")),
        "add_only": True,
    },
    "engines": [{"name": "lean4-proof+correspondence", "path": "/verif/check",
                 "serves_properties": sorted(claimed),
                 "kind_free_text": "Lean 4 theorems about hand-written executable models (lean/NV), tied to /repo on every run by a translator (nvlib/extract.py -> lean/NV/Gen) and a correspondence check (harness/ built from the working tree vs the compiled model driver nvdrive); the Lean specification oracle judges implementation traces to find failing inputs"}],
    "checks": checks,
    "notes": "see DESIGN.md; known findings in KNOWN_FINDINGS.jsonl",
    "not_applicable": na,
}
json.dump(m, open("MANIFEST.json", "w"), indent=1)
print("claimed:", sorted(claimed))
