#!/usr/bin/env python3
"""regenerate the per-property status table of DESIGN.md (between the STATUS markers) from the plugins,
KNOWN_FINDINGS.jsonl and seeded/*/meta.json"""
import glob, importlib, json, os, re, sys
HERE = os.path.dirname(os.path.dirname(os.path.abspath(__file__)))
sys.path.insert(0, HERE); os.chdir(HERE)
fixed, openf = {}, {}
for l in open('KNOWN_FINDINGS.jsonl'):
    m = re.match(r'fixed: property=(\S+) (\S+) (.*)', l)
    if m:
        fixed.setdefault(m.group(1), []).append((m.group(2), m.group(3)))
    elif l.startswith('{'):
        d = json.loads(l); openf.setdefault(d['property'], []).append(d)
seeds = {}
for f in sorted(glob.glob('seeded/*/meta.json')):
    d = json.load(open(f)); sid = os.path.basename(os.path.dirname(f))
    seeds.setdefault(d['property'], []).append((sid, d.get('confirmed_by_integrator', {}).get('check_result', '?'), d.get('summary', '')))
rows = []
detail = []
for fn in sorted(os.listdir('props')):
    if not re.match(r'c\d+\.py$', fn): continue
    p = importlib.import_module('props.' + fn[:-3]).PROP
    loc = sum(len(open(f).read().splitlines()) for f in glob.glob('lean/NV/%s/*.lean' % p.id))
    top = 'yes' if any(t.endswith('model_satisfies_spec') for t in p.theorems) else 'clauses'
    sd = ', '.join('%s:%s' % (s, r) for s, r, _ in seeds.get(p.id, [])) or '-'
    rows.append('| %s | %d | %d | %s | %d | %d | %d | %s |' % (p.id, len(p.theorems), len(p.witness_theorems), top, loc,
                len(fixed.get(p.id, [])), len(openf.get(p.id, [])), sd))
    detail.append('\n**%s** — %s\n' % (p.id, p.title))
    detail.append('- theorems (%d): %s' % (len(p.theorems), ', '.join('`%s`' % t.split('.')[-1] for t in p.theorems)))
    if p.witness_theorems:
        detail.append('- witnesses of falsified full statements (%d): %s' % (len(p.witness_theorems), ', '.join('`%s`' % t.split('.')[-1] for t in p.witness_theorems)))
    if getattr(p, 'not_covered', None):
        detail.append('- not covered: ' + '; '.join(p.not_covered))
    for h, w in fixed.get(p.id, []):
        detail.append('- fixed `%s`: %s' % (h, w[:220]))
    for d in openf.get(p.id, []):
        detail.append('- OPEN `%s`: %s' % (d.get('id'), d['what'][:260]))
    for s, r, summ in seeds.get(p.id, []):
        detail.append('- seeded change `%s` (%s): %s' % (s, r, summ[:220]))
    detail.append('- details: `notes/%s.md`' % p.id)
seedrows = ['', '### 0.3 Independently written breaking changes (seeded/) and which check catches them', '',
            'Each change was written by a fresh sub-agent that saw only the property text and a scratch worktree, compiles, passes the',
            '188-test suite and comes with a demonstration that fails with it and passes without it; all of that was re-confirmed by',
            '`tools/seedtest.sh` in a scratch worktree before the property check was run against it (`NV_REPO=<scratch> ./check Cxx`).',
            '"missed at first run" entries led to the strengthening described in section 0.2 / notes/Cxx.md and were re-tested.', '',
            '| id | property | what the change does | what it needs to manifest | result of `./check` |', '|---|---|---|---|---|']
for f in sorted(glob.glob('seeded/*/meta.json')):
    d = json.load(open(f)); sid = os.path.basename(os.path.dirname(f))
    c = d.get('confirmed_by_integrator', {})
    out = '; '.join(x.strip() for x in c.get('check_output', [])[1:3])[:160]
    seedrows.append('| %s | %s | %s | %s | **%s** %s |' % (sid, d.get('property'), d.get('summary', '')[:260].replace('|', '/').replace('\n', ' '),
                    d.get('needs', '')[:260].replace('|', '/').replace('\n', ' '), c.get('check_result', '?'), out.replace('|', '/')))
# per-round summary of the seeded changes (the number after the dash is the order of writing per property;
# -1..-3: sessions 1-2, -4 and later: session 3, each round written against the checks as strengthened so far)
rounds = {}
for f in sorted(glob.glob('seeded/*/meta.json')):
    d = json.load(open(f)); sid = os.path.basename(os.path.dirname(f))
    n = int(sid.split('-')[1]); r = d.get('confirmed_by_integrator', {}).get('check_result', '?')
    k = 'caught at first run' if r == 'caught' else ('tie/obligation broke, no failing input at first run' if 'no-failing-input-found' in r else ('missed at first run' if 'missed' in r else r))
    rounds.setdefault(n, {}).setdefault(k, []).append(sid)
seedrows += ['', 'Summary by order of writing.  The final regression (`tools/seedregress.sh`, every patch applied to /repo HEAD, quick tier) ends in',
             '`VIOLATION ... replay=` for every change whose patch still applies; patches that an accepted `fix:` commit made inapplicable were',
             'ported by hand by the builders (see `final_regression` in each `seeded/<id>/meta.json`).  The columns say what happened when a',
             'change was FIRST run against the checks as they were then:', '',
             '| n-th change per property | caught at first run | tie/obligation broke, no failing input at first run | missed at first run |', '|---|---|---|---|']
for n in sorted(rounds):
    g = rounds[n]
    seedrows.append('| %d | %d | %d | %d |' % (n, len(g.get('caught at first run', [])), len(g.get('tie/obligation broke, no failing input at first run', [])), len(g.get('missed at first run', []))))
import subprocess
hookrows = ['', '### 0.4 Hooks as built (guard `NEOLITH_VERIF`; every commit only adds guarded code; with the guard off the 188-test suite passes)', '',
            '| commit in /repo | what it adds |', '|---|---|']
for h in json.load(open('tools/hook_commits.json')):
    subj = subprocess.run(['git', '-C', '/repo', 'log', '-1', '--format=%s', h], capture_output=True, text=True).stdout.strip()
    hookrows.append('| `%s` | %s |' % (h, subj.replace('verif hook: ', '')))
hookrows.append('')
hookrows.append('libc functions (`time`, `send`, `recv`, `read`, `write`, `open`..., `epoll_ctl`, `pthread_create`, `nanosleep`) are interposed inside the harness executables; that needs no source change.')
nfix = subprocess.run('git -C /repo log --format=%s | grep -c "^fix:"', shell=True, capture_output=True, text=True).stdout.strip()
hookrows.append('')
hookrows.append('/repo also carries %s unguarded `fix:` commits, one per repaired defect (listed per property above and in KNOWN_FINDINGS.jsonl).' % nfix)
txt = ['<!-- STATUS-BEGIN (generated by tools/mkstatus.py) -->',
       '| property | theorems | witnesses | top theorem `judge(model trace)=[]` | Lean lines | defects fixed in /repo | open known findings | seeded changes |',
       '|---|---|---|---|---|---|---|---|'] + rows + [''] + detail + seedrows + hookrows + ['', '<!-- STATUS-END -->']
s = open('DESIGN.md').read()
if '<!-- STATUS-BEGIN' in s:
    s = re.sub(r'<!-- STATUS-BEGIN.*?<!-- STATUS-END -->', lambda m: '\n'.join(txt), s, flags=re.S)
else:
    s = s.replace('Contents\n', '### 0.1 Per-property status\n\n' + '\n'.join(txt) + '\n\nContents\n', 1)
open('DESIGN.md', 'w').write(s)
print('\n'.join(rows))
