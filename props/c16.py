"""C16 - saved values restore to equal values; saves are atomic; restore is robust."""
import os
import re
import shutil
import struct

from nvlib import engine as E
from nvlib.check import Prop
from nvlib import extract as X

I64MIN, I64MAX = -2 ** 63, 2 ** 63 - 1
INTS = [0, 1, -1, 9, 10, -10, 99, 100, 2 ** 31 - 1, 2 ** 31, -2 ** 31, -2 ** 31 - 1, 2 ** 32, 2 ** 40, -2 ** 40,
        10 ** 18, -10 ** 18, I64MAX, I64MAX - 1, I64MIN, I64MIN + 1, 1234567890123, 999999999999999999]
FLOATS = [0.0, -0.0, 1.0, -1.0, 1.5, -2.25, 0.1, 100000.0, 999999.0, 1000000.0, 123456.0, 1234567.0, 99999.95,
          999999.5, 1e-5, 1e-4, 0.00012345, 9.9999995e-5, 1e-300, 2.2250738585072014e-308, 5e-324, 1e-310, 2.2250738585072009e-308, 3e-320,
          float('inf'), float('nan'),
          1.7976931348623157e308, 1e20, 1e21, 1e22, 3.141592653589793, 2.5e-7, 1e15, 123456789.0, 0.5, 42.0,
          1e100, -1e-100, 65536.0, 0.333333333333, 7.0e10, 100.0, 10.0, 12345.678]
ESC_BYTES = [0x22, 0x5c, 0x0a, 0x0d, 0x09, 0xff, 0x80, 0xe4, 0x20, 0x2c, 0x3a, 0x28, 0x29, 0x7b, 0x7d, 0x5b, 0x5d, 0x2f, 0x23, 0x01, 0x7f, 0x30,
             0x2d, 0x2e, 0x65]
UTF8_OK = ["e4b8ad", "c3a9", "e69687", "ceb1", "e282ac"]


def fbits(x):
    return "%016x" % struct.unpack("<Q", struct.pack("<d", x))[0]


# ---- values as python trees: ("i", n) ("f", bits) ("s", bytes) ("a", [..]) ("c", [..]) ("m", [(k, v)..]) ("o",)
def vtxt(v):
    t = v[0]
    if t == "i":
        return "i%d" % v[1]
    if t == "f":
        return "f" + v[1]
    if t == "s":
        return "s" + bytes(v[1]).hex()
    if t == "o":
        return "o"
    if t == "a":
        return "a[" + ",".join(vtxt(x) for x in v[1]) + "]"
    if t == "c":
        return "c(" + ",".join(vtxt(x) for x in v[1]) + ")"
    return "m{" + ",".join(vtxt(k) + ":" + vtxt(x) for k, x in v[1]) + "}"


def g6(bits):
    x = struct.unpack("<d", struct.pack("<Q", int(bits, 16)))[0]
    if x != x:
        return "0e+999"
    if x in (float("inf"), float("-inf")):
        return "1e+999" if x > 0 else "-1e+999"
    s = "%g" % x
    if all(ch in "-0123456789" for ch in s):
        s += ".0"
    return s


def save_text(v):
    """python mirror of the save format, only used to manufacture texts for the malformed stream"""
    t = v[0]
    if t == "i":
        return b"%d" % v[1]
    if t == "f":
        return g6(v[1]).encode()
    if t == "s":
        out = bytearray(b'"')
        for c in v[1]:
            if c in (0x22, 0x5c, 0x0d):
                out += bytes([0x5c, c])
            elif c == 0x0a:
                out.append(0x0d)
            else:
                out.append(c)
        return bytes(out + b'"')
    if t == "o":
        return b""
    if t == "a":
        return b"({" + b"".join(save_text(x) + b"," for x in v[1]) + b"})"
    if t == "c":
        return b"(/" + b"".join(save_text(x) + b"," for x in v[1]) + b"/)"
    return b"([" + b"".join(save_text(k) + b":" + save_text(x) + b"," for k, x in v[1]) + b"])"


class C16(Prop):
    id = "C16"
    title = "saved values restore to equal values; saves are atomic; restore is robust"
    lean_modules = ["NV.C16.Props", "NV.C16.Witness", "NV.C16.SpecTests"]
    theorems = ["NV.C16.Props." + t for t in (
        "size_bounds_output", "saveVariable_no_crash", "saveObject_no_crash", "restore_total", "restoreObject_total",
        "roundtrip", "safe_restore_keeps_old_on_error", "restoreObject_error_keeps_variable", "save_atomic",
        "save_complete", "save_atomic_failure", "statics_and_objects_not_persisted",
        "saveObject_writes_each_nonstatic_variable_its_own_value", "saveLines_spec", "saveLines_sub", "findGlobal_flat",
        "cns_flat", "restoreObjectT_flat", "object_roundtrip", "object_roundtrip_noclear", "size_overheads_suffice",
        "saveEscaped_sub_sizeEscaped", "restore_swap_inverts_save", "restore_swap_sites_agree",
        "save_escapes_quote_backslash_cr", "tmpName_ne_file", "save_failure_leaves_no_tmp", "save_success_leaves_no_tmp",
        "restore_nesting_bounded", "nesting_test_only_refuses", "saveObject_leaves_no_tmp", "saveObject_error_touches_nothing",
        "saveObject_error_iff_too_deep", "tmpName_eq", "tmpName_never_a_save_file", "mapping_insert_spec",
        "restore_mapping_all_found", "restore_mapping_all_found_alloc", "hash_sites_as_modelled", "error_messages_as_in_source",
        "save_structure_bytes_as_in_source", "save_atomic_partial", "elem_dispatch_spec", "key_dispatch_spec",
        "value_dispatch_spec", "svalue_dispatch_spec", "restore_dispatch_as_in_source",
        "nesting_and_dry_run_sites_as_modelled", "roundtrip_float_keys", "keys_distinct_with_float_keys",
        "restore_ignores_stale_state", "save_ignores_stale_state", "reset_sites_as_modelled",
        "restore_into_another_program_version", "size_table_capacity_ok", "table_sites_as_modelled", "saveVariableEfun_ok")]
    witness_theorems = ["NV.C16.Witness." + t for t in (
        "float_keys_collapse", "roundtripFloatKeys_Full_false", "cr_round_trips", "stray_byte_in_array_ok",
        "inf_is_written_as_number", "same_name_saved", "same_name_variables", "old_mask_loses_the_key",
        "stale_counter_without_reset", "stale_table_gives_wrong_value", "stale_counter_refuses_save", "zero_capacity_with_a_table_never_ends")]
    consts = [("maxSaveSvalueDepth", "MAX_SAVE_SVALUE_DEPTH"), ("nameStatic", "NAME_STATIC"),
              ("saveExtLen", "sizeof(SAVE_EXTENSION) - 1"), ("saveExt0", "SAVE_EXTENSION[0]"), ("saveExt1", "SAVE_EXTENSION[1]"),
              ("ushrtMax", "(unsigned short)-1"), ("fillPercent", "FILL_PERCENT"), ("maxTableSize", "MAX_TABLE_SIZE"), ("mapHashTableSize", "MAP_HASH_TABLE_SIZE")]
    const_headers = ["lib/efuns/options.h", "lib/lpc/program.h", "lib/lpc/mapping.h"]
    quick_n = 1200
    thorough_n = 20000
    search_n = 1500
    design_ref = "5/C16"
    technique = ("Lean 4 proof (structural induction over values, over all byte strings, over all key sequences and hash "
                 "functions; refinement preD -> pre) + translator-generated constants, escape sets, message tables, structure "
                 "bytes and source-statement comparisons + model/implementation correspondence under ASan/UBSan + crash-point "
                 "and failure enumeration + lookup of every entry of every printed mapping")
    level_text = ("Lean 4 theorems about an executable model of save_svalue / svalue_save_size / restore_size / "
                  "restore_internal_size (incl. its nesting limit and the size table with its capacity loops) / restore_array / "
                  "restore_class / restore_mapping (incl. the hash table: bucket choice, growMap in the middle of a restore, "
                  "lookup) / restore_string / parse_numeric / restore_svalue / safe_restore_svalue (incl. the file-scope state "
                  "an LPC error leaves behind: every entry point proved independent of it) and of the line format, the dry run "
                  "and the call script of save_object / restore_object over the real program trees, incl. restore into ANOTHER "
                  "program version (any two variable tables), for all values, ALL byte strings, all crash points (also inside a "
                  "call), every hash function; floats and mblen are parameters with stated contracts; the model is tied to the "
                  "source by regenerated constants / tables / statement comparisons (comment- and layout-insensitive, each "
                  "naming its site) / the nm inventory of file-scope variables, with bridging lemmas, and by running the real "
                  "efuns and the model on the same generated values, truncated / mutated / endlessly nested texts, poisoned "
                  "shared state, crash points, file-size limits inside stdio blocks and real rename failures (traces "
                  "identical); the Lean oracle judges every implementation trace, incl. that every entry of a restored mapping "
                  "is found through its key and that a restore into another program matches by name")
    level_note = ("trusted: Lean kernel; extract.py; the correspondence harness (differential: only generated cases; "
                  "stdio-level interposition, rename() atomic by assumption, a crash inside a call is a theorem only); FloatOps / "
                  "MbLen contracts are hypotheses (validated on generated floats / UTF-8 by the run); hash-table ORDER of a saved "
                  "mapping is an arbitrary list order in the round-trip model (the bucket logic itself is modelled separately in "
                  "Hash.lean, starting from a power-of-two table); the mapping size limit and the heap are not modelled")
    rule = ("cases = corpus + known-finding inputs + boundary list (int64 extremes, every byte 1..255 in strings at top "
            "level / in arrays / as mapping key, escapes, integral / tiny / huge floats, empty containers, classes, "
            "nesting 24..26 on the save side and 25 / 26 / 27 / 300 / 150000 levels on the restore side, mappings whose table "
            "grows during the restore, hand-made damaged texts, object files, a too deep value in every variable position, "
            "crash points) + seeded random cases of six kinds: "
            "round trips of random nested values; valid save texts mutated 1-3 times (truncate / replace / delete / "
            "insert / duplicate / swap, biased to the format's special bytes); every prefix of a valid text; "
            "save_object / restore_object (both noclear flags) incl. damaged files and too deep values; crash-point and failure "
            "enumeration of save_object; generated inheritance trees (static / plain / private / public inherits, depth <= 3, "
            "shadowed names) on the REAL dumped program trees; 24-variable objects; save files of another program version; file "
            "names incl. 0/1-character names and paths of 200..300 bytes (temporary-file name); mappings of 5..64 pairs with keys "
            "spread over many buckets in hand-chosen file order (growth thresholds of 8/16/32/64 buckets). Every case starts "
            "without a save file. Quantifier coverage measured per run (histogram). "
            "non-trivial = trace has >= 2 lines; distinct = distinct canonical implementation trace")
    not_covered = ["mapping size limit (\"Mapping too large\"), allocate_mapping's size computation and out-of-memory paths of the "
                   "restore are not modelled (the hash-table theorems start from a power-of-two table)",
                   "hash-table layout of a SAVED mapping (the order of entries in the saved text) is abstracted to a list order; "
                   "traces are compared after sorting entries",
                   "inside a stdio block the real driver is observed under file-size limits (partial write then failure / kill), "
                   "not at every byte; rename() is atomic by assumption",
                   "non-UTF-8 multibyte locales (MbLen.cont fails for Big5/GBK/Shift-JIS; the driver always selects UTF-8)",
                   "msameval() identifies a float key with the integer key of the same bit pattern (0.0 / 0): values "
                   "with such key pairs are not generated",
                   "float keys of mappings are in the round-trip theorem (roundtrip_float_keys) only when their saved texts are pairwise "
                   "different and under the stated == contract; keys that print alike collapse (open finding K5); "
                   "two variables of one name at different inheritance levels (open finding K6)"]

    def gen_extra(self, ctx, bdir):
        """constants and the escape set of the save format, read from the source text of object.c"""
        src = open(os.path.join(E.REPO, "lib/lpc/object.c")).read()

        def define(name):
            m = re.search(r"#define\s+%s\s+(\d+)" % name, src)
            if not m:
                raise X.TieBroken("const:" + name, "lib/lpc/object.c no longer defines " + name)
            return m.group(1)

        def section(start, end, site):
            i = src.find(start)
            j = src.find(end, i + 1) if i >= 0 else -1
            if i < 0 or j < 0:
                raise X.TieBroken("site:" + site, "cannot locate %s in lib/lpc/object.c" % site)
            return src[i:j]

        def chars(cond):
            """the character literals compared with c in a condition like  c == '"' || c == '\\' """
            out = []
            for lit in re.findall(r"c\s*==\s*'((?:\\.|[^'\\]))'", cond):
                out.append({"\\\\": 92, "\\r": 13, "\\n": 10, "\\t": 9, "\\0": 0, "\\'": 39, '\\"': 34}.get(lit, ord(lit[-1])))
            return out

        size_str = section("size_t svalue_save_size", "case T_ARRAY", "svalue_save_size/T_STRING")
        m = re.search(r"if\s*\(([^;{]*?)\)\s*/\*[^*]*\*/\s*size\+\+;|if\s*\(([^;{]*?)\)\s*size\+\+;", size_str)
        if not m:
            raise X.TieBroken("site:svalue_save_size/escapes", "escape condition of svalue_save_size not recognised")
        size_esc = chars(m.group(1) or m.group(2))
        save_str = section("void save_svalue", "case T_ARRAY", "save_svalue/T_STRING")
        m = re.search(r"if\s*\(([^;{]*?)\)\s*\{[^}]*\*cp\+\+\s*=\s*'\\\\';", save_str, flags=re.S)
        if not m:
            raise X.TieBroken("site:save_svalue/escapes", "escape condition of save_svalue not recognised")
        save_esc = chars(m.group(1))
        m = re.search(r"\(c\s*==\s*'(\\.|.)'\)\s*\?\s*'(\\.|.)'\s*:\s*c", save_str)
        if not m or not save_esc or not size_esc:
            raise X.TieBroken("site:save_svalue/swap", "LF/CR substitution of save_svalue not recognised")
        tr = {"\\n": 10, "\\r": 13}
        swap_from, swap_to = tr.get(m.group(1), ord(m.group(1)[-1])), tr.get(m.group(2), ord(m.group(2)[-1]))
        # additive constants of svalue_save_size, per case of its switch
        whole = section("size_t svalue_save_size", "void save_svalue", "svalue_save_size")

        def case_body(label, nxt):
            i = whole.find(label)
            j = whole.find(nxt, i + 1) if i >= 0 else -1
            if i < 0 or j < 0:
                raise X.TieBroken("site:svalue_save_size/" + label, "case not found")
            return whole[i:j]

        def const(body, pat, site):
            mm = re.search(pat, body)
            if not mm:
                raise X.TieBroken("site:svalue_save_size/" + site, "return statement not recognised")
            return int(mm.group(1))
        sizes = {
            "sizeStr": const(case_body("case T_STRING", "case T_ARRAY"), r"return\s+(\d+)\s*\+\s*size\s*;", "T_STRING"),
            "sizeArr": const(case_body("case T_ARRAY", "case T_CLASS"), r"return\s+size\s*\+\s*(\d+)\s*;", "T_ARRAY"),
            "sizeCls": const(case_body("case T_CLASS", "case T_MAPPING"), r"return\s+size\s*\+\s*(\d+)\s*;", "T_CLASS"),
            "sizeMap": const(case_body("case T_MAPPING", "case T_NUMBER"), r"return\s+size\s*\+\s*(\d+)\s*;", "T_MAPPING"),
            "sizeInt": const(case_body("case T_NUMBER", "case T_REAL"), r"return\s+len\s*\+\s*(\d+)\s*;", "T_NUMBER"),
            "sizeReal": const(case_body("case T_REAL", "default:"), r"return\s+save_real_text\s*\([^)]*\)\s*\+\s*(\d+)\s*;", "T_REAL"),
            "sizeOther": const(whole[whole.find("default:"):], r"return\s+(\d+)\s*;", "default"),
        }
        # restore side of the LF/CR substitution: six sites in three functions
        mapc = open(os.path.join(E.REPO, "lib/lpc/mapping.c")).read()
        bodies = [section("int restore_string (char *val", "int restore_svalue", "restore_string"),
                  section("static int restore_interior_string", "#define MAX_SAVE_EXPONENT", "restore_interior_string")]
        i = mapc.find("int restore_hash_string (char **val")
        j = mapc.find("svalue_to_int", i)
        if i < 0 or j < 0:
            raise X.TieBroken("site:restore_hash_string", "cannot locate restore_hash_string in lib/lpc/mapping.c")
        bodies.append(mapc[i:j])
        lit = {"\\r": 13, "\\n": 10}
        sites = []
        for b in bodies:
            a1 = re.findall(r"case\s+'(\\.)':\s*\{?\s*\*\(cp - 1\)\s*=\s*'(\\.)';", b)
            a2 = re.findall(r"if\s*\(c == '(\\.)'\)\s*(?:c\s*=\s*)?\*newp\+\+\s*=\s*'(\\.)';", b)
            if len(a1) != 1 or len(a2) != 1:
                raise X.TieBroken("site:restore/swap", "CR/LF substitution sites of the restore functions not recognised")
            sites += [(lit.get(x, -1), lit.get(y, -1)) for x, y in a1 + a2]
        agree = all(t == sites[0] for t in sites)
        mv = re.search(r"char\s+var\[(\d+)\];", section("void restore_object_from_buff", "static int save_object_recurse",
                                                        "restore_object_from_buff"))
        so = section("int save_object (object_t", "char* save_variable", "save_object")
        mt = re.search(r'static char tmp_name\[(\d+)\];', so)
        mf = re.search(r'snprintf \(tmp_name, sizeof\(tmp_name\), "%\.(\d+)s\.tmp", file\);', so)
        if not mv or not mt or not mf:
            raise X.TieBroken("site:buffers", "var[] / tmp_name[] / the .tmp format not recognised")
        rc = open(os.path.join(E.REPO, "lib/rc/rc.cpp")).read()
        m3 = re.search(r'"MaxStringLength",\s*\d+,\s*(\d+)\)', rc)
        if not m3:
            raise X.TieBroken("const:MaxStringLength", "default of MaxStringLength not found in lib/rc/rc.cpp")
        m2 = re.search(r'"MaxArraySize",\s*\d+,\s*(\d+)\)', rc)
        if not m2:
            raise X.TieBroken("const:MaxArraySize", "default of MaxArraySize not found in lib/rc/rc.cpp")
        # hash-table sites of restore_mapping / growMap / the lookup, as modelled in NV/C16/Hash.lean
        rm = section("static int restore_mapping (char **str", "static int restore_class", "restore_mapping")
        maph = open(os.path.join(E.REPO, "lib/lpc/mapping.h")).read()
        # statements are compared after dropping comments and collapsing white space: a reworded comment or a re-indented
        # line is not a change of the code
        ws = lambda t: re.sub(r"\s+", " ", re.sub(r"//[^\n]*", " ", re.sub(r"/\*.*?\*/", " ", t, flags=re.S)))
        rmw, mapw = ws(rm), ws(mapc)
        msh = re.search(r"#define\s+MAP_POINTER_HASH\(x\)\s+\(\(intptr_t\)x >> (\d+)\)", maph)
        hash_sites = {
            "bucket = hash & mask": "oi = (int)MAP_POINTER_HASH (key.u.number); i = oi & mask; if ((elt2 = elt = a[i]))" in rmw,
            "growth branch": ("else if (!(--m->unfilled)) { if (growMap (m)) { a = m->table; if (oi & ++mask) elt2 = a[i |= mask]; "
                              "mask <<= 1; mask--; }") in rmw,
            "link": "(a[i] = elt)->next = elt2;" in rmw,
            "initial mask": "a = m->table; mask = m->table_size;" in rmw,
            "growMap split": "if (node_hash (elt) & oldsize) { *eltp = elt->next; if (!(elt->next = *b)) m->unfilled--; *b = elt; elt = *eltp; }" in mapw,
            "growMap limit": "if (newsize > MAX_TABLE_SIZE) return 0;" in mapw,
            "lookup": "i = svalue_to_int (lv) & m->table_size; for (elt = a[i]; elt; elt = elt->next) { if (msameval (elt->values, lv)) return elt; }" in mapw,
            "hash shift": bool(msh),
        }
        # error messages per ROB_* code (restore_variable has no branch for ROB_CLASS_ERROR: mirrored), and the structure
        # bytes save_svalue writes around / between the elements of the three container kinds
        def messages(body, site):
            ms = re.findall(r'(?:else\s+)?if\s*\(rc & (ROB_\w+)\)\s*error\s*\("((?:[^"\\]|\\.)*)"', body)
            if not ms:
                raise X.TieBroken("site:" + site, "the ROB_* -> error() chain of %s not recognised" % site)
            return [(a, b[:-2] if b.endswith("\\n") else b) for a, b in ms]
        rv_msgs = messages(src[src.find("void restore_variable (svalue_t * var"):src.find("void tell_npc")], "restore_variable")
        fb_msgs = messages(section("void restore_object_from_buff", "static int save_object_recurse", "restore_object_from_buff"),
                           "restore_object_from_buff")
        sv = section("void save_svalue", "static int restore_internal_size", "save_svalue")

        def lits(label, nxt):
            i = sv.find(label)
            j = sv.find(nxt, i + 1) if i >= 0 else -1
            if i < 0 or j < 0:
                raise X.TieBroken("site:save_svalue/" + label, "case not found")
            out = []
            for lit in re.findall(r"\*\(\*buf\)(?:\+\+)?\s*=\s*'((?:\\.|[^'\\]))'", sv[i:j]):
                out.append({"\\0": 0, "\\\\": 92, "\\'": 39}.get(lit, ord(lit[-1])))
            return out
        # the characters the restore functions dispatch on: the `case 'x':` labels of their switch over the next character
        # (restore_mapping has two: key, value) and the characters compared with `*cp` behind a `(`
        def cases_of(start, end, site):
            bd = section(start, end, site)
            parts = bd.split("switch (c = *cp++)")[1:]
            if not parts:
                raise X.TieBroken("site:" + site, "switch over the next character not found")
            esc = {"\\\\": 92, "\\'": 39, "\\r": 13, "\\n": 10, "\\0": 0}
            labels = [[esc.get(x, ord(x[-1])) for x in re.findall(r"case '((?:\\.|[^'\\]))':", q)] for q in parts]
            openers = [esc.get(x, ord(x[-1])) for x in re.findall(r"\*cp(?:\+\+)? == '((?:\\.|[^'\\]))'", bd)]
            return labels, openers
        d_arr = cases_of("static int restore_array (char **str, svalue_t * ret) {", "int restore_string (char *val", "restore_array")
        d_cls = cases_of("static int restore_class (char **str, svalue_t * ret) {", "static int restore_array (char **str, svalue_t * ret) {", "restore_class")
        d_map = cases_of("static int restore_mapping (char **str, svalue_t * sv) {", "static int restore_class (char **str, svalue_t * ret) {", "restore_mapping")
        d_sv = cases_of("int restore_svalue (char *cp, svalue_t * v) {", "int safe_restore_svalue", "restore_svalue")
        d_ssv = cases_of("int safe_restore_svalue (char *cp, svalue_t * v) {", "static int fgv_recurse", "safe_restore_svalue")
        if len(d_map[0]) != 2:
            raise X.TieBroken("site:restore_mapping", "expected two switches (key, value)")
        dispatch = ("/-- `case 'x':` labels of the switch over the next character, in source order, and the characters compared with\n"
                    "    `*cp` behind a `(` -/\n"
                    "def restoreArrayCases : List Nat := %s\ndef restoreClassCases : List Nat := %s\n"
                    "def restoreMappingKeyCases : List Nat := %s\ndef restoreMappingValueCases : List Nat := %s\n"
                    "def restoreSvalueCases : List Nat := %s\ndef safeRestoreSvalueCases : List Nat := %s\n"
                    "def restoreOpeners : List (List Nat) := %s"
                    % (d_arr[0][0], d_cls[0][0], d_map[0][0], d_map[0][1], d_sv[0][0], d_ssv[0][0],
                       [d_arr[1], d_cls[1], d_map[1], d_sv[1], d_ssv[1]]))
        # the nesting limit of the restore and the dry run of save_object, statement by statement
        ris = ws(section("static int restore_internal_size (char **str", "static int restore_size (char **str", "restore_internal_size"))
        rsz = ws(section("static int restore_size (char **str", "static int restore_interior_string", "restore_size"))
        sob = ws(section("int save_object (object_t * ob", "char* save_variable", "save_object"))
        sor = ws(section("static int save_object_recurse", "static size_t sel", "save_object_recurse"))
        top_args = re.findall(r"restore_internal_size \(str, [01], save_svalue_depth\+\+, (\d+)\)", rsz)
        nest_sites = {
            "entry test": "char c, delim, index = 0; if (nesting > MAX_SAVE_SVALUE_DEPTH) return 0; delim =" in ris,
            "recursive calls pass nesting + 1": len(re.findall(r"restore_internal_size \(str, [01], save_svalue_depth\+\+, nesting \+ 1\)", ris)) == 3
                                                and ris.count("restore_internal_size (str,") == 3,
            "restore_size passes one literal": len(top_args) == 3 and len(set(top_args)) == 1 and rsz.count("restore_internal_size (str,") == 3,
        }
        i_dry, i_open = sob.find("(void) save_object_recurse (ob->prog, &v, 0, save_zeros, NULL);"), sob.find("f = fopen (tmp_name")
        dry_sites = {
            "dry run before fopen": 0 <= i_dry < i_open and "v = ob->variables; (void) save_object_recurse (ob->prog, &v, 0, save_zeros, NULL);" in sob,
            "dry branch advances the cursor": "theSize = svalue_save_size (*svp); if (!f) {" in sor and
                                              re.search(r"if \(!f\) \{ (/\*.*?\*/ )?\(\*svp\)\+\+; continue; \}", sor) is not None,
            "real run after the header": sob.find("success = save_object_recurse (ob->prog, &v, 0, save_zeros, f);") > i_open > 0,
        }
        nest_txt = ("/-- restore nesting limit: %s; the literal restore_size passes -/\n"
                    "def nestingSitesAsModelled : Bool := %s\ndef restoreSizeNestingArg : Nat := %s\n"
                    "/-- save_object dry run: %s -/\ndef dryRunSitesAsModelled : Bool := %s"
                    % (", ".join("%s=%s" % (k, "yes" if v else "NO") for k, v in nest_sites.items()),
                       "true" if all(nest_sites.values()) else "false", top_args[0] if top_args else "0",
                       ", ".join("%s=%s" % (k, "yes" if v else "NO") for k, v in dry_sites.items()),
                       "true" if all(dry_sites.values()) else "false"))
        # ---- the file-scope state of the two anchor files (what the linker sees: `nm` on the objects of this build) and
        # the reset of the shared container counter at the head of every entry point
        KNOWN_STATE = {
            "save_svalue_depth": "protocol", "save_svalue_sizes": "protocol", "save_max_depth": "protocol",
            "sel": "constant cache (strlen (SAVE_EXTENSION), computed once)",
            "tmp_name": "scratch buffer of save_object (written before it is read in every call)",
            "hashed_living": "other", "num_living_names": "other", "num_searches": "other", "search_length": "other",
            "sent_free": "other", "tot_alloc_object": "other", "tot_alloc_object_size": "other", "tot_alloc_sentence": "other",
            "free_nodes": "other", "mapping_node_blocks": "other", "g_u_m_list": "other", "num_mappings": "other",
            "total_mapping_nodes": "other", "total_mapping_size": "other"}
        region = src[src.find("int save_svalue_depth"):src.find("void tell_npc")]
        state, new_state = [], []
        for fn in ("object.c.o", "mapping.c.o"):
            obj = os.path.join(bdir, "lib/lpc/CMakeFiles/lpc.dir", fn)
            if not os.path.exists(obj):
                raise X.TieBroken("site:file-scope-state/object-file-not-found", "no %s in this build: the inventory of "
                                  "file-scope variables cannot be taken" % obj)
            for l in E.run(["nm", obj]).stdout.splitlines():
                t = l.split()
                if len(t) == 3 and t[1] in "BbDdCc" and not t[2].startswith(("__", ".", "_ZL")) and "asan" not in t[2]:
                    name = t[2].split(".")[0]
                    cls = KNOWN_STATE.get(name)
                    if cls is None:
                        # a new file-scope variable matters only when the save / restore code itself mentions it
                        cls = "UNCLASSIFIED" if re.search(r"\b%s\b" % re.escape(name), region) else "other"
                        if cls == "UNCLASSIFIED":
                            new_state.append(name)
                    state.append((fn[:-2], name, cls))
        if new_state:
            raise X.TieBroken("site:file-scope-state/" + new_state[0],
                              "the save / restore code of lib/lpc/object.c uses file-scope variables the model does not know: %s "
                              "(is each one reset at every entry point? see NV/C16/Globals.lean)" % ", ".join(new_state))
        def fn_body(start, end):
            return ws(section(start, end, start))
        def starts_with_reset(body):
            # the first statement after the declarations of the function
            return re.search(r"\{ (?:(?:int|char|svalue_t|size_t) [^;{}]*; )*save_svalue_depth = 0;", body) is not None
        b_rs = fn_body("int restore_svalue (char *cp, svalue_t * v) {", "int safe_restore_svalue")
        b_srs = fn_body("int safe_restore_svalue (char *cp, svalue_t * v) {", "static int fgv_recurse")
        objw = ws(src)
        size_calls = [m.start() for m in re.finditer(r"svalue_save_size \((?!const)", objw)]
        inner = objw.find("size_t svalue_save_size (const svalue_t * v)"), objw.find("void save_svalue (svalue_t * v, char **buf)")
        outer_calls = [i for i in size_calls if not (inner[0] <= i < inner[1])]
        top_dispatch = [m.start() for m in re.finditer(r"restore_(?:array|mapping|class) \(&cp,", objw)]
        reset_sites = {
            "restore_svalue starts with the reset": starts_with_reset(b_rs),
            "safe_restore_svalue starts with the reset": starts_with_reset(b_srs),
            "every top-level dispatch to restore_array/mapping/class sits in one of the two": bool(top_dispatch) and all(
                objw.find("int restore_svalue (char *cp, svalue_t * v) {") < i < objw.find("static int fgv_recurse") for i in top_dispatch),
            "every outer call of svalue_save_size is preceded by the reset": len(outer_calls) == 2 and all(
                objw[:i].rstrip().endswith(("save_svalue_depth = 0; theSize =",)) for i in outer_calls),
        }
        state_txt = ("/-- file-scope variables of lib/lpc/object.c and lib/lpc/mapping.c (`nm` on the objects of this build) with their\n"
                     "    role for the save / restore code -/\ndef fileScopeState : List (String × String × String) := [%s]\n"
                     "/-- %s -/\ndef resetSitesAsModelled : Bool := %s"
                     % (", ".join('("%s", "%s", "%s")' % x for x in state),
                        ", ".join("%s=%s" % (k, "yes" if v else "NO") for k, v in reset_sites.items()),
                        "true" if all(reset_sites.values()) else "false"))
        # the size table: allocation / growth in restore_internal_size (two copies), release in the two entry points
        inits = re.findall(r"if \(!save_svalue_sizes\) \{ save_max_depth = (\d+); while \(save_max_depth <= depth\) save_max_depth <<= 1; "
                           r"save_svalue_sizes = CALLOCATE \(save_max_depth, int,", ris)
        table_sites = {
            "allocation (both closing branches)": len(inits) == 2 and len(set(inits)) == 1,
            "growth doubles before it tests (both)": ris.count("else if (depth >= save_max_depth) { while ((save_max_depth <<= 1) <= depth); "
                                                               "save_svalue_sizes = RESIZE (save_svalue_sizes, save_max_depth, int,") == 2,
            "entry written after the capacity is ensured (both)": ris.count("save_svalue_sizes[depth] = size; return 1;") == 2,
            "release resets pointer and capacity together (both entry points)": objw.count(
                "if (save_svalue_depth) { save_svalue_depth = save_max_depth = 0; if (save_svalue_sizes) FREE ((char *) save_svalue_sizes); "
                "save_svalue_sizes = (int *) 0; }") == 2,
        }
        state_txt += ("\n/-- the size table: %s -/\ndef tableSitesAsModelled : Bool := %s\n"
                      "/-- `save_max_depth = N` of a fresh table -/\ndef sizeTableInitial : Nat := %s"
                      % (", ".join("%s=%s" % (k, "yes" if v else "NO") for k, v in table_sites.items()),
                         "true" if all(table_sites.values()) else "false", inits[0] if inits else "0"))
        svw = ws(src[src.find("char* save_variable (svalue_t * var)"):src.find("static void cns_just_count")])
        msv = re.search(r'save_svalue_depth = 0; theSize = svalue_save_size \(var\); if \(theSize - 1 > \(size_t\)CONFIG_INT '
                        r'\(__MAX_STRING_LENGTH__\)\) error \("((?:[^"\\]|\\.)*)"\); new_str = new_string \(theSize - 1,', svw)
        limit_sites = {"save_variable tests the size against MaxStringLength before it allocates": msv is not None}
        state_txt += ("\n/-- save_variable(): `if (theSize - 1 > MaxStringLength) error (..)` in front of the allocation; its message; the\n"
                      "    default of MaxStringLength (lib/rc/rc.cpp; the harness does not override it) -/\n"
                      "def saveVariableLimitMessage : String := %s\ndef maxStringLength : Nat := %s"
                      % ('"' + (msv.group(1)[:-2] if msv and msv.group(1).endswith("\\n") else (msv.group(1) if msv else "")) + '"', m3.group(1)))
        broken = [(g, k) for g, d in (("save_variable-limit", limit_sites), ("size-table", table_sites), ("hash-table", hash_sites), ("nesting-limit", nest_sites), ("dry-run", dry_sites),
                                       ("counter-reset", reset_sites)) for k, v in d.items() if not v]
        if broken:
            raise X.TieBroken("site:%s/%s" % broken[0],
                              "statements of the source that no longer read as the model mirrors them: " +
                              "; ".join("%s: %s" % b for b in broken))
        lstr = lambda x: '"' + x.replace("\\", "\\\\").replace('"', '\\"') + '"'
        return "\n".join([
            dispatch, nest_txt, state_txt,
            "/-- restore_variable(): `if (rc & ROB_x) error (msg)` chain, in order -/\ndef restoreVariableMessages : List (String × String) := [%s]"
            % ", ".join("(%s, %s)" % (lstr(a), lstr(b)) for a, b in rv_msgs),
            "/-- restore_object_from_buff(): the same chain with the variable name (`%%s`) -/\n"
            "def restoreObjectMessages : List (String × String) := [%s]" % ", ".join("(%s, %s)" % (lstr(a), lstr(b)) for a, b in fb_msgs),
            "/-- save_svalue(): the character literals written in the T_ARRAY / T_CLASS / T_MAPPING cases, in source order -/\n"
            "def saveArrayLits : List Nat := %s\ndef saveClassLits : List Nat := %s\ndef saveMappingLits : List Nat := %s"
            % (lits("case T_ARRAY", "case T_CLASS"), lits("case T_CLASS", "case T_NUMBER"), lits("case T_MAPPING", "\n}\n")),
            "/-- the hash-table statements of restore_mapping (object.c), growMap and node_find_in_mapping (mapping.c) read\n"
            "    as NV/C16/Hash.lean models them: %s -/\ndef hashSitesAsModelled : Bool := %s\n"
            "/-- `MAP_POINTER_HASH(x) ((intptr_t)x >> N)` -/\ndef hashShift : Nat := %s" %
            (", ".join("%s=%s" % (k, "yes" if v else "NO") for k, v in hash_sites.items()),
             "true" if all(hash_sites.values()) else "false", msh.group(1) if msh else "0"),
            "/-- C: `MAX_SAVE_EXPONENT` (lib/lpc/object.c) -/\ndef maxSaveExponent : Nat := %s" % define("MAX_SAVE_EXPONENT"),
            "/-- C: `SCALE_STEP_EXPONENT` (lib/lpc/object.c) -/\ndef scaleStepExponent : Nat := %s" % define("SCALE_STEP_EXPONENT"),
            "/-- default of the configuration item MaxArraySize (lib/rc/rc.cpp) -/\ndef maxArraySize : Nat := %s" % m2.group(1),
            "/-- bytes save_svalue() writes with a backslash (its `if (c == ...)` in the T_STRING case) -/\n"
            "def saveEscaped : List Nat := %s" % save_esc,
            "/-- bytes svalue_save_size() counts twice (its `if (c == ...)` in the T_STRING case) -/\n"
            "def sizeEscaped : List Nat := %s" % size_esc,
            "/-- save_svalue(): `(c == '\\n') ? '\\r' : c` -/\ndef swapFrom : Nat := %d\ndef swapTo : Nat := %d" % (swap_from, swap_to),
            "/-- additive constants in the return statements of svalue_save_size() -/\n" +
            "\n".join("def %s : Nat := %d" % kv for kv in sizes.items()),
            "/-- restore_string / restore_interior_string / restore_hash_string: an unescaped `from` becomes `to`\n"
            "    (six sites: %s) -/\ndef restoreSwapFrom : Nat := %d\ndef restoreSwapTo : Nat := %d\n"
            "def restoreSwapSitesAgree : Bool := %s" % (sites, sites[0][0], sites[0][1], "true" if agree else "false"),
            "/-- restore_object_from_buff(): `char var[N]` -/\ndef varBufSize : Nat := %s" % mv.group(1),
            "/-- save_object(): `static char tmp_name[N]` and the `%%.Ns.tmp` format -/\n"
            "def tmpPrefixMax : Nat := %s\ndef tmpBufSize : Nat := %s" % (mf.group(1), mt.group(1))])

    def prepare(self, ctx):
        self.exe = E.compile_harness("c16", [os.path.join(E.VERIF, "harness/c16/c16.c")], extra=["-ldl"])
        self.conf = E.make_mudlib(ctx.rundir)
        self.mud = os.path.join(ctx.rundir, "mudlib")
        self.last_impl = {}

    MODS = {"n": "", "s": "static ", "p": "private ", "u": "public ", "sp": "private static ", "t": "protected "}

    @staticmethod
    def _dir_of(cid):
        return "d" + "".join(ch if ch.isalnum() else "_" for ch in cid)

    def lpc_source(self, line, base):
        """`prog <name> i:<mod>:<prog>.. v:<mod>:<var>..`  ->  LPC source of that program"""
        t = line.split()
        out = ["// generated by props/c16.py from: " + line]
        for x in t[2:]:
            k, mod, name = x.split(":")
            if k == "i":
                out.append('%sinherit "%s/%s";' % (self.MODS[mod], base, name))
        for x in t[2:]:
            k, mod, name = x.split(":")
            if k == "v":
                out.append("%smixed %s;" % (self.MODS[mod], name))
        out += ["void create () { seteuid (getuid ()); }", "void set_oid (string s) { }",
                "int so (string f, int z) { return save_object (f, z); }",
                "int ro (string f, int nc) { return restore_object (f, nc); }", ""]
        return "\n".join(out)

    def run_impl(self, ctx, cases):
        # the save file lives in the mudlib copy: one fresh copy per batch, every case removes the file first.
        # `prog` lines of a case are written as LPC files below /c16/g/<case>/ and `useg <name>` is pointed there
        hc, made = [], []
        for c in cases:
            if not any(l.startswith("prog ") for l in c.lines):
                hc.append(c)
                continue
            d = self._dir_of(c.id)
            base = "/c16/g/" + d
            path = os.path.join(self.mud, "c16", "g", d)
            shutil.rmtree(path, ignore_errors=True)
            os.makedirs(path)
            made.append(path)
            lines = []
            for l in c.lines:
                t = l.split()
                if t and t[0] == "prog" and len(t) >= 2:
                    with open(os.path.join(path, t[1] + ".c"), "w") as f:
                        f.write(self.lpc_source(l, base))
                    continue
                if len(t) == 2 and t[0] == "useg" and "/" not in t[1]:
                    l = "useg %s/%s" % (base, t[1])
                lines.append(l)
            hc.append(E.Case(c.id, lines))
        # a case of this property runs for milliseconds (the largest boundary texts for < 1 s under ASan): a per-case limit of
        # 10 s instead of vh's 30 s keeps a tree that HANGS in many cases from eating the harness wall-clock limit
        # (and the whole batch gets 5 minutes in the quick tier - ten times what the unchanged tree needs under load -
        # instead of 15: what did not run by then is reported as crashed, a verdict with a replay)
        res = E.run_harness(self.exe, self.conf, hc, ctx.rundir, args=("--timeout", "10"),
                            timeout=300 if getattr(ctx, "tier", "quick") == "quick" else 1800)
        for path in made:
            shutil.rmtree(path, ignore_errors=True)
        self.last_impl.update({k: self.canon(v) for k, v in res.items()})
        return res

    def run_model(self, ctx, cases):
        """the model runs on the REAL program trees: the `tree` lines dumped by the harness are appended to the case"""
        ms = []
        for c in cases:
            if not any(l.startswith("useg ") for l in c.lines):
                ms.append(c)
                continue
            impl = self.last_impl.get(c.id)
            if impl is None:
                impl = self.canon(self.run_impl(ctx, [c]).get(c.id, []))
            ms.append(E.Case(c.id, c.lines + ["--"] + [l for l in impl if l.startswith("tree ")]))
        return E.nvdrive(self.id, "model", E.cases_text(ms))

    def canon(self, lines):
        return [l.rstrip() for l in lines if l.strip() != ""]

    # ---- generators ------------------------------------------------------
    def gen_string(self, rng, ascii_only=False):
        kind = rng.weighted([("plain", 5), ("esc", 6), ("empty", 1), ("utf8", 2 if not ascii_only else 0),
                             ("allbytes", 1)])
        if kind == "empty":
            return []
        if kind == "plain":
            return [rng.range(0x61, 0x7a) for _ in range(rng.range(1, 8))]
        if kind == "esc":
            return [rng.choice(ESC_BYTES) if rng.chance(2, 3) else rng.range(0x20, 0x7e) for _ in range(rng.range(1, 10))]
        if kind == "utf8":
            out = []
            for _ in range(rng.range(1, 4)):
                out += list(bytes.fromhex(rng.choice(UTF8_OK)))
                if rng.chance(1, 2):
                    out.append(rng.choice(ESC_BYTES))
            return out
        return [rng.range(1, 255) for _ in range(rng.range(1, 12))]

    def gen_scalar(self, rng):
        k = rng.weighted([("int", 5), ("float", 4), ("str", 6)])
        if k == "int":
            if rng.chance(1, 2):
                return ("i", rng.choice(INTS))
            b = rng.range(1, 63)
            n = rng.below(2 ** b)
            return ("i", -n if rng.chance(1, 2) else n)
        if k == "float":
            if rng.chance(2, 3):
                x = rng.choice(FLOATS)
                return ("f", fbits(-x if rng.chance(1, 4) else x))
            # random finite double
            while True:
                bits = rng.next()
                if True:
                    return ("f", "%016x" % bits)
        return ("s", self.gen_string(rng))

    def gen_value(self, rng, depth=0, maxdepth=4):
        if depth >= maxdepth or rng.chance(2, 5):
            return self.gen_scalar(rng)
        k = rng.weighted([("a", 4), ("m", 4), ("c", 2)])
        n = rng.weighted([(0, 2), (1, 3), (2, 3), (3, 2), (5, 1), (9, 1)])
        if k == "a":
            return ("a", [self.gen_value(rng, depth + 1, maxdepth) for _ in range(n)])
        if k == "c":
            return ("c", [self.gen_value(rng, depth + 1, maxdepth) for _ in range(max(n, 1))])
        seen, items = set(), []
        for _ in range(n):
            key = self.gen_scalar(rng) if rng.chance(9, 10) else self.gen_value(rng, depth + 1, maxdepth)
            tags = {vtxt(key)}
            if key[0] == "f":
                # equal printed values collapse on restore (known finding K5); msameval() also identifies a float
                # key with the integer key of the same bit pattern (0.0 / 0, -0.0 / INT64_MIN): not C16's business
                b = int(key[1], 16)
                tags = {"g" + g6(key[1]).lstrip("-"), "i%d" % (b - 2 ** 64 if b >= 2 ** 63 else b)}
                if b << 1 & (2 ** 64 - 1) == 0:
                    tags |= {"i0", "i%d" % I64MIN}
            if tags & seen:
                continue
            seen |= tags
            items.append((key, self.gen_value(rng, depth + 1, maxdepth)))
        return ("m", items)

    # ---- program trees ---------------------------------------------------
    @staticmethod
    def layout(progs, name, st=False):
        """slots of a declared program: [(var name, static?)], inherits first (python mirror of the oracle's rule)"""
        inhs, vars_ = progs[name]
        out = []
        for m, n in inhs:
            out += C16.layout(progs, n, st or m in ("s", "sp"))
        return out + [(n, st or m in ("s", "sp")) for m, n in vars_]

    @staticmethod
    def prog_lines(progs):
        return [("prog %s %s" % (n, " ".join(["i:%s:%s" % x for x in progs[n][0]] + ["v:%s:%s" % x for x in progs[n][1]]))).rstrip()
                for n in progs]

    def tree_case_lines(self, rng, progs, top, steps=None):
        n = len(self.layout(progs, top))
        def vals(deep):
            return vtxt(("a", [self.gen_value(rng, 0, 2) if deep and rng.chance(1, 3) else self.gen_scalar(rng) for _ in range(n)]))
        lines = ["rm"] + self.prog_lines(progs) + ["useg " + top]
        for st in steps or ["so", "ro"]:
            if st == "so":
                lines += ["setm " + vals(True), "so %d" % rng.below(2)]
            elif st == "ro":
                lines += ["setm " + vals(False), "ro %d" % rng.below(2)]
            elif st == "cp":
                lines += ["setm " + vtxt(("a", [("i", rng.range(1000, 9999))] * n)), "cp %d" % rng.below(2), "cf 1"]
        return lines

    def gen_progs(self, rng, allow_dups, prefix="p"):
        """random inheritance graph: up to 6 programs, depth <= 3 below the top, static / plain / private / public inherits
        at every level, static variables in the middle; with allow_dups also variables of one name at two levels and
        a program inherited twice"""
        k = rng.range(2, 6)
        progs, depth = {}, {}
        for i in range(k):
            name = "%s%d" % (prefix, i)
            inhs = []
            cands = [j for j in range(i) if depth["%s%d" % (prefix, j)] < 3]
            if cands and (i == k - 1 or rng.chance(2, 3)):
                for _ in range(rng.weighted([(1, 5), (2, 3), (3, 1)])):
                    j = rng.choice(cands)
                    if any(x[1] == "%s%d" % (prefix, j) for x in inhs) and not allow_dups:
                        continue
                    inhs.append((rng.weighted([("n", 5), ("s", 4), ("p", 1), ("u", 1)]), "%s%d" % (prefix, j)))
            depth[name] = 1 + max([depth[x[1]] for x in inhs] + [0])
            vars_ = []
            for q in range(rng.weighted([(0, 1), (1, 3), (2, 4), (3, 3), (4, 1)])):
                vn = "%s%d" % ("abcdwxyz"[q], i)
                if allow_dups and rng.chance(1, 3) and i > 0:
                    vn = "%s%d" % ("abcdwxyz"[rng.below(3)], rng.below(i))
                if any(x[1] == vn for x in vars_):
                    continue
                vars_.append((rng.weighted([("n", 6), ("s", 3), ("p", 2), ("sp", 1), ("u", 1), ("t", 1)]), vn))
            progs[name] = (inhs, vars_)
        top = "%s%d" % (prefix, k - 1)
        if not allow_dups:
            # a diamond puts the same program (hence the same names) twice into the object: only with allow_dups
            names = [x[0] for x in self.layout(progs, top)]
            if len(set(names)) != len(names):
                return self.gen_progs(rng, allow_dups, prefix)
        return progs, top

    # allocate_mapping(n) gives restore_mapping a table of 8 buckets for n <= 8 pairs, else the next power of two above
    # n; growMap() doubles it in the middle of the restore when 80% of the buckets are in use: sizes at which that can
    # happen (and their neighbours)
    GROW_SIZES = [5, 6, 7, 8, 9, 11, 12, 13, 14, 15, 16, 17, 24, 25, 26, 27, 28, 29, 30, 31, 32, 33, 50, 52, 55, 60, 63, 64]

    def grow_mapping(self, rng, n=None, keys=None):
        """a mapping whose pairs, restored in this order, fill many different buckets: integer keys are multiples of 16
        (MAP_POINTER_HASH drops the low four bits) spread over several table sizes, or strings (hashed by address)"""
        n = n or rng.choice(self.GROW_SIZES)
        kind = keys or rng.weighted([("int", 5), ("str", 2), ("mixed", 2), ("negint", 1)])
        ks, seen = [], set()
        while len(ks) < n:
            if kind == "str" or (kind == "mixed" and rng.chance(1, 2)):
                k = ("s", [0x6b] + [rng.range(0x61, 0x7a) for _ in range(rng.range(1, 4))])
            else:
                j = rng.below(8 * n + 8)
                if kind == "negint" and rng.chance(1, 2):
                    j = -j - 1
                k = ("i", 16 * j + (rng.below(16) if rng.chance(1, 4) else 0))
            if vtxt(k) in seen:
                continue
            seen.add(vtxt(k))
            ks.append(k)
        return ("m", [(k, ("i", i + 1)) for i, k in enumerate(ks)])

    def grow_lines(self, rng, n=None, keys=None):
        v = self.grow_mapping(rng, n, keys)
        lines = ["rx %s %s" % (vtxt(v), save_text(v).hex())]
        if rng.chance(1, 3):
            w = ("a", [v, ("m", [(("s", [0x61]), self.grow_mapping(rng, None, keys))])])
            lines.append("rx %s %s" % (vtxt(w), save_text(w).hex()))
        if rng.chance(1, 3):
            lines.append("rt " + vtxt(v))
        return lines

    # ---- stale shared state: an operation that ends in an LPC error (or `poison`), then every entry point ----------
    def failing_op(self, rng):
        """lines of an operation that raises an LPC error in mid-flight and so leaves the shared container counter set"""
        k = rng.weighted([("poison", 5), ("deep-save", 3), ("deep-save-object", 2), ("array-too-large", 2)])
        if k == "poison":
            return ["poison %d" % rng.choice([1, 2, 3, 5, 24, 25, 26, 27, 100, 70000])]
        if k == "deep-save":
            return ["use obj", "rt " + vtxt(self.nest(rng.range(26, 28), rng.choice(["a", "m", "mix", "c"])))]
        if k == "deep-save-object":
            a = ["i%d" % rng.range(1, 9)] * 5
            a[rng.below(5)] = vtxt(self.nest(26, rng.choice(["a", "m", "mix"])))
            return ["use obj", "set " + " ".join(a), "so %d" % rng.below(2)]
        inner = rng.choice([b"({" + b"1," * 20000 + b"})", b"({({" + b"1," * 20000 + b"}),})"])
        pre = rng.choice([b"({({1,2,3,}),", b'(["a":({1,}),"b":', b"({({}),({({2,}),}),"])
        return ["use obj", "rv " + (pre + inner + (b",})" if pre.startswith(b"({") else b",])")).hex()]

    def entry_op(self, rng):
        """lines of a valid operation through one entry point of the save / restore code; the oracle knows its result"""
        k = rng.weighted([("rx", 4), ("rt", 3), ("so-ro", 3), ("rox", 4), ("son", 1)])
        def val():
            v = self.gen_value(rng, 0, 3)
            while not self.rx_ok(v) or v[0] not in "amc":
                v = ("a", [("i", rng.range(1, 99)), self.gen_value(rng, 1, 3)])
                if not self.rx_ok(v):
                    v = ("a", [("i", 1), ("a", [("i", 2), ("m", [(("i", 3), ("a", []))])])])
            return v
        if k == "rx":
            v = val()
            return ["use obj", "rx %s %s" % (vtxt(v), save_text(v).hex())]
        if k == "rt":
            return ["use obj", "rt " + vtxt(val())]
        if k == "so-ro":
            vals = [val() for _ in range(5)]
            return ["use obj", "set " + " ".join(vtxt(v) for v in vals), "so %d" % rng.below(2), "set i1 i2 i3 i4 i5",
                    "ro %d" % rng.below(2)]
        if k == "son":
            return ["use obj", "set i1 i2 i3 i4 i5", "son %s 0 %s" % (b"/c16/data/st".hex(), b"c16/data/st.o".hex())]
        return self.renamed_case(rng, 24 if rng.chance(1, 3) else 7)[1:]

    def stale_lines(self, rng):
        lines = []
        for _ in range(rng.range(2, 4)):
            lines += self.failing_op(rng) + self.entry_op(rng)
        return lines

    def rx_ok(self, v):
        """values whose python-made save text is unambiguous: no floats (text made by python's %g)"""
        t = v[0]
        if t == "f" or t == "o":
            return False
        if t == "s":
            return True
        if t in "ac":
            return all(self.rx_ok(x) for x in v[1])
        if t == "m":
            return all(self.rx_ok(k) and self.rx_ok(x) for k, x in v[1])
        return True

    def distinct_floats(self):
        """FLOATS without 0 and without values that print like an earlier one (known finding K5)"""
        seen, out = set(), []
        for x in FLOATS[2:]:
            t = g6(fbits(x))
            if t not in seen and x == x:
                seen.add(t)
                out.append(x)
        return out

    def nest(self, depth, kind="a"):
        v = ("i", 7)
        for i in range(depth):
            k = kind if len(kind) == 1 else "amc"[i % 3] if kind == "mix" else kind
            if k == "a":
                v = ("a", [v])
            elif k == "c":
                v = ("c", [v])
            elif k == "m":
                v = ("m", [(("i", i), v)])
            elif k == "mv":          # mapping whose value is an array holding the next level and a class instance
                v = ("m", [(("s", [0x6b, 0x30 + i % 10]), ("a", [v, ("c", [("i", i)])]))]) if i % 2 else ("a", [v])
            elif k == "mk":          # the next level sits in the KEY of a mapping
                v = ("m", [(v, ("i", i))])
            else:                    # "cm": class instances inside mappings inside classes
                v = ("c", [("s", [0x22]), v]) if i % 2 else ("m", [(("i", -i), v), (("i", i + 1), ("c", [("f", fbits(1.5))]))])
        return v

    def renamed_case(self, rng, nvars):
        """a save file written for another version of the program: some variables removed, unknown ones added, lines
        reordered, comments; `rox` carries the values the variables must have afterwards"""
        many = nvars != 7
        names = ["w%d" % i for i in range(24)] if many else ["vi", "vis", "va", "vb", "vs", "vo", "vc"]
        statics = [i % 4 == 3 for i in range(24)] if many else [False, True, False, False, True, False, False]
        live = [self.gen_value(rng, 0, 2) if rng.chance(2, 3) else ("i", 0) for _ in names]
        while not all(self.rx_ok(v) for v in live):
            live = [v if self.rx_ok(v) else ("i", rng.range(1, 99)) for v in live]
        lines = ["rm", "use many" if many else "use obj"]
        if many:
            lines.append("setm " + vtxt(("a", live)))
        else:
            # setv(i, a, b, s, c): vi, va, vb, vs = vis, vc ; vo = the object
            live[1] = live[4]
            live[5] = ("o",)
            lines.append("set %s %s %s %s %s" % tuple(vtxt(live[k]) for k in (0, 2, 3, 4, 6)))
        filevals = {}
        body = [b"#/c16/%s.c" % (b"many" if many else b"obj")]
        order = rng.shuffle(list(range(len(names))))
        for k in order:
            r = rng.below(10)
            if r < 5:                                    # present with a new value (static ones must be ignored)
                v = self.gen_value(rng, 0, 2)
                if not self.rx_ok(v):
                    v = ("i", rng.range(100, 999))
                body.append(names[k].encode() + b" " + save_text(v))
                if not statics[k] and names[k] not in filevals:
                    filevals[names[k]] = v
            elif r < 7:                                  # variable unknown to this program
                body.append(b"gone%d " % k + save_text(self.gen_value(rng, 0, 1) if rng.chance(1, 2) else ("i", k)))
            elif r < 8:
                body.append(b"# comment " + names[k].encode() + b" 5")
        nc = rng.below(2)
        expect = []
        for k, n in enumerate(names):
            if statics[k]:
                expect.append(live[k])
            elif n in filevals:
                expect.append(filevals[n])
            else:
                expect.append(live[k] if nc else ("i", 0))
        lines.append("wf " + (b"\n".join(body) + b"\n").hex())
        lines.append("rox %d %s" % (nc, vtxt(("a", expect))))
        return lines

    def boundary(self):
        B = []

        def mk(name, lines):
            B.append(E.Case("b-" + name, ["rm"] + lines, {"origin": "boundary"}))
        mk("ints", ["rt i%d" % n for n in INTS])
        mk("ints-in-containers", ["rt a[%s]" % ",".join("i%d" % n for n in INTS),
                                  "rt m{%s}" % ",".join("i%d:i%d" % (n, -n if n != I64MIN else n) for n in INTS)])
        mk("floats", ["rt f%s" % fbits(x) for x in FLOATS] + ["rt f%s" % fbits(-x) for x in FLOATS])
        mk("floats-in-containers", ["rt a[%s]" % ",".join("f" + fbits(x) for x in FLOATS),
                                    "rt m{%s}" % ",".join("f%s:f%s" % (fbits(x), fbits(-x)) for x in self.distinct_floats())])
        mk("every-byte", ["rt s%02x" % b for b in range(1, 256)] +
           ["rt a[s%02x]" % b for b in range(1, 256)] +
           ["rt m{s%02x:s%02x}" % (b, b) for b in range(1, 256)] +
           ["rt a[s5c%02x,s%02x5c,s%02x22]" % (b, b, b) for b in (0x0d, 0x0a, 0x80, 0xe4, 0xff, 0xc3)])
        mk("escapes", ["rt s5c", "rt s22", "rt s5c22", "rt s225c", "rt s5c5c22225c", "rt a[s5c,s22,s5c22]",
                       "rt m{s5c22:s225c,s2c3a:s7d29}", "rt s287b317d29", "rt a[s287b2c7d29,s285b3a5d29,s282f2c2f29]",
                       "rt s0a0a", "rt a[s0a]", "rt m{s0a:s0a}", "rt c(s0a22,s5c0a)"])
        mk("utf8", ["rt s" + h for h in UTF8_OK] + ["rt a[s%s,s%s22]" % (h, h) for h in UTF8_OK] +
           ["rt m{s%s:s%s5c}" % (h, h) for h in UTF8_OK])
        mk("empty", ["rt s", "rt a[]", "rt m{}", "rt a[a[],m{},s]", "rt m{s:s}", "rt m{a[]:m{}}", "rt c(i0)",
                     "rt a[i0,i0]", "rt m{i0:i0}", "rt a[o]", "rt o", "rt m{i1:o}", "rt c(o,i1)"])
        mk("class", ["rt c(i1,s61)", "rt c(c(i1),a[c(f%s)])" % fbits(1.5), "rtl mk i1 s61", "rtl mk a[i1] m{i1:i2}",
                     "rt a[c(i1,i2),c(s22)]", "rt m{c(i1):c(i2)}"])
        mk("depth-limit", ["rt " + vtxt(self.nest(24)), "rt " + vtxt(self.nest(25)), "rt " + vtxt(self.nest(26)),
                           "rt " + vtxt(self.nest(25, "m")), "rt " + vtxt(self.nest(26, "m")),
                           "rt " + vtxt(self.nest(25, "mix")), "rt " + vtxt(self.nest(26, "c"))])
        mk("container-keys", ["rt m{a[i1]:i1,a[i1]:i2}", "rt m{m{i1:i2}:a[i3],c(i1):i2}"])
        # restore robustness: texts found by reading the code (each one a defect before the fix commits)
        R = ['({1x"a,2,3,4,})"77', '({1x"a,2,"x({({({",})', "1e+99999999999", "({1.5e+99999999999,})", '"\\a',
             '({"\\a', '(["\\a', "([1:2", '({"abc', '(["abc', '(/"abc', "(/1,2", "({1,2,/)", "(/1,2,})", "([1:2,})",
             "({1,2,])", "([1:])", "([1,])", "({1:})", "({,})", "([:,])", "([:1,2:,])", "(", "()", "(x", "({", "([",
             "(/", "({}", "([]", "(/)", "-", "--1", "-x", "1.", "1.x", "1.5e", "1.5ex", "1e5", "1e+", "1e-", "1e+5",
             "1.5e-3", "12abc", "abc", "", '"', '""', '"a"b', '"a\\"', '"a\\', "({1,2,})garbage", "({({1,}),})",
             "({({1,}),", "({({1,})x})", "([({1,}):({2,}),])", "({1,,2,})", "({-5,-x,})", "({1.5,2.5e+2,3e-2,})",
             "({18446744073709551616,99999999999999999999999,-9223372036854775809,})", "([1:2,1:3,])",
             '(["a":1,"a":2,])', "([1.0:1,1.0:2,])", "({1e+400,1e-400,-1e+400,})", "({0.0000000000000000000001,})",
             '({"\r\n",})', '({"\xe4\xb8\xad",})', '({"\xe4\xb8",})', '({"\xff",})', '({"a\\\xe4\xb8\xad",})',
             '({\xe4\xb8\xad,})', "({\xff,})"]
        mk("restore-texts", ["rv " + t.encode("latin1").hex() for t in R])
        # growMap() in the middle of restore_mapping: the pair that triggers the growth must land in the bucket of the
        # DOUBLED table (hash bit `old size` set / not set), every pair must be found through its key afterwards
        G = ["([16:1,32:2,48:3,64:4,80:5,224:6,])", "([16:1,32:2,48:3,64:4,80:5,96:6,])", "([0:1,16:2,32:3,48:4,64:5,208:6,224:7,240:8,])",
             "([128:1,144:2,160:3,176:4,192:5,208:6,224:7,])", "([-16:1,-32:2,-48:3,-64:4,-80:5,-224:6,-240:7,])",
             "([" + "".join("%d:%d," % (16 * (3 * i % 32), i) for i in range(15)) + "])",
             "([" + "".join("%d:%d," % (16 * (31 - i), i) for i in range(14)) + "])",
             "([" + "".join("%d:%d," % (16 * (5 * i % 128), i) for i in range(31)) + "])",
             "([" + "".join("%d:%d," % (16 * (127 - 3 * i), i) for i in range(27)) + "])",
             "([" + "".join('"k%c%c":%d,' % (97 + i % 26, 97 + i // 26, i) for i in range(31)) + "])",
             '(["a":([16:1,32:2,48:3,64:4,80:5,224:6,]),"b":({([16:1,32:2,48:3,64:4,80:5,240:6,7:7,]),}),])']
        mk("mapping-grows-during-restore", ["rv " + t.encode().hex() for t in G] +
           sum([self.grow_lines(E.Rng(100 + n), n, k) for n in (6, 7, 8, 12, 13, 14, 15, 25, 28, 31, 63) for k in ("int", "str")], []) +
           ["set i1 i2 i3 i4 i5", "wf " + ("#/c16/obj.c\nva " + G[0] + "\nvb " + G[5] + "\nvc " + G[7] + "\n").encode().hex(), "ro 0", "ro 1",
            "so 1", "ro 0"])
        # nesting limit of the restore (= MAX_SAVE_SVALUE_DEPTH of the save): 25 levels restore, 26 are refused as an
        # illegal format, and text nested without end is refused instead of running the C recursion out of stack
        def deep(n, o="({", c="})"):
            return (o * n + "1," + (c + ",") * (n - 1) + c).encode()
        mk("restore-nesting-limit",
           ["rx %s %s" % (vtxt(self.nest(25)), save_text(self.nest(25)).hex()), "rv " + deep(25).hex(), "rv " + deep(26).hex(),
            "rv " + deep(27).hex(), "rv " + deep(25, "(/", "/)").hex(), "rv " + deep(26, "(/", "/)").hex(),
            "rx %s %s" % (vtxt(self.nest(25, "m")), save_text(self.nest(25, "m")).hex()),
            "rv " + save_text(self.nest(26, "m")).hex(), "rv " + save_text(self.nest(26, "mix")).hex(),
            "rv " + save_text(self.nest(26, "mk")).hex(), "rv " + save_text(self.nest(25, "mk")).hex(),
            "rv " + deep(300).hex(), "rv " + (b"({" * 150000).hex(), "rv " + (b"([" * 150000).hex(),
            "rv " + (b"({([1:(/" * 50000).hex(), "rv " + (b'(["a":' * 100000).hex(), "rt a[i1,a[i2]]",
            "set i1 i2 i3 i4 i5", "wf " + (b"#/c16/obj.c\nvi 7\nva " + b"({" * 150000 + b"\nvb 5\n").hex(), "ro 1", "ro 0"])
        # save_variable refuses a text longer than MaxStringLength (200000: a string of 199998 bytes is the longest)
        mk("save-variable-length-limit", ["rt s" + "61" * n for n in (199998, 199999)] + ["rt a[i1,i2]"])
        # an array_t counts its members in an unsigned short: a class text with more than 65535 members is refused (it came
        # back with the count truncated: 65536 members as a class of none)
        # (65535 members - the largest class that restores - only in the thorough tier, see generate(): the model appends
        # element by element, 47 s for that one text)
        mk("class-member-count", ["rv " + (b"(/" + b"1," * n + b"/)").hex() for n in (20000, 65536)] +
           ["rv " + (b"({(/" + b"1," * 65537 + b"/),})").hex(), "rt c(i1,i2)"])
        mk("restore-after-error", ["rv " + ("({({1,2,3,}),({" + "1," * 20000 + "}),})").encode().hex(),
                                   "rx a[i1,i2] " + b"({1,2,})".hex(), "rx c(i1,i2) " + b"(/1,2,/)".hex(),
                                   "rx m{i1:i2} " + b"([1:2,])".hex(), "rt a[i1,i2]"])
        # object level
        mk("object-basic", ["set i1 s61 a[i1,i2] i7 m{i1:i2}", "so 0", "set i2 i2 i2 i2 i2", "ro 0", "ro 1"])
        mk("object-zeros", ["set i0 i0 s i9 a[]", "so 0", "set i5 i6 i7 i8 i9", "ro 1", "ro 0", "set i0 i0 s i9 a[]",
                            "so 1", "set i5 i6 i7 i8 i9", "ro 1"])
        mk("object-float-zero", ["set f%s f%s i1 i2 i3" % (fbits(0.0), fbits(100000.0)), "so 0", "set i5 i6 i7 i8 i9",
                                 "ro 0"])
        mk("object-nofile", ["set i1 i2 i3 i4 i5", "ro 0", "wf", "ro 0"])
        mk("object-damaged", ["set i1 s61 a[i1,i2] i7 m{i1:i2}",
                              "wf " + b"#/c16/obj.c\nva ([1:2\n".hex(), "ro 1",
                              "wf " + b"#/c16/obj.c\nvi 5\nva ({1,2\nvb 7\n".hex(), "ro 1", "ro 0",
                              "wf " + b"garbage".hex(), "ro 1", "wf " + b"vs 99\nvo 5\nnosuch 1\nvi \"x\"\n\nvb 1\n".hex(),
                              "ro 0", "wf " + (b"v" * 120 + b" 1\n").hex(), "ro 0"])
        def hx(t):
            return t.encode().hex() if t else "-"
        names = [("/c16/data/ab", "c16/data/ab.o"), ("/c16/data/ab.c", "c16/data/ab.o"), ("/c16/data/ab.o", "c16/data/ab.o"),
                 ("/c16/data/ab.o.c", "c16/data/ab.o.o"), ("/c16/data/x.c.o", "c16/data/x.c.o"), ("a", "a.o"), ("c", "c.o"),
                 ("o", "o.o"), ("", ".o"), (".c", ".o"), (".o", ".o"), ("/a", "a.o"), ("/", ".o"), ("c16/data/rel", "c16/data/rel.o"),
                 ("/c16/data/", "c16/data/.o"), ("..c", "..o"), ("x.cc", "x.cc.o"), ("/c16/data/" + "n" * 200, "c16/data/" + "n" * 200 + ".o")]
        mk("file-names", ["set i1 i2 i3 i4 i5"] + ["son %s %d %s" % (hx(n), i % 2, hx(p)) for i, (n, p) in enumerate(names)])
        deep = "c16/data/" + "/".join(["d" * 60] * 3)
        longs = []
        for total in (200, 245, 246, 247, 249, 250, 251, 252, 254, 255, 256, 257, 300):
            stem = "n" * (total - len(deep) - 1 - 2)
            longs.append(("/" + deep + "/" + stem, deep + "/" + stem + ".o"))
        mk("long-paths", ["set i1 i2 i3 i4 i5", "mkd " + deep.encode().hex()] +
           ["son %s %d %s" % (hx(n), i % 2, hx(p_)) for i, (n, p_) in enumerate(longs)])
        many = [("i", k) if k % 3 else ("s", [0x61 + k]) for k in range(24)]
        mk("many-variables", ["use many", "setm " + vtxt(("a", many)), "so 0", "setm " + vtxt(("a", [("i", 0)] * 24)), "ro 0",
                              "setm " + vtxt(("a", [("i", 7)] * 24)), "ro 1", "so 1", "setm " + vtxt(("a", [("i", 8)] * 24)), "cp 0", "cf 0"])
        mk("many-variables-renamed", self.renamed_case(E.Rng(7), 24))
        mk("renamed-removed", self.renamed_case(E.Rng(8), 7) + self.renamed_case(E.Rng(9), 7)[1:])
        mk("depth-limit-mixed", ["rt " + vtxt(self.nest(d, k)) for d in (24, 25, 26) for k in ("mv", "mk", "cm")] +
           ["rt a[%s,%s]" % (vtxt(self.nest(24, "mix")), vtxt(self.nest(24, "m"))),
            "set %s i1 i2 i3 %s" % (vtxt(self.nest(25, "mix")), vtxt(self.nest(12, "mv"))), "so 0", "set i0 i0 i0 i0 i0", "ro 0"])
        mk("too-deep-object", ["set i1 %s i2 i3 i4" % vtxt(self.nest(26, "m")), "so 0", "ro 0",
                               "set i1 %s i2 i3 i4" % vtxt(self.nest(25, "m")), "so 0", "ro 0"])
        # the too deep value in EVERY variable position (first, middle, behind the statics, last), with and without an
        # older save file; in a static variable it is no obstacle; the 24-variable object; a generated program tree
        D26, D25 = vtxt(self.nest(26)), vtxt(self.nest(25, "mix"))
        pos = []
        for k in range(5):
            a = ["i%d" % (k + 1)] * 5
            a[k] = D26
            pos += ["set " + " ".join(a), "so %d" % (k % 2), "ro 0"]
            if k == 1:
                pos += ["set i1 i2 i3 i4 i5", "so 0"]         # from here on there is an older save file
        mk("too-deep-every-position", pos + ["set i1 i2 i3 %s i4" % D25, "so 1", "ro 0"])
        for k in (0, 11, 22, 23):
            vals = [("i", j) for j in range(24)]
            vals[k] = self.nest(26, "mix")
            mk("too-deep-many-%d" % k, ["use many", "setm " + vtxt(("a", vals)), "so 0", "ro 0", "setm " + vtxt(("a", [("i", 5)] * 24)),
                                         "so 1", "setm " + vtxt(("a", vals)), "so 1", "ro 1"])
        T0 = {"t0": ([], [("n", "a"), ("s", "b"), ("n", "c")]), "t1": ([("s", "t0")], [("n", "d")]),
              "t2": ([("n", "t0"), ("n", "t1")], [("n", "e"), ("s", "f"), ("n", "g")])}
        T0["t2"] = ([("n", "t1")], T0["t2"][1])
        nslots = len(self.layout(T0, "t2"))
        for k in range(nslots):
            vals = [("i", j + 1) for j in range(nslots)]
            vals[k] = self.nest(26)
            mk("too-deep-tree-slot-%d" % k, self.prog_lines(T0) + ["useg t2", "setm " + vtxt(("a", vals)), "so 1", "ro 0"])
        T = {"p0": ([], [("n", "a"), ("s", "b")]), "p1": ([("n", "p0")], [("n", "c")]),
             "p2": ([("s", "p1")], [("n", "d"), ("p", "e")])}
        B.append(E.Case("b-static-inherit-of-inheriting-program", self.tree_case_lines(E.Rng(21), T, "p2", ["so", "ro", "so", "ro", "cp"]),
                        {"origin": "boundary"}))
        T2 = {"q0": ([], [("n", "a0"), ("n", "b0")]), "q1": ([("n", "q0")], [("s", "a1"), ("n", "b1")]),
              "q2": ([("s", "q1")], [("n", "a2")]), "q3": ([], [("n", "a3"), ("s", "b3"), ("n", "c3")]),
              "q4": ([("n", "q2"), ("s", "q3"), ("n", "q0")], [("n", "a4"), ("s", "b4"), ("p", "c4"), ("n", "d4")])}
        T2["q4"] = ([("n", "q2"), ("s", "q3")], T2["q4"][1])
        B.append(E.Case("b-three-levels-static-middle", self.tree_case_lines(E.Rng(22), T2, "q4", ["so", "ro", "so", "ro", "cp"]),
                        {"origin": "boundary"}))
        T3 = {"r0": ([], [("n", "x"), ("n", "y")]), "r1": ([("s", "r0")], [("n", "z")]), "r2": ([("n", "r1")], [("n", "w")]),
              "r3": ([("s", "r2")], [("n", "v")])}
        B.append(E.Case("b-static-chain", self.tree_case_lines(E.Rng(23), T3, "r3", ["so", "ro", "cp"]), {"origin": "boundary"}))
        # version 1 saved, version 2 restores: `b` moved into an inherited program, `a` now static (nosave), `gone` removed,
        # `c` new, `s` no longer static, a statically inherited copy of the old base
        V1 = {"u0": ([], [("n", "a"), ("n", "b")]), "u1": ([("n", "u0")], [("n", "gone"), ("s", "s"), ("p", "priv")])}
        V2 = {"w0": ([], [("n", "b"), ("p", "priv")]), "w1": ([], [("n", "x")]),
              "w2": ([("n", "w0"), ("s", "w1")], [("s", "a"), ("n", "c"), ("n", "s")])}
        mk("another-program-version", self.prog_lines(V1) + self.prog_lines(V2) +
           ["useg u1", "setm a[i5,s78,i7,i9,s70]", "so 0", "useg w2", "setm a[i1,i2,i3,i4,i6,i8]", "ro 1",
            "setm a[i1,i2,i3,i4,i6,i8]", "ro 0", "so 1", "useg u1", "setm a[i0,i0,i0,i0,i0]", "ro 0"])
        T4 = {"s0": ([], [("p", "x"), ("n", "k")]), "s1": ([("n", "s0")], [("n", "x"), ("s", "k")])}
        mk("same-name-static-twin", self.prog_lines(T4) + ["useg s1", "setm a[i1,i2,i3,i4]", "so 1", "setm a[i5,i6,i7,i8]", "ro 1"])
        # variable names against `char var[100]`: 98, 99 (fit), 100, 101 (refused) characters; very long lines
        mk("name-buffer", ["set i1 i2 i3 i4 i5"] + sum([["wf " + (b"#/c16/obj.c\n" + b"n" * k + b" 1\nvi 7\n").hex(), "ro 0"]
                                                   for k in (98, 99, 100, 101, 250)], []) +
           ["wf " + (b"#/c16/obj.c\nvi \"" + b"x" * 70000 + b"\"\nva ({" + b"1," * 9000 + b"})\nvb 5\n").hex(), "ro 0",
            "wf " + (b"vi 1\n" + b"#" * 5000 + b"\nva 2").hex(), "ro 1", "wf " + (b"vi 1\nva 2\n\n").hex(), "ro 0",
            "wf " + (b"\nvi 1\n").hex(), "ro 0", "wf " + (b"vi\n").hex(), "ro 0", "wf " + (b" 5\nvi 3\n").hex(), "ro 0",
            "wf " + b'va "abc\nvb 1\n'.hex(), "ro 1", "wf " + b"va (x\nvb 1\n".hex(), "ro 0", "wf " + b"va (/1,2\n".hex(), "ro 1",
            "wf " + b"vb -\n".hex(), "ro 0"])
        # class instances at depth, on both sides of the limit, inside every other container kind
        mk("classes-at-depth", ["rt " + vtxt(self.nest(d, "c")) for d in (1, 2, 24, 25, 26)] +
           ["rt " + vtxt(("a", [self.nest(24, "cm")])), "rt " + vtxt(("m", [(self.nest(23, "c"), self.nest(24, "c"))])),
            "rt c(c(c(),c(i1)),c(s22,c(m{c(i1):c(i2)})))", "rt c()", "rt a[c(),c(i0),c(o)]",
            "rv " + b"(/(/(/1,/),/),(/".hex(), "rv " + b"({(/1,2,/),(/3,})".hex(), "rv " + b"(/1,2,})".hex(),
            "rv " + b"({(/1,2,}),})".hex(), "rv " + (b"(/" + b"1," * 70000 + b"/)").hex()[:0] + b"(/1,/)x".hex()])
        mk("noclear-many", ["use many", "setm " + vtxt(("a", [("i", k % 3) for k in range(24)])), "so 0",
                            "setm " + vtxt(("a", [("i", 50 + k) for k in range(24)])), "ro 1",
                            "setm " + vtxt(("a", [("i", 80 + k) for k in range(24)])), "ro 0"])
        mk("crash-points", ["set i1 s61 a[i1,i2] i7 m{i1:i2}", "so 0", "set i2 s62 a[i3] i8 m{}", "cp 0", "cf 0",
                            "ro 0"])
        # a file-size limit hits the save inside a stdio block (files of < 1, 2 and 3 blocks of 4096 bytes); a rename
        # that fails for real (the save path is a directory); two objects whose long paths share one temporary
        big = vtxt(("a", [("s", [0x78] * 3000), ("s", [0x79] * 3000)]))
        mk("size-limits", ["set i1 s61 a[i1,i2] i7 m{i1:i2}", "cl 0", "so 0", "set i2 s62 a[i3] i8 m{}", "cl 0", "cl 1",
                           "set i1 s61 %s i7 m{i1:i2}" % big, "cl 0", "so 1", "set i2 %s %s i8 i9" % (big, big), "cl 1",
                           "use many", "setm " + vtxt(("a", [("s", [0x61 + k] * 400) for k in range(24)])), "cl 0"])
        mk("rename-fails", ["set i1 i2 i3 i4 i5", "mkd " + b"c16/data/isdir.o".hex(),
                            "sond %s 0 %s" % (b"/c16/data/isdir".hex(), b"c16/data/isdir.o".hex()),
                            "mkd " + b"c16/data/isdir.o".hex(),
                            "sond %s 1 %s" % (b"/c16/data/isdir.c".hex(), b"c16/data/isdir.o".hex()),
                            "son %s 0 %s" % (b"/c16/data/notdir".hex(), b"c16/data/notdir.o".hex())])
        shared = "c16/data/" + "/".join(["e" * 60] * 3) + "/" + "p" * 70
        mk("shared-temporary", ["set i1 i2 i3 i4 i5", "mkd " + ("c16/data/" + "/".join(["e" * 60] * 3)).encode().hex()] +
           ["son %s %d %s" % (("/" + shared + sfx).encode().hex(), i % 2, (shared + sfx + ".o").encode().hex())
            for i, sfx in enumerate(["A", "B", "A", "BB", ""])])
        # every entry point entered with the state an earlier failed operation leaves in the shared counter
        ok_text = b"({1,({2,([3:({}),]),}),})"
        ok_val = "a[i1,a[i2,m{i3:a[]}]]"
        st = []
        for d in (1, 2, 3, 25, 26, 27, 1000, 70000):
            st += ["poison %d" % d, "rx %s %s" % (ok_val, ok_text.hex()), "poison %d" % d, "rt " + ok_val,
                   "poison %d" % d, "set i1 %s %s i4 m{i1:a[i2]}" % (ok_val, ok_val), "so %d" % (d % 2),
                   "set i9 i9 i9 i9 i9", "poison %d" % d, "ro %d" % (d % 2), "poison %d" % d, "ro %d" % (1 - d % 2)]
        mk("stale-counter-every-entry-point", st)
        fail_save = "rt " + vtxt(self.nest(26))
        fail_rest = "rv " + (b"({({1,2,3,}),({" + b"1," * 20000 + b"}),})").hex()
        nat = []
        for f in (fail_save, fail_rest):
            nat += [f, "rx %s %s" % (ok_val, ok_text.hex()), f, "rt " + ok_val,
                    "set i1 %s %s i4 m{i1:a[i2]}" % (ok_val, ok_val), f, "so 0", "set i9 i9 i9 i9 i9", f, "ro 1", f, "ro 0",
                    f, "wf " + (b"#/c16/obj.c\nva " + ok_text + b"\nvc ([1:({2,}),])\n").hex(), f, "ro 1", f,
                    "set i1 %s i2 i3 i4" % vtxt(self.nest(26)), "so 0", "ro 1"]
        mk("after-a-failed-operation", nat)
        mk("crash-points-nofile", ["set i1 s61 a[i1,i2] i7 m{i1:i2}", "cp 1", "cf 1"])
        mk("crash-points-zeros", ["set i0 i0 i0 i0 i0", "so 1", "set i1 i0 i0 i0 i0", "cp 0", "cf 0", "cp 1"])
        return B

    def mutate_text(self, rng, t):
        t = bytearray(t)
        k = rng.weighted([("trunc", 4), ("flip", 4), ("del", 2), ("ins", 3), ("dup", 1), ("swap", 1)])
        special = b'"\\,:(){}[]/-.e+0123456789x\r\xe4\xff'
        if not t:
            return bytes([rng.choice(list(special))])
        i = rng.below(len(t))
        if k == "trunc":
            return bytes(t[:i])
        if k == "flip":
            t[i] = rng.choice(list(special)) if rng.chance(3, 4) else rng.range(1, 255)
        elif k == "del":
            del t[i]
        elif k == "ins":
            t.insert(i, rng.choice(list(special)))
        elif k == "dup":
            j = rng.range(i, min(len(t), i + 6))
            t[i:i] = t[i:j]
        else:
            j = rng.below(len(t))
            t[i], t[j] = t[j], t[i]
        return bytes(b for b in t if b != 0)

    def gen_case(self, rng, cid, tier):
        kind = rng.weighted([("rt", 8), ("malformed", 8), ("trunc-all", 1), ("object", 3), ("crash", 1), ("renamed", 2),
                             ("many", 1), ("names", 1), ("tree", 5), ("mapgrow", 3), ("stale", 3), ("tree2", 2)])
        lines = ["rm"]
        if kind == "tree2":
            # saved by one program tree, restored into ANOTHER one (another version: variables of the same names moved
            # between inherited programs, made static / non-static, removed, added)
            pa, ta = self.gen_progs(rng, False, "p")
            pb, tb = self.gen_progs(rng, False, "q")
            na, nb = len(self.layout(pa, ta)), len(self.layout(pb, tb))
            va = vtxt(("a", [self.gen_scalar(rng) if rng.chance(3, 4) else ("i", 0) for _ in range(na)]))
            vb = vtxt(("a", [self.gen_scalar(rng) for _ in range(nb)]))
            lines += self.prog_lines(pa) + self.prog_lines(pb) + ["useg " + ta, "setm " + va, "so %d" % rng.below(2),
                                                                  "useg " + tb, "setm " + vb, "ro %d" % rng.below(2)]
            if rng.chance(1, 2):
                lines += ["so %d" % rng.below(2), "useg " + ta, "ro %d" % rng.below(2)]
            return E.Case(cid, lines, {"origin": "generated", "kind": kind})
        if kind == "stale":
            return E.Case(cid, lines + self.stale_lines(rng), {"origin": "generated", "kind": kind})
        if kind == "mapgrow":
            for _ in range(rng.range(2, 5)):
                lines += self.grow_lines(rng)
            if rng.chance(1, 3):
                v, w = self.grow_mapping(rng), self.grow_mapping(rng)
                lines += ["set i1 i2 i3 i4 i5", "wf " + (b"#/c16/obj.c\nva " + save_text(v) + b"\nvc " + save_text(w) + b"\n").hex(),
                          "ro %d" % rng.below(2)]
            return E.Case(cid, lines, {"origin": "generated", "kind": kind})
        if kind == "tree":
            progs, top = self.gen_progs(rng, allow_dups=rng.chance(1, 8))
            steps = rng.weighted([(("so", "ro"), 5), (("so", "ro", "so", "ro"), 3), (("so", "ro", "cp"), 1), (("so", "cp"), 1)])
            return E.Case(cid, self.tree_case_lines(rng, progs, top, steps), {"origin": "generated", "kind": kind})
        if kind == "renamed":
            return E.Case(cid, self.renamed_case(rng, 24 if rng.chance(1, 3) else 7), {"origin": "generated", "kind": kind})
        if kind == "many":
            vals = [self.gen_value(rng, 0, 2) for _ in range(24)]
            lines += ["use many", "setm " + vtxt(("a", vals)), "so %d" % rng.below(2),
                      "setm " + vtxt(("a", [self.gen_scalar(rng) for _ in range(24)])), "ro %d" % rng.below(2)]
            if rng.chance(1, 3):
                vals = [("i", rng.range(1000, 9999))] + [self.gen_scalar(rng) for _ in range(23)]   # new differs from old
                lines += ["setm " + vtxt(("a", vals)), "cp %d" % rng.below(2)]
            return E.Case(cid, lines, {"origin": "generated", "kind": kind})
        if kind == "names":
            lines.append("set " + " ".join(vtxt(self.gen_scalar(rng)) for _ in range(5)))
            for _ in range(rng.range(2, 6)):
                stem = "".join(rng.choice("acox._") for _ in range(rng.range(0, 4)))
                name = rng.choice(["", "/", "/c16/data/", "c16/data/"]) + stem + rng.choice(["", "", ".c", ".o", ".o.c", ".c.o", "c", "o"])
                base = name[:-2] + ".o" if len(name) >= 2 and name.endswith(".c") else name if len(name) >= 2 and name.endswith(".o") else name + ".o"
                path = base[1:] if base.startswith("/") else base
                if ".." in path or "//" in path or path.endswith("/.o") and False:
                    continue
                lines.append("son %s %d %s" % (name.encode().hex() or "-", rng.below(2), path.encode().hex()))
            return E.Case(cid, lines, {"origin": "generated", "kind": kind})
        if kind == "rt":
            for _ in range(rng.range(1, 6)):
                lines.append("rt " + vtxt(self.gen_value(rng)))
        elif kind == "malformed":
            v = self.gen_value(rng, 0, 3)
            if v[0] not in "amc" and rng.chance(2, 3):
                v = ("a", [v, self.gen_value(rng, 1, 3)])
            t = save_text(v)
            for _ in range(rng.range(3, 10)):
                m = t
                for _ in range(rng.weighted([(1, 6), (2, 3), (3, 1)])):
                    m = self.mutate_text(rng, m)
                lines.append("rv " + m.hex())
            w = self.gen_value(rng, 0, 2)                                  # the driver still works afterwards:
            if self.rx_ok(w):                                              # a valid text must restore to its value
                lines.append("rx %s %s" % (vtxt(w), save_text(w).hex()))
            lines.append("rt " + vtxt(w))
        elif kind == "trunc-all":
            v = self.gen_value(rng, 0, 3)
            if v[0] not in "amc":
                v = ("m", [(("s", [0x5c, 0x61]), v)])
            t = save_text(v)[:60]
            for i in range(len(t) + 1):
                lines.append("rv " + t[:i].hex())
        elif kind == "object":
            vals = [self.gen_value(rng, 0, 3) for _ in range(5)]
            if rng.chance(1, 3):
                vals[rng.below(5)] = ("i", 0)
            if rng.chance(1, 6):
                vals[rng.below(5)] = self.nest(rng.range(25, 27), rng.choice(["a", "m", "mix", "c", "mv"]))
            lines.append("set " + " ".join(vtxt(v) for v in vals))
            lines.append("so %d" % rng.below(2))
            lines.append("set " + " ".join(vtxt(self.gen_value(rng, 0, 2)) for _ in range(5)))
            nc = rng.below(2)
            lines.append("ro %d" % nc)
            if rng.chance(1, 2):
                # damaged file: mutate the real format
                body = b"#/c16/obj.c\n" + b"".join(n + b" " + save_text(v) + b"\n" for n, v in
                                                    zip([b"vi", b"va", b"vb", b"vc"], vals))
                lines.append("wf " + self.mutate_text(rng, body).hex())
                lines.append("ro %d" % rng.below(2))
        else:
            lines.append("set " + " ".join(vtxt(self.gen_value(rng, 0, 2)) for _ in range(5)))
            if rng.chance(3, 4):
                lines.append("so %d" % rng.below(2))
            vals = [self.gen_value(rng, 0, 2) for _ in range(5)]
            vals[0] = ("i", rng.range(1000, 9999))           # old and new contents differ
            lines.append("set " + " ".join(vtxt(v) for v in vals))
            z = rng.below(2)
            lines.append("cp %d" % z)
            lines.append("cf %d" % z)
            if rng.chance(1, 2):
                if rng.chance(1, 3):        # a save file of several stdio blocks
                    vals[rng.range(1, 4)] = ("a", [("s", [rng.range(0x61, 0x7a)] * rng.range(1500, 6000)), ("i", 5)] * rng.range(1, 3))
                    lines.append("set " + " ".join(vtxt(v) for v in vals))
                lines.append("cl %d" % z)
        return E.Case(cid, lines, {"origin": "generated", "kind": kind})

    def generate(self, rng, n, tier):
        cases = [self.gen_case(rng, "g%d" % i, tier) for i in range(n)]
        if tier == "thorough":
            cases.append(E.Case("g-class-65535", ["rm", "rv " + (b"(/" + b"1," * 65535 + b"/)").hex(),
                                                  "rv " + (b"(/" + b"1," * 65536 + b"/)").hex()],
                                {"origin": "generated", "kind": "class-limit"}))
        return cases

    def mutate_around(self, case, rng, n):
        out = []
        # a case made of texts of hundreds of KB (nesting / member-count boundaries) is not copied 150 times: the model
        # alone would need more than its time limit for them
        if sum(len(l) for l in case.lines) > 100000:
            n = max(3, n // 30)
        for i in range(n):
            lines = [l for l in case.lines if rng.chance(4, 5) or l == "rm"]
            out.append(E.Case("m%d" % i, lines))
        return out

    def histogram(self, cases, impl):
        h = {"roundtrips": 0, "restores_of_text": 0, "restore_errors": 0, "restore_values": 0, "save_objects": 0,
             "restore_objects": 0, "restore_object_errors": 0, "crash_points": 0, "injected_failures": 0,
             "sanitizer": 0}
        errs, kinds, tops, marks = {}, {}, {}, {"class_values_saved": 0, "nesting_25_or_more": 0, "noclear_restores": 0,
                                             "static_inherits": 0, "trees_dumped": 0, "strings_with_cr": 0, "nonfinite_floats": 0}
        for c in cases:
            k = c.meta.get("kind") or c.meta.get("origin") or "?"
            kinds[k] = kinds.get(k, 0) + 1
            for l in c.lines:
                if l.startswith(("rt ", "set ", "setm ")):
                    marks["class_values_saved"] += l.count("c(")
                    marks["nesting_25_or_more"] += 1 if ("[" * 25 in l.replace("a[", "[").replace("m{", "[").replace("c(", "[").replace("i", "")
                                                       or l.count("[") + l.count("{") + l.count("(") >= 25) else 0
                    marks["strings_with_cr"] += 1 if re.search(r"s(?:[0-9a-f]{2})*?0d", l) else 0
                    marks["nonfinite_floats"] += len(re.findall(r"f[7f]ff[0-9a-f]{13}", l))
                elif l.startswith(("ro 1", "rox 1")):
                    marks["noclear_restores"] += 1
                elif l.startswith("prog "):
                    marks["static_inherits"] += l.count(" i:s:")
            for l in impl.get(c.id, []):
                if l.startswith("err "):
                    m = re.sub(r"while restoring \S+", "while restoring <var>", l[4:]).strip()
                    errs[m] = errs.get(m, 0) + 1
                elif l.startswith("rest "):
                    tops[l[5:6]] = tops.get(l[5:6], 0) + 1
                elif l.startswith("tree "):
                    marks["trees_dumped"] += 1
                elif l.startswith("tbl "):
                    marks["hash_tables_compared"] = marks.get("hash_tables_compared", 0) + 1
                    if not l.startswith(("tbl size=8 ", "tbl size=16 unfilled=12 ")) and ("size=16" in l or "size=32" in l or "size=64" in l or "size=128" in l):
                        marks["hash_tables_larger_than_8"] = marks.get("hash_tables_larger_than_8", 0) + 1
        h["error_kinds"] = errs
        h["case_kinds"] = kinds
        h["restored_top_level_types"] = tops
        h.update(marks)
        for c in cases:
            for l in c.lines:
                if l.startswith("rt"):
                    h["roundtrips"] += 1
                elif l.startswith("rv"):
                    h["restores_of_text"] += 1
            for l in impl.get(c.id, []):
                if l == "resterr":
                    h["restore_errors"] += 1
                elif l.startswith("rest "):
                    h["restore_values"] += 1
                elif l.startswith("so "):
                    h["save_objects"] += 1
                elif l.startswith("ro "):
                    h["restore_objects"] += 1
                elif l == "roerr":
                    h["restore_object_errors"] += 1
                elif l.startswith("cp ") and " n=" not in l:
                    h["crash_points"] += 1
                elif l.startswith("cf ") and " n=" not in l:
                    h["injected_failures"] += 1
                elif l.startswith("sanitizer"):
                    h["sanitizer"] += 1
        return h


PROP = C16()
