"""C15 - file access is confined to the mudlib and always mediated by the master."""
import os
import sys

from nvlib import engine as E
from nvlib import extract as X
from nvlib.check import Prop

ALPHA = "a./#"
CHUNK = 4096

# paths for the one-argument efuns (relative to the fixture of harness/c15/c15.c)
P1 = ["/d/f.txt", "/d", "/d/", "/d/.", "/d/sub", "/d/sub/", "/d/nofile", "/d/no/deep", "/", "", ".", "/a/a", "a/a",
      "/aa", "/aa/", "/d/../master.c", "/../outside.txt", "//nonexistent-c15/x/y", "/d/./f.txt", "/d//f.txt",
      "/d/f.txt#", "/..", "/d/..", "/...", "/d/.hidden", "/d/x*", "/a", "/a/", "/a/aa/.", "x", "/d/sub/.."]
P2 = ["/d/f.txt", "/d/sub", "/d/sub/", "/d/new", "/d/f.txt/", "/a//", "/../x", "/d", ".", "/a/a", "/d/../d/new"]
PSAVE = ["/d/save", "/d/save.o", "/d/save.c", "/d/obj.c", "/d/../s.o", "/a/a.o", "/d/sub/x.o.c", "/nodir/save",
         "/d/sub", "/../outside", "//nonexistent-c15/x/save"]
EFUN1 = ["read_file", "write_file", "rm", "mkdir", "rmdir", "file_size", "file_length", "tail", "read_bytes",
         "read_buffer", "write_bytes", "write_buffer", "stat", "get_dir", "dumpallobj", "dump_prog"]
EFUN2 = ["rename", "link", "cp"]
EFUNS = ["save_object", "restore_object"]
PED = [("/d/f.txt", "/d/out"), ("/d/nofile", "/d/sub/o2"), ("/d/../master.c", "/../x"), ("/d", "/d/f.txt"), ("", "/d/new"),
       ("/a/a", "relative"), ("//nonexistent-c15/x/y", "//nonexistent-c15/x/y"), ("/d/f.txt", "/d/sub")]
POL_FULL = ["allow", "echo"]
POL_ERR = ["raise", "raiseon=[d/sub]", "raiseon=[/d/f.txt]", "raiseon=[/d/sub]", "odd=[array]", "odd=[emptyarray]",
           "odd=[float]", "odd=[float0]", "odd=[object]", "odd=[neg]", "odd=[two]"]
POL_KIND = ["ro", "wo", "ropath=[/d/f.txt]", "ropath=[/d/out]"]
SESSIONS = [("/d/f.txt", "a:x,w,q"), ("/d/f.txt", "a:x,x"), ("/d/f.txt", "a:x,w:/d/out,e:/d/out,f,f:/d/other,w,q"),
            ("/d/f.txt", "a:x,e:/d/obj.c,E:/d/obj.c,r:/d/inc.h,W:/d/f.txt,q,Q"), ("/d/nofile", "w,a:hello,w,W,x"),
            ("/d/nofile", "a:y,w:out2,e:out2,r:out2,x"), ("/d/../x", "a:x,w,f:/d/f.txt,w,x"),
            ("/d", "w,a:x,w,x,Q"), ("/d/f.txt", "r,r:/d/nofile,w:/d/sub,w:/d/sub/n,x"),
            ("/d/f.txt", "f:/../outside.txt,w,e:/../outside.txt,r://abs,w:/d/../x,Q"), ("/d/f.txt", "q,w"),
            ("/d/f.txt", "a:1,a:2,W,W:/d/f.txt,e,E,f,x"),
            # the user goes net-dead: save_ed_buffer writes where the master's get_save_file_name () says
            ("/d/f.txt", "a:x,D:/d/dead"), ("/d/f.txt", "a:x,D:/../outside_dead"), ("/d/f.txt", "D://nonexistent-c15/abs"),
            ("/d/nofile", "D:/d/sub/"), ("/d/f.txt", "a:x,w,D:/d/./dead"), ("/d/f.txt", "a:y,D:d/dead#1"), ("/d/f.txt", "D:/d/sub/.."),
            ("/d/f.txt", "a:x,D:dead,w")]
# RE-ENTRANT masters: valid_read / valid_write call a file efun themselves (consult an access list, log the request)
# before they answer like <kind>
POL_NEST = ["nested=[read_file,/a/a,allow]", "nested=[file_size,/d,allow]", "nested=[write_file,/aa,allow]",
            "nested=[tail,/d/inc.h,echo]", "nested=[read_file,/d/inc.h,deny]", "nested=[read_file,/a/a,fixed,/d/f.txt]",
            "nested=[read_file,/../outside.txt,allow]", "nested=[file_size,/d/nofile,ro]", "nested=[read_file,/a/a,raise]",
            "nested=[read_file,/d/f.txt,allow]", "nested=[tail,/a/a,wo]", "nested=[write_file,/aa,odd,neg]"]
POL_FEW = ["deny", "fixed=[/a/a]", "fixed=[/d]", "fixed=[/../outside.txt]", "fixed=[//nonexistent-c15/x/y]",
           "fixed=[/d/new]", "fixed=[]"]
INC_BASES = ["x.c", "t/x.c", "t/u/x.c"]
INC_NAMES = ["..", "../..", "room/../..", "x/..//../outside.txt", "x/..//../../etc/passwd", "std.h", "a", "../d/inc.h",
             "/d/inc.h", "./a", "../include/std.h", "d/inc.h", "/include/std.h", ".", "...", "nonexist.h", "//d/inc.h",
             "../a/a", "a/", ".//../outside.txt", "../../outside.txt", "a/../../outside.txt", "/..", "/../outside.txt"]
INH_NAMES = ["/d/obj", "d/obj.c", "../x", "/a/a", "aa", "/nonexist", "//d/obj", "/d//obj", "/d/../d/obj", "a", "/..",
             "../../x", "/d/obj#1", "."]
BIN_NAMES = ["/d/b1", "/a/aa/b2", "b3", "/d/sub/b4.c", "/d//b5", "../b6", "/d/../b7", "/d/obj", "/new/dir/deep/b8", "/d/./b9",
             "/d/b#10", "/..", "/d/sub/..b11", "/d/b12.c.c", "//d/b13", "/" + "d/" * 20 + "b14", "/d/" + "n" * 200]
COMPS = [".", "..", "...", "a", "aa", "b.c", "", ".hidden", "x#y", "..a", "a..", "d", "f.txt", "sub", "obj.c", "save.o",
         "longname-0123456789", "#", "a.c.c", "*"]


# get_dir (path, -1) / stat (path, -1): directories of the fixture only (the mudlib root also holds the other
# properties' files), listings and patterns
GD1 = ["/d", "/d/", "/d/.", "/d/*", "/d/*.c", "/d/?.txt", "/d/f*", "/d/sub", "/d/sub/", "/d/sub/*", "/a/", "/a/a*", "/a/aa/",
       "/a/*", "/d/nofile", "/d/no/deep/*", "/d/f.txt", "/../*", "/d/\\f.txt", "/d/*/", "/d//", "/d/x*", "/d/.*", "/d/??*",
       "/d/*b*", "/a/a?", "/d/sub/.*"]
EFUN1X = ["get_dir1", "stat1"]


def pad(n, head="/d", tail="sub"):
    """an absolute LPC path whose approved form (without the leading slash) is exactly n characters long and names
    head/tail of the fixture: the padding are repeated slashes (a legal path; no component exceeds NAME_MAX)"""
    k = n - (len(head) - 1) - len(tail)
    return head + "/" * max(k, 1) + tail


def long_cases():
    """boundary sizes of the C path buffers: MAX_PATH_LEN = 1024 (get_dir), 1281 = sizeof temppath / newfrom / newto,
    MAXFNAME = 256 (ed)"""
    L = []
    gd = []
    for n in (1023, 1024, 1025, 1026, 1279, 1280, 1281, 1282, 1400):
        for tail in ("sub", "sub/", "f.txt", "*", "nofile", "sub/.", "x/secret"):
            gd.append(pad(n, "/d", tail))
    L.append(("long-get_dir", ["fx get_dir " + br(p_) for p_ in gd]))
    L.append(("long-get_dir1", ["fx get_dir1 " + br(p_) for p_ in gd]))
    L.append(("long-stat1", ["fx stat1 " + br(p_) for p_ in gd[::3]]))
    rn = []
    for n in (1279, 1280, 1281, 1282, 1300, 2000):
        rn.append((pad(n, "/d", "sub/"), "/d/new"))            # existing directory, trailing slash stripped
        rn.append((pad(n, "/d", "sub//"), "/d/new"))
        rn.append(("/" + "a" * (n - 1) + "/", "/d/new"))        # nothing exists: the copy happens all the same
        rn.append((pad(n, "/d", "sub"), "/d/new"))              # no trailing slash: no copy
    for n in (1270, 1274, 1275, 1276, 1280, 1281, 1300):
        rn.append(("/d/f.txt", pad(n, "/d", "sub")))             # into a directory: newto = to + "/" + "f.txt"
        rn.append(("/d/f.txt", pad(n, "/d", "sub/")))
    for e in ("rename", "link", "cp"):
        L.append(("long-" + e, ["fx %s %s %s" % (e, br(a), br(b)) for a, b in rn]))
    one = []
    for n in (255, 256, 1024, 1025, 1281, 3000):
        one += [pad(n, "/d", "f.txt"), pad(n, "/d", "new")]
    for e in ("read_file", "write_file", "rm", "mkdir", "file_size", "save_object", "restore_object", "tail"):
        L.append(("long-" + e, ["fx %s %s" % (e, br(p_)) for p_ in one]))
    es = []
    for n in (253, 254, 255, 256, 257, 300):
        f_ = pad(n, "/d", "f.txt")
        o_ = pad(n, "/d", "out")
        rel = pad(n - 2, "sub", "n")                              # relative: the master prepends "/d/"
        es.append("es %s a:x,w,f,W,x" % br(f_))
        es.append("es [/d/f.txt] a:x,w:%s,e:%s,r:%s,f:%s,W:%s,f,w,x" % (o_, o_, o_, o_, o_))
        es.append("es [/d/f.txt] a:x,w:%s,r:%s,f:%s,f,w,Q" % (rel, rel, rel))
        es.append("es %s w,a:y,w,x" % br(pad(n, "/d", "nofile")))
    L.append(("long-ed", es))
    return L


def br(s):
    return "[" + s + "]"


def pl(pol):
    """first line of a system-style case: the master policy, or the run with the master that lacks the functions"""
    return "master absent" if pol == "ABSENT" else "policy " + pol


class C15(Prop):
    id = "C15"
    title = "File access is confined to the mudlib and always mediated by the master"
    lean_modules = ["NV.C15.Props", "NV.C15.PropsSys", "NV.C15.PropsLen", "NV.C15.Negative", "NV.C15.Sites", "NV.C15.Witness"]
    theorems = ["NV.C15.legalPath_eq_spec", "NV.C15.legal_path_spec", "NV.C15.legal_path_secure",
                "NV.C15.legal_path_safe", "NV.C15.check_valid_path_eq_spec", "NV.C15.check_valid_path_sound",
                "NV.C15.check_valid_path_denied", "NV.C15.strip_name_relative", "NV.C15.load_open_confined",
                "NV.C15.load_probe_confined", "NV.C15.include_path_confined", "NV.C15.inc_dir_ok",
                "NV.C15.include_path_confined_config", "NV.C15.judge_lp_model",
                "NV.C15.judge_cvp_model", "NV.C15.judge_inc_model", "NV.C15.judge_sn_model",
                "NV.C15.model_satisfies_spec", "NV.C15.model_satisfies_spec_absent", "NV.C15.model_satisfies_spec_present",
                "NV.C15.legalLoop_fuel_irrelevant", "NV.C15.load_model_satisfies_spec", "NV.C15.include_model_satisfies_spec",
                "NV.C15.inherit_model_satisfies_spec", "NV.C15.ed_session_satisfies_spec", "NV.C15.ed_session_satisfies_spec_absent", "NV.C15.segOk_edStep",
                "NV.C15.efun_segOk", "NV.C15.fold_ok", "NV.C15.check_valid_path_error_fails_closed",
                "NV.C15.check_valid_path_absent_or_odd_approves", "NV.C15.mediation_propagates_errors", "NV.C15.cvp_call_table", "NV.C15.legal_path_literals",
                "NV.C15.save_tmp_format",
                "NV.C15.mediated_sites", "NV.C15.inventory_covers_efuns", "NV.C15.efun_surface_modelled",
                "NV.C15.ext_callees_classified", "NV.C15.fs_callees_cover", "NV.C15.path_function_literals", "NV.C15.strip_name_literals",
                "NV.C15.efun_libc_table", "NV.C15.binary_model_satisfies_spec", "NV.C15.history_satisfies_spec", "NV.C15.nested_ok", "NV.C15.segOk_askEv", "NV.C15.static_bufs_classified", "NV.C15.inc_list_stores_guarded", "NV.C15.nest_single_ok", "NV.C15.judge_il_model",
                "NV.C15.include_path_confined_any_config",
                "NV.C15.buffer_sizes", "NV.C15.buffer_guards_present", "NV.C15.getdir_path_not_truncated",
                "NV.C15.getdir_entry_fits", "NV.C15.getdir_long_path_refused", "NV.C15.ed_getfn_exact",
                "NV.C15.rename_newfrom_fits", "NV.C15.rename_copy_fits", "NV.C15.segOk_entryStats", "NV.C15.segOk_move",
                "NV.C15.segOk_cpTail", "NV.C15.symlinks_confined", "NV.C15.compsSafe_never_climbs",
                "NV.C15.link_creates_safe_targets"]
    witness_theorems = ["NV.C15.include_normaliser_not_confined", "NV.C15.include_normaliser_trailing_dotdot",
                        "NV.C15.include_normaliser_slash_quirk", "NV.C15.include_unguarded_escapes",
                        "NV.C15.include_unguarded_escapes_dotdot", "NV.C15.include_empty_dir_absolute",
                        "NV.C15.include_normaliser_quirk_duplicates"]
    consts = [("pathMax", "PATH_MAX"), ("maxObjectNameSize", "MAX_OBJECT_NAME_SIZE"),
              ("saveExtLen", "(sizeof SAVE_EXTENSION) - 1"), ("saveExtDot", "SAVE_EXTENSION[0]"),
              ("saveExtO", "SAVE_EXTENSION[1]")]
    const_headers = ["lib/efuns/options.h", "lpc/object.h"]
    quick_n = 120
    thorough_n = 1500
    search_n = 300
    design_ref = "5/C15"
    technique = ("Lean 4 proof (structural induction over all strings; segment invariants over structured events) about "
                 "executable models of the path filter and of every file efun incl. their C buffer lengths + translator-"
                 "generated tables (clang AST call-site inventory, check_valid_path call table, literal fingerprints, "
                 "buffer sizes and length guards, external callee list) decided in Lean + unit- and system-style "
                 "model/implementation correspondence with libc interposed")
    level_text = ("Lean 4 theorems, for ALL strings / policies / file-system contents, about an executable model of legal_path, "
                  "check_valid_path, strip_name, inc_lexically_normal+inc_open, load_object name handling and of the 24 file "
                  "efun entry points (incl. get_dir/stat with flag -1, rename/link/cp into directories, save/restore_object, "
                  "the ed efun and its file commands): legal_path accepts exactly the relative paths without '#', without a "
                  "'..' component and with '.' only last; every path returned by check_valid_path, opened by load_object or "
                  "#include is relative and free of '..'; the oracle accepts the model trace of every efun call, every HISTORY "
                  "of calls and every editing session incl. the net-dead save, for every master policy including RE-ENTRANT "
                  "masters whose valid_read / valid_write call file efuns themselves (nested calls have their own approvals: "
                  "nested_ok) (model_satisfies_spec, history_satisfies_spec: each libc call is preceded by an approval of the right kind of exactly "
                  "that path or a listed derivation of it); no path is cut after its approval and every path copy fits its C "
                  "buffer (sizes and guards regenerated from the source); symbolic links created by link() have safe targets "
                  "and expansion through such links stays confined. Regenerated on every run and decided in Lean: the "
                  "inventory of every libc file call in lib/efuns, lib/lpc/object.c, src/simulate.c, lib/lpc/lex.c, "
                  "binaries.c (each path argument flows from check_valid_path / a PRECEDING legal_path / inc_open or is on a "
                  "justified allow-list), the libc function each function calls, every check_valid_path call's operation and "
                  "write flag, the literals of 5 string functions, buffer sizes / guard expressions (incl. inc_open's scan and "
                  "fallback), every static character array of these files (none may carry a path across the master apply), "
                  "every store into inc_list (guarded by a preceding legal_path), and the list of external "
                  "char*-taking callees (fail closed). The model is tied to the source by an exhaustive differential run of "
                  "the real functions over {a . / #}^<=7 (quick) / <=9 (thorough) and by system-style runs of every file "
                  "efun x path set (incl. lengths at the buffer boundaries) x master policy with libc interposed; the Lean "
                  "oracle judges every implementation trace")
    level_note = ("trusted: Lean kernel; tools/c15_sites.py (clang AST walk; 'flows syntactically' as defined in its "
                  "docstring: textual precedence of the legal_path guard, no path-sensitive dominance); props/c15.py "
                  "gen_buffers (regex over declarations and guard texts); the correspondence harness (agreement only on "
                  "generated inputs); saved binaries (SaveBinaryDir, #pragma save_binary) are OBSERVED only: the harness "
                  "prints libc calls on unsafe paths and whether the binary exists, the call sequence of binaries.c is not "
                  "modelled; symbolic links are not followed in a run (theorem symlinks_confined states what is promised)")
    rule = ("cases = corpus + known-finding inputs (incl. the witnesses of the 13 repaired defects) + boundary (every file "
            "efun x curated path set x master policies; get_dir/stat with flag -1 over listings and wildcard patterns; paths "
            "of 1023..1026 / 1279..1282 / 1400 / 2000 characters through get_dir, rename, link, cp and the one-path efuns; "
            "editor file names of 253..257 / 300 characters; read-then-write sequences; #include / inherit / load_object "
            "names; #pragma save_binary objects with SaveBinaryDir) + EXHAUSTIVE batches of all strings over {a . / #} up "
            "to length 7 (quick) / 9 (thorough) through legal_path, check_valid_path (allow, echo), strip_name and the "
            "include normaliser (3 including files) + seeded random long paths, efun calls, editing sessions and object "
            "names; one batch case carries up to 4096 strings; master policies: deny, allow, echo, fixed (legal / illegal / "
            "absolute / empty / longer than the buffers), raise, raiseon, odd return types, read-only, write-only, per-path "
            "read-only, RE-ENTRANT masters (valid_read / valid_write call read_file / file_size / tail / write_file on another path, "
            "then allow / deny / rewrite / raise ...), and a master without valid_read/valid_write; editing sessions incl. the "
            "net-dead save (D:name); every branch of the efun models is hit (evidence "
            "histogram.branches); a case is non-trivial when its trace has >= 2 lines; distinct = distinct canonical trace")
    not_covered = ["symbolic links are not FOLLOWED in a run (link() targets are judged; symlinks_confined is the theorem); "
                   "links placed in the mudlib by the administrator are outside the statement",
                   "SaveBinaryDir / #pragma save_binary (binaries.c): observed (unsafe paths, binary exists) but its call "
                   "sequence is not modelled and not judged for mediation (no master consultation exists there)",
                   "do_move's EXDEV fallback (copy + unlink) is inventoried, not executed",
                   "re-entrant masters: the nested call is one of read_file / file_size / tail / write_file, one level deep "
                   "(the master asked by its own call answers 1); nested get_dir / rename / ed are not generated",
                   "the valid_link consultation of link() is compared (order, arguments) but not judged",
                   "Windows branches (':' test of legal_path, O_TEXT, FindFirstFile) are not compiled here",
                   "handle_include's buf[1024] / include depth (C02) and log file names (lib/logger, configuration) are not "
                   "part of this check",
                   "listing the mudlib ROOT with flag -1 is compared only for the fixture's entries (the root holds the "
                   "framework's own files)"]
    trusted = ["tools/c15_sites.py (call-site inventory translator)"]

    # ---- A: generated table ---------------------------------------------------
    def gen_extra(self, ctx, bdir):
        sys.path.insert(0, os.path.join(E.VERIF, "tools"))
        import c15_sites
        import re
        m = re.search(r"^#define\s+INC_BUF_SIZE\s+(\d+)", open(os.path.join(E.REPO, "lib/lpc/lex.c")).read(), re.M)
        if not m:
            raise X.TieBroken("const:INC_BUF_SIZE", "lib/lpc/lex.c no longer defines INC_BUF_SIZE")
        head = "/-- lib/lpc/lex.c: `#define INC_BUF_SIZE` -/\ndef incBufSize : Nat := %s\n\n" % m.group(1)
        head += self.gen_buffers()
        try:
            res = c15_sites.analyze(E.REPO, bdir, E.include_flags(bdir))
        except c15_sites.SitesError as e:
            raise X.TieBroken("sites:" + str(getattr(e, "site", "?")), "call-site inventory failed: %s" % e)
        # efun surface: every efun implementation that reaches a file-system call must be exercised by the harness
        self.fs_efuns = list(res["fsEfuns"])
        missing = sorted(set(self.fs_efuns) - set("f_" + e for e in self.exercised()))
        if missing:
            raise X.TieBroken("efun-surface:" + ",".join(missing),
                              "efun implementation(s) %s reach a file-system call (call graph of the inventory) but the "
                              "C15 harness / model does not exercise them" % missing)
        return head + c15_sites.render(res)

    def gen_buffers(self):
        """sizes of the C path buffers and the limits they are guarded with, read from the working tree:
        macros (`#define X <int>`), `char name[expr]` declarations inside the named function (expr = sum of
        macros / integers) and the guard expressions themselves (the exact source text of the comparison must be
        present in the function: a changed operator or operand breaks the tie, the search stage then looks for an
        input at the boundary sizes)."""
        import re

        def src(rel):
            try:
                return open(os.path.join(E.REPO, rel)).read()
            except OSError:
                raise X.TieBroken("buffers:" + rel, "cannot read " + rel)

        def macro(text, rel, name):
            m = re.search(r"^#define\s+%s\s+(\d+)\b" % name, text, re.M)
            if not m:
                raise X.TieBroken("const:" + name, "%s no longer defines %s as an integer" % (rel, name))
            return int(m.group(1))

        def body(text, rel, fn):
            m = re.search(r"\b%s\s*\([^();{}]*\)\s*\{" % fn, text)
            if not m:
                raise X.TieBroken("buffers:" + fn, "function %s not found in %s" % (fn, rel))
            e = re.search(r"^\}", text[m.end():], re.M)
            return text[m.end(): m.end() + (e.start() if e else 0)]

        def size(btext, fn, var, env):
            ms = re.findall(r"\bchar\s+%s\s*\[([^\]]+)\]" % var, btext)
            if not ms:
                raise X.TieBroken("buffers:%s.%s" % (fn, var), "declaration `char %s[..]` not found in %s" % (var, fn))
            vals = set()
            for ex in ms:
                tot = 0
                for t in ex.split("+"):
                    t = t.strip()
                    if t.isdigit():
                        tot += int(t)
                    elif t in env:
                        tot += env[t]
                    else:
                        raise X.TieBroken("buffers:%s.%s" % (fn, var), "cannot evaluate the size `%s`" % ex)
                vals.add(tot)
            if len(vals) != 1:
                raise X.TieBroken("buffers:%s.%s" % (fn, var), "several declarations with different sizes %s" % sorted(vals))
            return vals.pop()

        fu = src("lib/efuns/file_utils.c")
        edc = src("lib/efuns/ed.c")
        edh = src("lib/efuns/ed.h")
        env = {"MAX_PATH_LEN": macro(fu, "file_utils.c", "MAX_PATH_LEN"),
               "MAX_FNAME_SIZE": macro(fu, "file_utils.c", "MAX_FNAME_SIZE"),
               "MAXFNAME": macro(edh, "ed.h", "MAXFNAME")}
        lx = src("lib/lpc/lex.c")
        b_io = body(lx, "lex.c", "inc_open")
        bn = src("lib/lpc/program/binaries.c")
        b_sb, b_lb = body(bn, "binaries.c", "save_binary"), body(bn, "binaries.c", "load_binary")
        b_gd, b_rn, b_cp, b_fn, b_es = (body(fu, "file_utils.c", "get_dir"), body(fu, "file_utils.c", "do_rename"),
                                        body(fu, "file_utils.c", "copy_file"), body(edc, "ed.c", "getfn"),
                                        body(edc, "ed.c", "ed_start"))
        defs = [("maxPathLen", env["MAX_PATH_LEN"], "file_utils.c: `#define MAX_PATH_LEN`"),
                ("maxFnameSize", env["MAX_FNAME_SIZE"], "file_utils.c: `#define MAX_FNAME_SIZE`"),
                ("edMaxFname", env["MAXFNAME"], "ed.h: `#define MAXFNAME` (= `sizeof file` of getfn, `sizeof P_FNAME`)"),
                ("getDirTemppathSize", size(b_gd, "get_dir", "temppath", env), "get_dir: `char temppath[..]`"),
                ("getDirRegexppathSize", size(b_gd, "get_dir", "regexppath", env), "get_dir: `char regexppath[..]`"),
                ("renameNewfromSize", size(b_rn, "do_rename", "newfrom", env), "do_rename: `char newfrom[..]`"),
                ("renameNewtoSize", size(b_rn, "do_rename", "newto", env), "do_rename: `char newto[..]`"),
                ("cpNewtoSize", size(b_cp, "copy_file", "newto", env), "copy_file: `char newto[..]`"),
                ("edFileSize", size(b_fn, "getfn", "file", env), "getfn: `static char file[..]`"),
                ("saveBinaryNameSize", size(b_sb, "save_binary", "file_name_buf", env), "save_binary: `char file_name_buf[..]`"),
                ("loadBinaryNameSize", size(b_lb, "load_binary", "file_name_buf", env),
                 "load_binary: `char file_name_buf[..]` (two names: each gets one half)")]
        # the guards, as source text (whitespace-insensitive); name -> (function body, text)
        guards = [("get_dir", b_gd, "strlen (path) > MAX_PATH_LEN"),
                  ("get_dir", b_gd, "strncpy (temppath, path, MAX_FNAME_SIZE + MAX_PATH_LEN + 1)"),
                  ("get_dir", b_gd, 'if (strcmp (de->d_name, ".") == 0 || strcmp (de->d_name, "..") == 0)'),
                  ("do_rename", b_rn, "n >= (ptrdiff_t) sizeof (newfrom)"),
                  ("do_rename", b_rn, 'snprintf (newto, sizeof(newto), "%s/%s", to, cp) >= (int)sizeof(newto)'),
                  ("copy_file", b_cp, 'snprintf (newto, sizeof (newto), "%s/%s", to, cp) >= (int) sizeof (newto)'),
                  ("getfn", b_fn, "strlen (P_FNAME) + 1 >= MAXFNAME"),
                  ("getfn", b_fn, "cp >= file + MAXFNAME - 1"),
                  ("getfn", b_fn, "strlen (file2) >= MAXFNAME"),
                  ("getfn", b_fn, "strncpy (file, ret->u.string, sizeof file - 1)"),
                  ("ed_start", b_es, "strncpy (P_FNAME, file_arg, MAXFNAME - 1)"),
                  # inc_open: what is normalised, what is tested, what the ".." scan runs over, what the fallback opens
                  ("inc_open", b_io, "inc_lexically_normal (current_file, name, buf)"),
                  ("inc_open", b_io, "legal_path (buf)"),
                  ("inc_open", b_io, "strlen (current_file) + strlen (name) + 2 > INC_BUF_SIZE"),
                  ("inc_open", b_io, "strlen (inc_list[i]) + strlen (name) + 2 > INC_BUF_SIZE"),
                  ("inc_open", b_io, "for (p = strchr (name, '.'); p; p = strchr (p + 1, '.'))"),
                  ("inc_open", b_io, 'sprintf (buf, "%s/%s", inc_list[i], name)'),
                  ("save_binary", b_sb, "strlen (CONFIG_STR (__SAVE_BINARIES_DIR__)) + strlen (prog->name) + 2 > sizeof (file_name_buf)"),
                  ("load_binary", b_lb, "strlen (CONFIG_STR (__SAVE_BINARIES_DIR__)) + strlen (name) + 2 > sizeof (file_name_buf) / 2"),
                  ("load_binary", b_lb, "strlen (CONFIG_STR (__SAVE_BINARIES_DIR__)) + strlen (buf) + 2 > sizeof (file_name_buf) / 2")]
        squeeze = lambda t: re.sub(r"\s+", "", t)
        rows = []
        for fn, btext, g in guards:
            n = squeeze(btext).count(squeeze(g))
            rows.append((fn, g, n))
        out = "".join("/-- %s -/\ndef %s : Nat := %d\n\n" % (doc, nm, v) for nm, v, doc in defs)
        out += ("/-- length guards of the path buffers found in the source (function, source text, occurrences) -/\n"
                "def lengthGuards : List (String × String × Nat) := [\n" +
                ",\n".join("  (%s, %s, %d)" % ('"%s"' % f,
                                                '"%s"' % g.replace("\\", "\\\\").replace('"', '\\"'), n)
                           for f, g, n in rows) + "]\n\n")
        return out

    def exercised(self):
        return EFUN1 + EFUN2 + EFUNS + ["ed"]      # get_dir1 / stat1 are f_get_dir / f_stat with the flag -1

    def extra_checks(self, ctx, tier, rng):
        """run-time side of `inventory_covers_efuns`: each efun of the surface was really called in this run and its
        implementation reached libc at least once"""
        probs = []
        touched = getattr(self, "touched", None)
        if touched is None or ctx.tier == "replay":
            return probs
        for f in getattr(self, "fs_efuns", []):
            e = f[2:]
            if touched.get(e, 0) == 0:
                probs.append({"kind": "tie-broken", "name": "efun-surface:" + f,
                              "detail": "efun %s reaches the file system but no libc file call was observed for it in this run" % e})
        return probs

    # ---- C ------------------------------------------------------------------
    def prepare(self, ctx):
        self.exe = E.compile_harness("c15", [os.path.join(E.VERIF, "harness/c15/c15.c")], extra=("-ldl",))
        self.fresh_mudlib(ctx)

    def fresh_mudlib(self, ctx):
        """a pristine copy of the verification mudlib: the harness remembers what the mudlib root contains when it
        starts (everything else is removed before each efun call), so a second harness run must not inherit the
        files the previous one left behind"""
        self.conf = E.make_mudlib(ctx.rundir, master="/c15/master.c")
        for junk in ("outside.txt", "x.c", "a"):
            try:
                os.unlink(os.path.join(ctx.rundir, junk))
            except OSError:
                pass
        # include search path "/include:/" : the second entry is the mudlib directory itself (stored as ".")
        t = open(self.conf).read()
        t = "\n".join("IncludeDir\t/include:/" if l.startswith("IncludeDir") else l for l in t.splitlines()) + "\n"
        open(self.conf, "w").write(t)

    def run_impl(self, ctx, cases):
        self.fresh_mudlib(ctx)
        binc = [c for c in cases if c.lines and c.lines[0] == "binaries on"]
        cases = [c for c in cases if not (c.lines and c.lines[0] == "binaries on")]
        normal = [c for c in cases if not (c.lines and c.lines[0] == "master absent")]
        absent = [c for c in cases if c.lines and c.lines[0] == "master absent"]
        res = E.run_harness(self.exe, self.conf, normal, ctx.rundir, args=("--timeout", "120")) if normal else {}
        if absent:
            # second harness process: a master object WITHOUT valid_read / valid_write
            self.fresh_mudlib(ctx)
            conf2 = self.conf + ".absent"
            open(conf2, "w").write(open(self.conf).read().replace("/c15/master.c", "/c15/master_absent.c"))
            res.update(E.run_harness(self.exe, conf2, absent, ctx.rundir, args=("--timeout", "120")))
        if binc:
            # third harness process: SaveBinaryDir configured (#pragma save_binary is honoured)
            self.fresh_mudlib(ctx)
            conf3 = self.conf + ".bin"
            open(conf3, "w").write(open(self.conf).read() + "SaveBinaryDir\t/bin\n")
            res.update(E.run_harness(self.exe, conf3, binc, ctx.rundir, args=("--timeout", "120")))
        if len(cases) > 50:          # the main evaluation (not a shrink / replay round)
            touched = {}
            for lines in res.values():
                cur = None
                for l in lines:
                    if l.startswith("call "):
                        cur = l.split()[1]
                    elif l.startswith("fs ") and cur:
                        touched[cur] = touched.get(cur, 0) + 1
            self.touched = touched
        return res

    # ---- generators ------------------------------------------------------------
    def boundary(self):
        B = []

        def mk(name, lines):
            B.append(E.Case("b-" + name, lines, {"origin": "boundary"}))
        mk("unit-basics", ["ulp1 " + br(s) for s in ["", ".", "..", "a/..", "../a", "a/../b", "..a", "a..", "...", "./a",
                                                      "a/.", "a/./b", "/a", "a#b", "a//..", ".../..", "a/..b/.c", "a/.//",
                                                      "a/" * 300 + "..", "x" * 2000]] +
           ["ucvp1 %s %s" % (p, br(s)) for p in ["allow", "echo", "deny", "fixed=[/a/../b]", "fixed=[/ok/path]", "fixed=[]",
                                                 "fixed=[//abs]", "fixed=[/]"]
            for s in ["/d/f", "", "/", "//etc", "/../x", "d/./f", "/d/."]] +
           ["usn1 " + br(s) for s in ["//a/b.c.c", "a//b", ".c", "x.c", "/", "", "a.c.cc", "/.c.c", "abc"]] +
           ["uinc1 %s %s" % (br(b), br(n)) for b in INC_BASES for n in INC_NAMES] +
           ["uil1 " + br(l) for l in ["/include", "/include:/", "/", ":", "::", "/a:/b:/c", "/..:/ok", "a/../b:x", "//abs:/d",
                                      "/include:", ":/include", "/a#b:/c", "/./x:/y/.", "x" * 300 + ":/y", "/include:/sys:/d/sub"]])
        for pol in POL_FULL + POL_FEW + POL_ERR + POL_KIND + ["ABSENT"]:
            mk("edsession-%s" % pol, [pl(pol)] + ["es %s %s" % (br(f), c) for f, c in SESSIONS])
            paths = P1 if pol in POL_FULL else ["/d/f.txt", "/d/sub", "/../outside.txt", "", "/d/nofile"]
            for e in EFUN1:
                mk("%s-%s" % (e, pol), [pl(pol)] + ["fx %s %s" % (e, br(p)) for p in paths])
            for e in EFUNS:
                mk("%s-%s" % (e, pol), [pl(pol)] + ["fx %s %s" % (e, br(p)) for p in PSAVE])
            pairs = [(a, b) for a in P2 for b in P2] if pol in POL_FULL else [("/d/f.txt", "/d/new"), ("/d/f.txt", "/d/sub"),
                                                                              ("/../x", "/d/new"), ("/d", "/a")]
            mk("ed-%s" % pol, [pl(pol)] + ["fx ed %s %s" % (br(a), br(b)) for a, b in PED])
            for e in EFUN2:
                mk("%s-%s" % (e, pol), [pl(pol)] + ["fx %s %s %s" % (e, br(a), br(b)) for a, b in pairs])
        for pol in POL_NEST:
            mk("nest-1-%s" % pol[8:28], [pl(pol)] + ["fx %s %s" % (e, br(p)) for e in EFUN1 + EFUN1X
                                                     for p in ["/d/f.txt", "/d/sub", "/../outside.txt", "/d/nofile"]])
            mk("nest-2-%s" % pol[8:28], [pl(pol)] + ["fx %s %s %s" % (e, br(a), br(b)) for e in EFUN2
                                                     for a, b in [("/d/f.txt", "/d/new"), ("/d/f.txt", "/d/sub"), ("/d", "/a")]] +
               ["fx %s %s" % (e, br(p)) for e in EFUNS for p in PSAVE[:5]])
            mk("nest-ed-%s" % pol[8:28], [pl(pol)] + ["es %s %s" % (br(f), c) for f, c in SESSIONS[:6] + SESSIONS[12:14]])
        for pol in POL_FULL + POL_FEW + ["ro", "wo", "raise", "odd=[neg]", "ABSENT"]:
            for e in EFUN1X:
                mk("%s-%s" % (e, pol), [pl(pol)] + ["fx %s %s" % (e, br(p)) for p in GD1])
        for name, lines in long_cases():
            for pol in ["allow", "echo", "fixed=" + br(pad(300, "/d", "f.txt")), "fixed=" + br(pad(1300, "/d", "sub/")), "ABSENT"]:
                if pol.startswith("fixed") and name not in ("long-ed", "long-get_dir1", "long-rename", "long-cp"):
                    continue
                mk("%s-%s" % (name, pol[:12]), [pl(pol)] + (lines if pol in ("allow", "echo") else lines[::2]))
        # the same object, the same path, first read then written (an approval must not be remembered across calls)
        mk("seq-read-then-write", ["policy ro", "fx read_file [/d/f.txt]", "fx write_file [/d/f.txt]", "fx file_size [/d/sub]",
                                   "fx mkdir [/d/sub]", "fx rmdir [/d/sub]", "fx read_file [/d/f.txt]", "fx rm [/d/f.txt]",
                                   "fx get_dir [/d/sub]", "fx rename [/d/sub] [/d/sub]", "policy ropath=[/d/f.txt]",
                                   "fx read_bytes [/d/f.txt]", "fx write_bytes [/d/f.txt]", "fx cp [/d/f.txt] [/d/f.txt]",
                                   "fx restore_object [/d/f.txt.o]", "fx save_object [/d/f.txt.o]", "policy allow",
                                   "fx read_file [/d/f.txt]", "policy deny", "fx read_file [/d/f.txt]", "fx write_file [/d/f.txt]"])
        mk("include", ["inc %s %s" % (br(b), br(n)) for b in INC_BASES for n in INC_NAMES])
        mk("include-angle", ["inca %s %s" % (br(b), br(n)) for b in INC_BASES[1:] for n in INC_NAMES if "//" not in n])   # `//` starts a comment there
        mk("include-macro", ["incm %s %s" % (br(b), br(n)) for b in INC_BASES[:2] for n in INC_NAMES])
        for i, n in enumerate(INH_NAMES):
            mk("inherit-%d" % i, ["inh [t/y.c] " + br(n)])
        mk("load", ["ld " + br(n) for n in INH_NAMES + ["/a/a.c", "d/obj.c.c", "/t/none", "a/"]])
        mk("binaries", ["binaries on"] + ["ldb " + br(n) for n in BIN_NAMES])
        return B

    def batches(self, maxlen):
        out = []

        def chunks(tag, fmt, lo, hi):
            for ln in range(lo, hi + 1):
                tot = len(ALPHA) ** ln
                for frm in range(0, tot, CHUNK):
                    out.append(E.Case("x-%s-%d-%d" % (tag, ln, frm), [fmt % (ALPHA, ln, frm, min(CHUNK, tot - frm))],
                                      {"origin": "exhaustive"}))
        chunks("lp", "ulp %s %d %d %d", 0, maxlen)
        chunks("sn", "usn %s %d %d %d", 0, maxlen)
        chunks("cvp-allow", "ucvp allow %s %d %d %d", 0, maxlen)
        chunks("cvp-echo", "ucvp echo %s %d %d %d", 0, maxlen)
        chunks("cvp-deny", "ucvp deny %s %d %d %d", 0, 3)
        chunks("cvp-fixed", "ucvp fixed=[/a/../a] %s %d %d %d", 0, 2)
        chunks("cvp-raise", "ucvp raise %s %d %d %d", 0, 3)
        chunks("cvp-raiseon", "ucvp raiseon=[a/.] %s %d %d %d", 0, 3)
        chunks("cvp-odd", "ucvp odd=[float0] %s %d %d %d", 0, 4)
        for i, b in enumerate(INC_BASES):
            chunks("inc%d" % i, "uinc " + br(b) + " %s %d %d %d", 0, maxlen)
        # set_inc_list: every configuration string over {a . / :} up to length 6 (quick) / 7 (thorough)
        for ln in range(0, maxlen - 1):
            tot = 4 ** ln
            for frm in range(0, tot, CHUNK):
                out.append(E.Case("x-il-%d-%d" % (ln, frm), ["uil a./: %d %d %d" % (ln, frm, min(CHUNK, tot - frm))],
                                  {"origin": "exhaustive"}))
        # system level: every include name over {a . /} up to length 4 from a file in a sub-directory
        names = [""]
        allnames = []
        for ln in range(1, 5):
            names = [n + c for n in names for c in "a./"]
            allnames += names
        allnames = [n for n in allnames if n not in ("x.c",)]
        for i in range(0, len(allnames), 40):
            out.append(E.Case("x-sysinc-%d" % i, ["inc [t/x.c] " + br(n) for n in allnames[i:i + 40]], {"origin": "exhaustive"}))
        return out

    def rand_path(self, rng, maxc=8, lead=True):
        n = rng.range(1, maxc)
        s = "/".join(rng.choice(COMPS) for _ in range(n))
        if lead and rng.chance(3, 4):
            s = "/" + s
        if rng.chance(1, 8):
            s += "/"
        return s

    def rand_nested(self, rng):
        g = rng.choice(["read_file", "file_size", "tail", "write_file"])
        p = "/aa" if g == "write_file" else rng.choice(["/a/a", "/d/f.txt", "/d", "/d/inc.h", "/d/nofile", "/../outside.txt", "/aa", "/d/sub"])
        k = rng.choice(["allow", "allow", "echo", "deny", "ro", "wo", "raise", "fixed,/d/f.txt", "fixed,/../x", "odd,float0"])
        return "nested=[%s,%s,%s]" % (g, p, k)

    def rand_sys_path(self, rng):
        k = rng.below(10)
        if k < 5:
            return rng.choice(P1 + P2)
        comps = ["d", "a", "aa", "sub", "f.txt", "obj.c", "..", ".", "", "new", "a.c", "x*"]
        s = "/" + "/".join(rng.choice(comps) for _ in range(rng.range(1, 4)))
        return s + ("/" if rng.chance(1, 6) else "")

    def generate(self, rng, n, tier):
        out = []
        if tier != "search":
            out += self.batches(9 if tier == "thorough" else 7)
        for i in range(n):
            lines = []
            k = rng.below(3)
            if k == 0:      # long random strings through the pure functions
                for _ in range(40):
                    s = self.rand_path(rng, 12)
                    if rng.chance(1, 10):
                        s = s + "/" + "y" * rng.range(100, 600)
                    pol = rng.choice(["allow", "echo", "deny", "raise", "odd=[array]", "fixed=" + br(self.rand_path(rng, 4)),
                                      "raiseon=" + br(s)])
                    lines += ["ulp1 " + br(s), "usn1 " + br(s), "ucvp1 %s %s" % (pol, br(s))]
                    nm = self.rand_path(rng, 6, lead=rng.chance(1, 4))
                    base = rng.choice(INC_BASES + ["a/b/c/d.c", "sub/..x/y.c"])
                    lines.append("uinc1 %s %s" % (br(base), br(nm[:100])))
            elif k == 1:    # efun calls
                pol = rng.choice(POL_FULL * 3 + POL_FEW + POL_ERR + POL_KIND + POL_NEST + [self.rand_nested(rng)] * 2 +
                                 ["ABSENT", "fixed=" + br(self.rand_sys_path(rng)),
                                                                     "raiseon=" + br(self.rand_sys_path(rng))])
                absent = pol == "ABSENT"
                lines.append(pl(pol))
                for _ in range(12):
                    j = rng.below(10)
                    if j < 2:
                        pth = rng.choice(GD1) if rng.chance(2, 3) else "/" + "/".join(
                            rng.choice(["d", "a", "aa", "sub", "*", "?", "f*", "*.c", "", "."]) for _ in range(rng.range(1, 3)))
                        if pth.strip("/.*?") == "":
                            pth = "/d/*"
                        lines.append("fx %s %s" % (rng.choice(EFUN1X), br(pth)))
                    elif j < 3 and rng.chance(1, 2):
                        n_ = rng.choice([255, 256, 1024, 1025, 1280, 1281, rng.range(200, 2500)])
                        pth = pad(n_, rng.choice(["/d", "/a", "/d/sub"]), rng.choice(["sub", "sub/", "f.txt", "new", "*", "a/"]))
                        if rng.chance(1, 2):
                            lines.append("fx %s %s" % (rng.choice(EFUN1 + EFUN1X), br(pth)))
                        else:
                            q_ = self.rand_sys_path(rng)
                            a_, b_ = (pth, q_) if rng.chance(1, 2) else (q_, pth)
                            lines.append("fx %s %s %s" % (rng.choice(EFUN2), br(a_), br(b_)))
                    elif j < 6:
                        lines.append("fx %s %s" % (rng.choice(EFUN1), br(self.rand_sys_path(rng))))
                    elif j < 9:
                        lines.append("fx %s %s %s" % (rng.choice(EFUN2 + ["ed"]), br(self.rand_sys_path(rng)), br(self.rand_sys_path(rng))))
                    else:
                        p = self.rand_sys_path(rng)
                        if len(p) >= 4:
                            lines.append("fx %s %s" % (rng.choice(EFUNS), br(p)))
                    if rng.chance(1, 6) and not absent:
                        lines.append("policy " + rng.choice(POL_FULL + POL_FEW + POL_ERR + POL_NEST + [self.rand_nested(rng)]))
            elif k == 2 and rng.chance(1, 2):    # editing sessions
                pol = rng.choice(POL_FULL + POL_KIND * 2 + POL_FEW + POL_ERR + POL_NEST + ["ABSENT"])
                lines.append(pl(pol))
                names = ["/d/f.txt", "/d/out", "/d/sub/n", "/d/nofile", "out2", "/d", "/d/../x", "/a/a", "/../outside.txt", "/d/obj.c"]
                for _ in range(6):
                    cs = []
                    for _ in range(rng.range(1, 8)):
                        c = rng.choice(["a", "e", "E", "f", "r", "w", "W", "w", "x", "q", "Q", "w", "D"])
                        if c == "a":
                            cs.append("a:t%d" % rng.below(9))
                        elif c == "D":
                            cs.append("D:" + rng.choice(names + ["/../x", "//abs/x", "/d/..", "/d/dead", "/a/../b", "/d/sub/x"]))
                        elif c in ("x", "q", "Q") or rng.chance(1, 2):
                            cs.append(c)
                        elif rng.chance(1, 8):
                            cs.append(c + ":" + pad(rng.choice([254, 255, 256, 257, rng.range(200, 400)]), "/d", rng.choice(["out", "f.txt", "sub/n"])))
                        else:
                            cs.append(c + ":" + rng.choice(names))
                    lines.append("es %s %s" % (br(rng.choice(names)), ",".join(cs)))
            else:           # include names
                for _ in range(10):
                    comps = ["..", ".", "", "a", "d", "inc.h", "std.h", "include", "t", "x"]
                    nm = "/".join(rng.choice(comps) for _ in range(rng.range(1, 5)))
                    if rng.chance(1, 4):
                        nm = "/" + nm
                    if nm in ("x.c", "t/x.c", "/t/x.c", "./x.c") or nm.endswith("x.c"):
                        continue
                    kind = rng.choice(["inc", "inc", "inca", "incm"])
                    if kind == "inca" and "//" in nm:     # `#include <a//b>`: the lexer takes `//` for a comment
                        kind = "inc"
                    lines.append("%s %s %s" % (kind, br(rng.choice(["t/x.c", "t/u/x.c"])), br(nm)))
            out.append(E.Case("g%d" % i, lines, {"origin": "generated"}))
        for i in range(max(1, n // 40)):     # saved binaries: random object names
            names = []
            for _ in range(8):
                nm = "/".join(rng.choice(["d", "a", "aa", "sub", "new", "b", "b.c", "..", ".", "", "x#y", "..b", "obj"])
                              for _ in range(rng.range(1, 4)))
                if nm.strip("/.") == "":
                    nm = "d/b"
                names.append(("/" if rng.chance(3, 4) else "") + nm)
            out.append(E.Case("gb%d" % i, ["binaries on"] + ["ldb " + br(x) for x in names], {"origin": "generated"}))
        return out

    def mutate_around(self, case, rng, n):
        return self.generate(rng, max(10, n // 3), "search")

    def histogram(self, cases, impl):
        h = {"strings_legal": 0, "strings_illegal": 0, "cvp_returned": 0, "cvp_refused": 0, "cvp_error": 0,
             "include_lines": 0, "efun_calls": 0, "master_calls": 0, "master_denials": 0, "master_raises": 0,
             "master_rewrites": 0, "master_odd": 0, "absent_master_cases": 0, "fs_calls": 0, "fs_write_calls": 0}
        br = {}     # model branches: efun -> shape of the libc calls of one call segment -> count

        def close(efun, shape):
            if efun is not None:
                d = br.setdefault(efun, {})
                k = ",".join(shape) or "-"
                d[k] = d.get(k, 0) + 1
        for c in cases:
            cur, shape, approved = None, [], None
            for l in impl.get(c.id, []):
                if l.startswith("lp "):
                    h["strings_legal" if l.endswith(" 1") else "strings_illegal"] += 1
                elif l.startswith("cvp "):
                    h["cvp_error" if l.endswith("!err") else "cvp_refused" if l.endswith("none") else "cvp_returned"] += 1
                elif l.startswith("inc "):
                    h["include_lines"] += 1
                elif l == "master absent":
                    h["absent_master_cases"] += 1
                elif l.startswith("call "):
                    close(cur, shape)
                    t = l.split()
                    cur = t[1] if t[1] != "ed" else "ed:" + t[3].strip("[]")
                    shape = []
                    h["efun_calls"] += 1
                elif l.startswith("valid_"):
                    h["master_calls"] += 1
                    v = l.rsplit("-> ", 1)[-1]
                    if v == "0":
                        h["master_denials"] += 1
                    elif v == "raise":
                        h["master_raises"] += 1
                    elif v.startswith("="):
                        h["master_rewrites"] += 1
                    elif v.startswith("odd"):
                        h["master_odd"] += 1
                    approved = l.split()[1]
                elif l.startswith("fs "):
                    h["fs_calls"] += 1
                    t = l.split()
                    if t[2] == "w":
                        h["fs_write_calls"] += 1
                    # derived = the touched path is not literally the path the master was last asked about
                    der = "" if approved is None or t[3].strip("[]") == approved.strip("[]").lstrip("/") else "~"
                    shape.append(t[1] + der)
            close(cur, shape)
        h["branches"] = {k: dict(sorted(v.items(), key=lambda kv: -kv[1])[:12]) for k, v in sorted(br.items())}
        return h


PROP = C15()
