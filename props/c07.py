"""C07 - calls reach the right function and respect visibility, whatever came before.

Case language (the same lines go to harness/c07 and to `nvdrive C07`):
  prog <pK> <item>...     abstract source of one generated LPC program (see lean/NV/C07/Drive.lean)
  names <n>...            function names used by the case (interned before the tables are dumped)
  ld <oid> <pK>           load program pK as an object
  dump <oid>...           dump the real program tables
  call <origin> <oid> <fn>      origin: co | com | drv | cot | rco
  cold                    clear_apply_cache()
  evict <oid> <fn>        force a collision in the cache slot of (<oid>'s program, <fn>)
The plugin writes the LPC files of every case into the run's mudlib copy (/c07/g/<case>/pK.c) and rewrites
`ld o pK` into `ld o /c07/g/<case>/pK` for the harness.
"""
import hashlib
import json
import os
import re
import shutil
import subprocess
import time

from nvlib import engine as E
from nvlib.check import Prop
from nvlib.extract import TieBroken

MODS = ["-", "static", "private", "protected", "public"]
def _vh_t0():
    """the start of the harness' virtual clock, read from harness/common/vh.h (not a copy)"""
    m = re.search(r"#define\s+VH_T0\s+(\d+)", open(os.path.join(E.VERIF, "harness/common/vh.h")).read())
    if not m:
        raise TieBroken("harness:VH_T0", "VH_T0 not found in harness/common/vh.h")
    return int(m.group(1))


VH_T0 = _vh_t0()


# --------------------------------------------------------------------------------------------
# abstract graph helpers (python mirror of the language rules, used only to GENERATE valid programs)

class AProg:
    def __init__(self, name):
        self.name = name
        self.items = []          # ("i", mods, parent) | ("p", mods, fn) | ("d", mods, fn, [calls])

    def inherits(self):
        return [(it[1], it[2]) for it in self.items if it[0] == "i"]

    def has_w(self):
        return any(it[0] == "v" for it in self.items)

    def defs(self):
        return {it[2]: it for it in self.items if it[0] == "d"}

    def line(self):
        out = []
        for it in self.items:
            if it[0] == "d":
                out.append("d:%s:%s:%s" % (it[1], it[2], "+".join(it[3]) or "-"))
            elif it[0] == "v":
                out.append("v:%s" % it[1])
            else:
                out.append("%s:%s:%s" % it)
        return "prog %s %s" % (self.name, " ".join(out))


def resolve(g, p, fn):
    """path of inherit indices to the definition reached by a call by name, or None"""
    P = g[p]
    if fn in P.defs():
        return []
    inh = P.inherits()
    for k in range(len(inh) - 1, -1, -1):
        r = resolve(g, inh[k][1], fn)
        if r is not None:
            return [k] + r
    return None


def visible_names(g, p):
    """name -> (modifier set incl. 'hidden', has a body somewhere?) as the compiler of program p sees it;
    mirrors copy_function / overload_function / define_new_function on the level of names"""
    info = {}
    P = g[p]
    ms = lambda m: set(x for x in m.split("_") if x != "-")
    for it in P.items:
        if it[0] == "i":
            sub = visible_names(g, it[2])
            for fn, (mset, real) in sub.items():
                f = set(mset)
                if "private" in f:
                    f.add("hidden")
                f |= ms(it[1])
                if "public" in f:
                    f.discard("private")
                if not real:
                    # an inherited prototype never replaces anything, but it is copied (with its modifiers) when new
                    if fn not in info:
                        info[fn] = (f, False)
                    continue
                info[fn] = (f, True)
        elif it[0] == "d":
            info[it[2]] = (ms(it[1]), True)
        elif it[0] == "p" and it[2] not in info:
            info[it[2]] = (ms(it[1]), False)
    return info


def depth(g, p):
    inh = g[p].inherits()
    return 1 + max([depth(g, q) for _, q in inh] or [0])


def arity(fn):
    """number of parameters of a generated function: fK has K mod 3 (the same rule is in Build.lean / Spec.lean)"""
    return (int(re.sub(r"\D", "", fn) or 0) % 3) if fn.startswith("f") else 0


def lpc_source(g, P, base, savebin=False):
    fnum = lambda f: int(re.sub(r"\D", "", f) or 0)
    params = lambda f: ", ".join("int a%d" % i for i in range(arity(f)))
    largs = lambda f: ", ".join(str(11 + i) for i in range(arity(f)))        # local / :: calls pass exactly the parameters
    out = (["#pragma save_binary"] if savebin else []) + ['#include "/include/vcommon.h"']
    var_done = False
    n_inh = len(P.inherits())
    seen_inh = 0
    has_w = any(it[0] == "v" for it in P.items)
    vdecl = "int v_%s;" % P.name + ("\nprivate int w;" if has_w else "")
    for it in P.items:
        if it[0] == "v":
            continue
        if it[0] == "i":
            mods = "" if it[1] == "-" else it[1].replace("_", " ") + " "
            out.append('%sinherit "%s/%s";' % (mods, base, it[2]))
            seen_inh += 1
            continue
        if seen_inh == n_inh and not var_done:
            out.append(vdecl)
            var_done = True
        mods = "" if it[1] == "-" else it[1].replace("_", " ") + " "
        if it[0] == "p":
            out.append("%sstring %s(%s);" % (mods, it[2], params(it[2])))
        else:
            calls = []
            for c in it[3]:
                if c[0] == "L":
                    calls.append("%s(%s);" % (c[1:], largs(c[1:])))
                elif c[0] == "F":       # three arguments whatever the function takes: surplus / missing ones are normalised
                    calls.append("evaluate((: %s :), 21, 22, 23);" % c[1:])
                elif c[0] == "G":       # the pointer is evaluated by ANOTHER object (with 21, 22, 23 as well)
                    calls.append('"/c07/caller"->do_eval((: %s :));' % c[1:])
                elif c[0] == "H":       # a functional whose body makes the local call
                    calls.append("evaluate((: %s(%s) :));" % (c[1:], largs(c[1:])))
                elif c[0] == "O":       # `(: f() :)` is made and STORED in the other object
                    calls.append('"/c07/caller"->stash((: %s(%s) :));' % (c[1:], largs(c[1:])))
                elif c == "N":          # the functional this object stored (if any) is fetched back and evaluated HERE
                    calls.append('evaluate("/c07/caller"->get_stash());')
                elif c[0] == "I":       # ... evaluated by the other object
                    calls.append('"/c07/caller"->do_eval((: %s(%s) :));' % (c[1:], largs(c[1:])))
                else:
                    par, fn = c[1:].split(".")
                    sup = "%s::%s(%s)" % ("" if par == "*" else par, fn, largs(fn))
                    if c[0] == "J":     # the `::` call inside a functional / an anonymous function, evaluated here
                        if (fnum(fn) + fnum(it[2])) % 2:
                            calls.append("evaluate(function () { return %s; });" % sup)
                        else:
                            calls.append("evaluate((: %s :));" % sup)
                    elif c[0] == "K":   # ... evaluated by another object: only the pointer knows the creator's offsets;
                        # directly, or as the callback of an efun (map_array / filter_array) running there
                        how = ("do_eval", "do_map", "do_filter")[(fnum(fn) + fnum(it[2]) + fnum(P.name)) % 3]
                        calls.append('"/c07/caller"->%s((: %s :));' % (how, sup))
                    elif c[0] == "M":   # ... stored; some other function of this object evaluates it later (N)
                        calls.append('"/c07/caller"->stash((: %s :));' % sup)
                    else:
                        calls.append("%s;" % sup)
            code = (fnum(P.name) + 1) * 100 + fnum(it[2])
            wset = "w = %d; " % (code + 5000) if has_w else ""
            alog = ('VL("args" + %s); ' % " + ".join('" " + a%d' % i for i in range(arity(it[2])))) if arity(it[2]) else ""
            out.append('%sstring %s(%s) { VL("run %s:%s " + v_%s); %sv_%s = %d; %s%s return "%s:%s"; }'
                       % (mods, it[2], params(it[2]), P.name, it[2], P.name, alog, P.name, code, wset, " ".join(calls),
                          P.name, it[2]))
    if not var_done:
        out.append(vdecl)
    return "\n".join(out) + "\n"


def parse_graph(lines):
    g = {}
    order = []
    for l in lines:
        t = l.split()
        if t and t[0] == "prog" and len(t) >= 2:
            P = AProg(t[1])
            for it in t[2:]:
                f = it.split(":")
                if f[0] == "d" and len(f) == 4:
                    P.items.append(("d", f[1], f[2], [] if f[3] == "-" else f[3].split("+")))
                elif f[0] in ("i", "p") and len(f) == 3:
                    P.items.append((f[0], f[1], f[2]))
                elif f[0] == "v" and len(f) == 2:
                    P.items.append(("v", f[1]))
            g[P.name] = P
            order.append(P.name)
    return g, order


# --------------------------------------------------------------------------------------------
# T4 for C07: the body of function_visible() (src/apply.c) is regenerated from the clang AST into NV/Gen/C07.lean.
# Grammar accepted:  { switch (<param>) { (case K:)+ stmt* }* [default: stmt*]  }  return <int>; }
#   stmt   ::=  break; | return <int>; | if (<expr>) return <int>;           (a non-empty group must end in break/return)
#   expr   ::=  <param> | <int> | expr & expr | expr | expr | (expr) | !expr | expr == expr | expr != expr | expr && expr | expr || expr
# Anything else is a broken tie (TieBroken) -> search stage.

def _ast_of_function(bdir, relsrc, fn):
    src = os.path.join(E.REPO, relsrc)
    cmd = ["clang-14", "-Xclang", "-ast-dump=json", "-Xclang", "-ast-dump-filter=" + fn, "-fsyntax-only",
           "-DHAVE_CONFIG_H", "-D_GNU_SOURCE", "-D" + E.GUARD, "-w"] + E.include_flags(bdir) + [src]
    p = subprocess.run(cmd, capture_output=True, text=True)
    if p.returncode != 0:
        raise TieBroken("ast:" + fn, "clang cannot parse %s: %s" % (relsrc, p.stderr[-800:]))
    dec = json.JSONDecoder()
    s, i, found = p.stdout, 0, None
    while i < len(s):
        while i < len(s) and s[i].isspace():
            i += 1
        if i >= len(s):
            break
        o, i = dec.raw_decode(s, i)
        if o.get("kind") == "FunctionDecl" and o.get("name") == fn and any(
                c.get("kind") == "CompoundStmt" for c in o.get("inner", [])):
            found = o
    if found is None:
        raise TieBroken("fn:" + fn, "function %s with a body not found in %s" % (fn, relsrc))
    return found


def _strip(n):
    while n.get("kind") in ("ParenExpr", "ImplicitCastExpr", "ConstantExpr", "CStyleCastExpr") and n.get("inner"):
        n = n["inner"][-1]
    return n


def _expr(n, params, site):
    """C expression -> (lean text, is_bool)"""
    n = _strip(n)
    k = n.get("kind")
    if k == "IntegerLiteral":
        return str(int(n["value"])), False
    if k == "DeclRefExpr":
        nm = (n.get("referencedDecl") or {}).get("name")
        if isinstance(params, dict) and nm in params:
            return params[nm], False
        if nm in params:
            return nm, False
        raise TieBroken(site, "reference to %s is outside the grammar" % nm)
    if k == "MemberExpr" and isinstance(params, dict) and n.get("name") == "function_index_offset" \
            and "inherit[mid].fio" in params:
        base = _strip(n["inner"][0])
        if base.get("kind") == "ArraySubscriptExpr":
            ix = _strip(base["inner"][1])
            if ix.get("kind") == "DeclRefExpr" and (ix.get("referencedDecl") or {}).get("name") == "mid":
                return params["inherit[mid].fio"], False
        raise TieBroken(site, "function_index_offset of something else than inherit[mid]")
    if k == "MemberExpr" and isinstance(params, dict):
        base = _strip(n["inner"][0])
        key = "%s->%s" % ((base.get("referencedDecl") or {}).get("name"), n.get("name"))
        if key in params:
            return params[key], False
        raise TieBroken(site, "member access %s is outside the grammar" % key)
    if k == "UnaryOperator" and n.get("opcode") == "!":
        t, b = _expr(n["inner"][0], params, site)
        return ("(!%s)" % t) if b else ("(%s == 0)" % t), True
    if k == "BinaryOperator":
        op = n.get("opcode")
        (a, ab), (b, bb) = _expr(n["inner"][0], params, site), _expr(n["inner"][1], params, site)
        tob = lambda t, isb: t if isb else "(%s != 0)" % t
        if op in ("&", "|", "^", ">>", "<<", "+", "-") and not ab and not bb:
            return "(%s %s %s)" % (a, {"&": "&&&", "|": "|||", "^": "^^^", ">>": ">>>", "<<": "<<<", "+": "+", "-": "-"}[op], b), False
        if op in ("==", "!=", "<", ">", "<=", ">=") and not ab and not bb:
            return "(%s %s %s)" % (a, {"==": "==", "!=": "!=", "<": "<", ">": ">", "<=": "≤", ">=": "≥"}[op], b), True
        if op == "/" and not ab and not bb:
            return "(%s / %s)" % (a, b), False
        if op in ("&&", "||"):
            return "(%s %s %s)" % (tob(a, ab), op, tob(b, bb)), True
    raise TieBroken(site, "expression node %s %s is outside the grammar" % (k, n.get("opcode", "")))


def gen_function_visible(bdir):
    site = "guard:function_visible"
    fn = _ast_of_function(bdir, "src/apply.c", "function_visible")
    params = [c["name"] for c in fn["inner"] if c.get("kind") == "ParmVarDecl"]
    body = [c for c in fn["inner"] if c.get("kind") == "CompoundStmt"][0].get("inner", [])
    if len(params) != 2 or len(body) != 2 or body[0].get("kind") != "SwitchStmt" or body[1].get("kind") != "ReturnStmt":
        raise TieBroken(site, "function_visible is no longer `switch (..) {..} return k;`")

    def ret_val(r):
        v = _strip(r["inner"][0])
        if v.get("kind") != "IntegerLiteral":
            raise TieBroken(site, "return of a non-literal")
        return "true" if int(v["value"]) != 0 else "false"

    after = ret_val(body[1])
    sw = body[0]["inner"]
    cond, _ = _expr(sw[0], params, site)
    if cond != params[0]:
        raise TieBroken(site, "switch is not on the first parameter")
    groups = []          # (labels or None for default, [stmts])
    for st in sw[-1].get("inner", []):
        k = st.get("kind")
        if k in ("CaseStmt", "DefaultStmt"):
            labels = []
            cur = st
            while cur.get("kind") in ("CaseStmt", "DefaultStmt"):
                if cur["kind"] == "CaseStmt":
                    lab = _strip(cur["inner"][0])
                    if lab.get("kind") != "IntegerLiteral":
                        raise TieBroken(site, "case label is not an integer constant")
                    labels.append(int(lab["value"]))
                    cur = cur["inner"][-1]
                else:
                    labels.append(None)
                    cur = cur["inner"][-1]
            if groups and groups[-1][1] and groups[-1][1][-1].get("kind") not in ("BreakStmt", "ReturnStmt"):
                raise TieBroken(site, "fall-through out of a non-empty case group")
            if groups and not groups[-1][1]:
                labels = groups.pop()[0] + labels
            groups.append((labels, [cur]))
        else:
            if not groups:
                raise TieBroken(site, "statement before the first case label")
            groups[-1][1].append(st)

    def stmts(sts):
        if not sts:
            return after
        st = sts[0]
        k = st.get("kind")
        if k == "BreakStmt":
            return after
        if k == "ReturnStmt":
            return ret_val(st)
        if k == "IfStmt" and len(st["inner"]) == 2 and st["inner"][1].get("kind") == "ReturnStmt":
            c, isb = _expr(st["inner"][0], params, site)
            c = c if isb else "(%s != 0)" % c
            return "(if %s then %s else %s)" % (c, ret_val(st["inner"][1]), stmts(sts[1:]))
        raise TieBroken(site, "statement %s is outside the grammar" % k)

    default = after
    lines = []
    for labels, sts in groups:
        if None in labels:
            default = stmts(sts)
        real = [l for l in labels if l is not None]
        if real:
            lines.append(("(" + " || ".join("%s == %d" % (params[0], l) for l in real) + ")", stmts(sts)))
    text = "/-- GENERATED from the clang AST of `function_visible` (src/apply.c): the origin / flags decision of apply_low -/\n"
    text += "def functionVisibleGen (%s %s : Nat) : Bool :=\n" % (params[0], params[1])
    for c, r in lines:
        text += "  if %s then %s else\n" % (c, r)
    text += "  %s\n" % default
    return text



def _walk(n):
    yield n
    for c in n.get("inner", []) or []:
        if isinstance(c, dict):
            yield from _walk(c)


def gen_apply_hash(bdir):
    """the cache slot computation of apply_low: `ix = (<hash>) & cache_mask;` and `static int cache_mask = <init>;`"""
    site = "guard:apply_low-hash"
    fn = _ast_of_function(bdir, "src/apply.c", "apply_low")
    mask_init = None
    for n in _walk(fn):
        if n.get("kind") == "VarDecl" and n.get("name") == "cache_mask" and n.get("inner"):
            mask_init, b = _expr(n["inner"][-1], {}, site)
            if b:
                raise TieBroken(site, "cache_mask initialiser is a truth value")
    if mask_init is None:
        raise TieBroken(site, "`cache_mask` with an initialiser not found in apply_low")
    rhs = []
    for n in _walk(fn):
        if n.get("kind") == "BinaryOperator" and n.get("opcode") == "=":
            lhs = _strip(n["inner"][0])
            if lhs.get("kind") == "DeclRefExpr" and (lhs.get("referencedDecl") or {}).get("name") == "ix":
                rhs.append(n["inner"][1])
    if len(rhs) != 1:
        raise TieBroken(site, "expected exactly one assignment to `ix` in apply_low, found %d" % len(rhs))
    text, b = _expr(rhs[0], {"progp->id_number": "id", "fun": "ptr", "cache_mask": "cacheMaskGen"}, site)
    if b:
        raise TieBroken(site, "hash is a truth value")
    out = "/-- GENERATED from the clang AST of `apply_low` (src/apply.c): `static int cache_mask = ...` -/\n"
    out += "def cacheMaskGen : Nat := %s\n" % mask_init
    out += "/-- GENERATED from the clang AST of `apply_low`: the right-hand side of `ix = ...` (id = progp->id_number, ptr = (intptr_t) fun) -/\n"
    out += "def slotOfGen (id ptr : Nat) : Nat := %s\n" % text
    return out


def gen_find_masks(bdir):
    """the two flag tests of find_function on the entry the binary search found"""
    site = "guard:find_function-flags"
    fn = _ast_of_function(bdir, "src/apply.c", "find_function")
    masks = []
    for n in _walk(fn):
        if n.get("kind") == "IfStmt":
            c = _strip(n["inner"][0])
            if c.get("kind") == "BinaryOperator" and c.get("opcode") == "&":
                l = _strip(c["inner"][0])
                if l.get("kind") == "DeclRefExpr" and (l.get("referencedDecl") or {}).get("name") == "flags":
                    t, b = _expr(c["inner"][1], {}, site)
                    thenk = n["inner"][1].get("kind")
                    masks.append((t, thenk))
    if len(masks) != 2 or masks[0][1] != "CompoundStmt" or masks[1][1] != "BreakStmt":
        raise TieBroken(site, "find_function no longer has `if (flags & M) { if (flags & B) break; return 0; }` (found %s)" % masks)
    out = "/-- GENERATED from the clang AST of `find_function`: entries with one of these bits are not a local definition -/\n"
    out += "def findSkipMaskGen : Nat := %s\n" % masks[0][0]
    out += "/-- GENERATED: with this bit the search goes on in the inherits (`break`), otherwise `return 0` -/\n"
    out += "def findBreakMaskGen : Nat := %s\n" % masks[1][0]
    return out


def gen_find_func_entry_loop(bdir):
    """the search loop of find_func_entry (lib/lpc/program.c) that rebuilds an omitted runtime entry from the inherit list:
    loop condition, `mid`, and the if-chain of the body (comparisons, assignments to first / last, early exits)"""
    site = "guard:find_func_entry-loop"
    fn = _ast_of_function(bdir, "lib/lpc/program.c", "find_func_entry")
    loops = [n for n in _walk(fn) if n.get("kind") == "WhileStmt"]
    if len(loops) != 1:
        raise TieBroken(site, "expected one while loop in find_func_entry, found %d" % len(loops))
    cond_n, body = loops[0]["inner"][0], loops[0]["inner"][1]
    env = {"first": "first", "last": "last", "index": "index", "inherit[mid].fio": "s"}
    cond, cb = _expr(cond_n, env, site)
    if not cb:
        raise TieBroken(site, "loop condition is not a comparison")
    stmts = body.get("inner", []) if body.get("kind") == "CompoundStmt" else [body]
    mid = None
    rest = []
    for st in stmts:
        if st.get("kind") == "DeclStmt":
            for v in st.get("inner", []):
                if v.get("kind") != "VarDecl" or not v.get("inner"):
                    raise TieBroken(site, "declaration without initialiser in the loop")
                t, b = _expr(v["inner"][-1], env, site)
                if b:
                    raise TieBroken(site, "truth value stored in a loop variable")
                if v["name"] == "mid":
                    mid = t
                    env["mid"] = "mid"
                else:
                    env[v["name"]] = t          # e.g. `int start = prog->inherit[mid].function_index_offset;`
        else:
            rest.append(st)
    if mid is None:
        raise TieBroken(site, "`mid` is not declared in the loop")

    def run(st, state):
        """state = (first', last', break) as Lean texts; returns the Lean text of the resulting triple"""
        k = st.get("kind")
        if k == "CompoundStmt":
            return seq(st.get("inner", []), state)
        if k == "IfStmt":
            c, isb = _expr(st["inner"][0], env, site)
            c = c if isb else "(%s != 0)" % c
            th = run(st["inner"][1], state)
            el = run(st["inner"][2], state) if len(st["inner"]) > 2 else "(%s, %s, %s)" % state
            return "(if %s then %s else %s)" % (c, th, el)
        if k == "BinaryOperator" and st.get("opcode") == "=":
            l = _strip(st["inner"][0])
            nm = (l.get("referencedDecl") or {}).get("name")
            v, b = _expr(st["inner"][1], env, site)
            if b or nm not in ("first", "last"):
                raise TieBroken(site, "assignment to %s in the loop is outside the grammar" % nm)
            f, la, br = state
            return "(%s, %s, %s)" % ((v, la, br) if nm == "first" else (f, v, br))
        if k == "BreakStmt":
            return "(%s, %s, true)" % state[:2]
        raise TieBroken(site, "statement %s in the loop is outside the grammar" % k)

    def seq(sts, state):
        # straight-line sequences of assignments / break; an `if` must be the last statement of its sequence
        for i, st in enumerate(sts):
            r = run(st, state)
            if st.get("kind") in ("IfStmt", "CompoundStmt"):
                if i != len(sts) - 1:
                    raise TieBroken(site, "statements after an if inside the loop body")
                return r
            m = re.match(r"^\((.*), (.*), (true|false)\)$", r)
            # r is a plain triple: continue from it
            depth, parts, cur = 0, [], ""
            for ch in r[1:-1]:
                if ch == "(":
                    depth += 1
                if ch == ")":
                    depth -= 1
                if ch == "," and depth == 0:
                    parts.append(cur.strip())
                    cur = ""
                else:
                    cur += ch
            parts.append(cur.strip())
            state = tuple(parts)
        return "(%s, %s, %s)" % state

    step = seq(rest, ("first", "last", "false"))
    return ("/-- GENERATED from the clang AST of find_func_entry (lib/lpc/program.c): the condition of its search loop -/\n"
            "def ffeCondGen (first last : Nat) : Bool := %s\n"
            "/-- GENERATED: `int mid = ...` -/\n"
            "def ffeMidGen (first last : Nat) : Nat := %s\n"
            "/-- GENERATED: the body of the loop as (first', last', break); s = prog->inherit[mid].function_index_offset -/\n"
            "def ffeStepGen (first last mid s index : Nat) : Nat × Nat × Bool := %s\n" % (cond, mid, step))


def gen_compress_consts(bdir):
    """the literals of compress_function_tables / find_func_entry: the marker byte, the counter value at which the loop
    overflows, the counter value it continues with"""
    site = "guard:compress-literals"

    def lit(n):
        n = _strip(n)
        return int(n["value"]) if n.get("kind") == "IntegerLiteral" else None

    markers, overflow, jafter = [], [], []
    for rel, fname in (("lib/lpc/compiler.c", "compress_function_tables"), ("lib/lpc/program.c", "find_func_entry")):
        fn = _ast_of_function(bdir, rel, fname)
        for n in _walk(fn):
            if n.get("kind") != "BinaryOperator" or n.get("opcode") not in ("=", "=="):
                continue
            l, r = _strip(n["inner"][0]), lit(n["inner"][1])
            if r is None:
                continue
            lname = (l.get("referencedDecl") or {}).get("name")
            if l.get("kind") == "ArraySubscriptExpr" or (n["opcode"] == "==" and l.get("kind") == "BinaryOperator" and l.get("opcode") == "="):
                markers.append(r)
            elif lname == "j" and n["opcode"] == "==":
                overflow.append(r)
            elif lname == "j" and n["opcode"] == "=" and r != 0:
                jafter.append(r)
    # find_func_entry writes `(fidx = prog->function_compressed->index[idx]) == 255`: the left side is an assignment
    if len(markers) < 4 or len(set(markers)) != 1 or len(overflow) != 1 or len(jafter) != 1:
        raise TieBroken(site, "marker / overflow literals of the compressed table changed shape: markers=%s overflow=%s j=%s"
                        % (markers, overflow, jafter))
    return ("/-- GENERATED from the clang AST of compress_function_tables / find_func_entry: the marker byte of an omitted entry -/\n"
            "def cmpMarkerGen : Nat := %d\n"
            "/-- GENERATED: `if (j == K)` — the counter value at which the byte index overflows -/\n"
            "def cmpOverflowAtGen : Nat := %d\n"
            "/-- GENERATED: `j = K` in the overflow branch -/\n"
            "def cmpJAfterOverflowGen : Nat := %d\n" % (markers[0], overflow[0], jafter[0]))


class C07(Prop):
    id = "C07"
    title = "calls reach the right function and respect visibility, whatever came before"
    lean_modules = ["NV.C07.Props", "NV.C07.Witness", "NV.C07.OracleTests", "NV.C07.LemmasCompress", "NV.C07.Tie", "NV.C07.LemmasBinary", "NV.C07.LemmasBuild3", "NV.C07.LemmasBinary2", "NV.C07.LemmasArgs", "NV.C07.LemmasFrames", "NV.C07.LemmasReuse"]
    theorems = ["NV.C07.visibility_table", "NV.C07.visibility_any_flags", "NV.C07.visibility_lifted",
                "NV.C07.driver_origins_never_refused", "NV.C07.bsearch_correct", "NV.C07.find_function_correct",
                "NV.C07.find_offsets_are_path_sums", "NV.C07.cache_transparent_step", "NV.C07.cache_transparent",
                "NV.C07.frame_offsets_correct", "NV.C07.call_other_origin_is_call_other", "NV.C07.call_origin_consumed",
                "NV.C07.built_alias_flags_agree", "NV.C07.built_flags_agree", "NV.C07.built_inherits_in_world", "NV.C07.inherit_flags_rule_is_spec",
                "NV.C07.find_func_entry_compress", "NV.C07.compressWith_lookup", "NV.C07.fillGo_spec", "NV.C07.inhSearch_spec",
                "NV.C07.remake_expected", "NV.C07.chaseC_eq_chase",
                "NV.C07.slotOf_formula", "NV.C07.cacheMask_is_size_minus_one", "NV.C07.slotOf_lt", "NV.C07.find_masks_are_source",
                "NV.C07.name_masks_are_source", "NV.C07.cmp_marker_is_byte_max",
                "NV.C07.permute_slot_entry", "NV.C07.permute_ft_mem", "NV.C07.permute_keeps_rest", "NV.C07.sortIdx_isPerm",
                "NV.C07.resort_slot_entry", "NV.C07.inversePerm_getElem", "NV.C07.built_fio_sorted", "NV.C07.built_indices_in_range",
                "NV.C07.cmp_literals_are_source", "NV.C07.inhSearch_is_source", "NV.C07.resort_sorted", "NV.C07.sortIdx_pairwise",
                "NV.C07.setupVariables_length", "NV.C07.setupVariables_get", "NV.C07.setupVariables_is_spec",
                "NV.C07.every_frame_sees_its_own_block", "NV.C07.calleeOf_entered", "NV.C07.applyLow_call_is_find",
                "NV.C07.applyLow_invId", "NV.C07.findFunction_reuse", "NV.C07.invId_reuse", "NV.C07.cache_transparent_across_reuse"]
    witness_theorems = ["NV.C07.Witness.old_cache_not_transparent", "NV.C07.Witness.origin_stored_once_runs_static",
                        "NV.C07.Witness.old_compress_overflow_branch_loses_entries",
                        "NV.C07.Witness.temp_instead_of_inverse_misdispatches",
                        "NV.C07.Witness.no_id_test_answers_from_a_freed_program"]
    consts = [("applyCacheBits", "APPLY_CACHE_BITS"),
              ("nameInherited", "NAME_INHERITED"), ("nameUndefined", "NAME_UNDEFINED"),
              ("namePrototype", "NAME_PROTOTYPE"), ("nameDefByInherit", "NAME_DEF_BY_INHERIT"),
              ("nameAlias", "NAME_ALIAS"), ("nameStrictTypes", "NAME_STRICT_TYPES"), ("nameTrueVarargs", "NAME_TRUE_VARARGS"),
              ("nameVarargs", "NAME_VARARGS"), ("nameHidden", "NAME_HIDDEN"), ("nameStatic", "NAME_STATIC"),
              ("nameNoMask", "NAME_NO_MASK"), ("namePrivate", "NAME_PRIVATE"), ("nameProtected", "NAME_PROTECTED"),
              ("namePublic", "NAME_PUBLIC"),
              ("originDriver", "ORIGIN_DRIVER"), ("originLocal", "ORIGIN_LOCAL"),
              ("originCallOther", "ORIGIN_CALL_OTHER"), ("originSimulEfun", "ORIGIN_SIMUL_EFUN"),
              ("originCallOut", "ORIGIN_CALL_OUT"), ("originEfun", "ORIGIN_EFUN"),
              ("originFunctionPointer", "ORIGIN_FUNCTION_POINTER"), ("originFunctional", "ORIGIN_FUNCTIONAL"),
              ("nameMaskC", "NAME_MASK"), ("nameNoCodeC", "NAME_NO_CODE"),
              ("cmpIndexBytes", "sizeof(((compressed_offset_table_t *)0)->index[0])")]
    const_headers = ["lib/efuns/options.h", "lpc/program.h", "lpc/include/origin.h"]
    quick_n = 1200
    thorough_n = 12000
    search_n = 600
    design_ref = "5/C07"
    technique = ("Lean 4 proof (binary search + inherit recursion vs. reference resolver, cache invariant by induction over "
                 "histories, offset sums along inherit chains, round trip of the compressed runtime function table incl. its "
                 "256-entry overflow branch, permutation invariance of the re-sort after load_binary, argument normalisation) + translator: flag bits / origins / cache size / NAME_MASK / NAME_NO_CODE from a probe, "
                 "function_visible, the cache hash of apply_low, the flag tests of find_function, the search loop of find_func_entry "
                 "and the literals of compress_function_tables from the clang AST, with "
                 "bridging lemmas + three-way correspondence real driver / model-BUILT tables and model-COMPRESSED tables vs the "
                 "dumped real ones / specification on the abstract graph")
    level_text = ("Lean 4 theorems about an executable model of src/apply.c (find_function, function_visible, the apply cache, "
                  "apply_low, the call_origin protocol), src/frame.c (NAME_INHERITED chasing, setup_variables), sort_function_table of "
                  "lib/lpc/program/binaries.c (dispatch by slot unchanged by every permutation, table sorted) and compress_function_tables / "
                  "FIND_FUNC_ENTRY / find_func_entry (every slot read back from the compressed table is the uncompressed entry; "
                  "frames chased through compressed tables equal frames chased through uncompressed ones) for all program tables "
                  "satisfying decidable well-formedness predicates and all call histories, incl. histories in which programs are freed and "
                  "their addresses reused (model only); every frame entered by any call kind has the offsets of its own copy "
                  "(every_frame_sees_its_own_block); the predicates (wfFind, wfSlots, cmpWF, backrefs) "
                  "are evaluated on every real / model-built table; the compiler's table construction is modelled and compared per "
                  "generated program (translation validation) with the alias-flag and inherit-order theorems proved for all programs")
    level_note = ("trusted: Lean kernel; extract.py and the AST translators in props/c07.py; the harness' table dump (tbl through "
                  "FIND_FUNC_ENTRY, cmp = raw compressed_offset_table_t + stored entries) and bytecode operand decoding; the "
                  "correspondence is differential (generated inheritance graphs and call histories, wide programs around the "
                  "255-entry limit of the compressed index only as boundary cases); 16-bit truncation of function indices is not "
                  "modelled (tables have < 65536 slots)")
    rule = ("cases = corpus + boundary list + seeded random inheritance graphs (2-7 programs, some without any function or with "
            "only private / static functions, depth <= 4, up to 3 inherits per "
            "program with private/static/public/protected modifiers, overriding, prototypes before and after inherits, "
            "`::f` / `A::f` / local calls, function pointers, functionals `(: f() :)` / `(: ::f() :)` and anonymous functions evaluated in "
            "place, by ANOTHER object (directly or as map_array / filter_array callbacks), or stored and evaluated later by another "
            "inherit level, in bodies) x "
            "12-45 calls by name from call_other (shared and copied name string), driver apply, call_out-origin apply and real "
            "call_out, with refused and non-existent names, call_other on ARRAY targets (objects, file names, non-objects; the "
            "function at every position) and on FILE NAME targets (loaded / loaded by the call, running create() in between / no "
            "such file), heart_beat ticks, cache clears and forced slot collisions; one case in five saves its programs with "
            "#pragma save_binary and RELOADS everything from the binaries in the middle of the history with the function-name strings "
            "re-created in a random address order; boundary: wide programs around the 255-entry limit of the compressed table, "
            "binary reloads under rotations / a reversal / a 3-cycle / twice, function-less inherits at every position among 2-4 "
            "inherits; every case is run on the real driver, by the model "
            "(tables BUILT and COMPRESSED by the model must equal the dumped real ones, before and after a reload) and by the "
            "specification on the abstract graph; a case is non-trivial when at least one call ran a body")
    not_covered = ["the construction of the function tables (copy_functions, overload_function, define_new_function, epilog, "
                   "copy_and_sort_function_table, operands of local / :: / function-pointer calls) IS modelled (NV/C07/Build.lean) and "
                   "the model-built table must equal the real dumped table of every generated program, but `built_table_wf` and the "
                   "full `built_flags_are_spec_visibility` are NOT proved for all programs: WF and the per-slot agreement with the "
                   "specification are evaluated on every dumped table instead; proved are the epilog alias theorem and the "
                   "one-level flag-inheritance table",
                   "compress_function_tables / FIND_FUNC_ENTRY ARE modelled and the round trip is proved under the decidable cmpWF "
                   "(inherit offsets sorted, an omitted slot names the last inherit not beyond it); that every table the construction "
                   "model builds satisfies cmpWF is evaluated per program (`!cmpwf` marker in the compared cmp line), not proved; "
                   "copy_and_sort_function_table's renumbering INSIDE the compressed layout and the readers in binaries.c / debug.c "
                   "are covered only through the dumped result",
                   "simul_efun dispatch, efun / simul_efun function pointers, bind() and pointer arguments are not exercised; local "
                   "function pointers and functionals evaluated by another object, and the heart_beat origin, are",
                   "argument count normalisation (setup_variables: too few / exact / too many arguments from call_other, applies, "
                   "function pointers) IS modelled and proved equal to the specification; true varargs functions "
                   "(setup_varargs_variables, `mixed *rest...`), argument TYPES and pointer arguments (merge_arg_lists) are not",
                   "program deallocation and reuse of a program_t address while a cache entry still names it (the id test of the hit "
                   "path) IS modelled and proved (cache_transparent_across_reuse, witness without the id test) but NOT compared with "
                   "the real driver: under ASan the quarantine never hands a freed address out again",
                   "find_function_by_name / ffbn_recurse / function_exists (second copy of the search)",
                   "programs loaded from saved binaries: sort_function_table IS modelled (permuteProgram / resortProgram) with "
                   "`permute_slot_entry` / `resort_slot_entry` proved for every permutation, and reloaded programs are compared "
                   "(table, compressed table, dispatch) with a fresh build under the new name order; NOT covered: the other "
                   "fix-ups of load_binary (string switch tables, line numbers, argument types, inherit relinking by name), "
                   "a reload in another driver process, out-of-date / damaged binaries (C17)"]

    def gen_extra(self, ctx, bdir):
        return (gen_function_visible(bdir) + "\n" + gen_apply_hash(bdir) + "\n" + gen_find_masks(bdir) + "\n"
                + gen_compress_consts(bdir) + "\n" + gen_find_func_entry_loop(bdir))

    # ---- implementation side ---------------------------------------------------------------
    def prepare(self, ctx):
        self.exe = E.compile_harness("c07", [os.path.join(E.VERIF, "harness/c07/c07.c")])
        self.conf = E.make_mudlib(ctx.rundir, master="/c07/master.c", extra_conf="SaveBinaryDir /c07bin\n")
        self.mud = os.path.join(ctx.rundir, "mudlib")
        # the harness runs on a VIRTUAL clock (current_time = VH_T0 = 10^9): save_binary() refuses to save a program whose
        # inherited programs were built from files modified after their object's load_time, so every file a generated
        # program is built from (its source, the includes) must be older than the virtual load times
        for root, _, files in os.walk(os.path.join(self.mud, "include")):
            for f in files:
                os.utime(os.path.join(root, f), (VH_T0 - 7200, VH_T0 - 7200))
        self.last_impl = {}

    def _dir_of(self, cid):
        return "k" + hashlib.sha1(cid.encode()).hexdigest()[:12]

    def run_impl(self, ctx, cases):
        hc = []
        for c in cases:
            d = self._dir_of(c.id)
            base = "/c07/g/" + d
            path = os.path.join(self.mud, "c07", "g", d)
            if os.path.exists(path):
                shutil.rmtree(path)
            # binaries saved by an earlier run of a case with this id must never be loaded
            shutil.rmtree(os.path.join(self.mud, "c07bin", "c07", "g", d), ignore_errors=True)
            os.makedirs(path)
            g, order = parse_graph(c.lines)
            savebin = any(l.strip() == "savebin" for l in c.lines)
            old = VH_T0 - 7200          # older than the virtual load times and than any binary written for it
            for n in order:
                fn = os.path.join(path, n + ".c")
                with open(fn, "w") as f:
                    f.write(lpc_source(g, g[n], base, savebin))
                if savebin:
                    os.utime(fn, (old, old))        # well older than any binary written for it
            lines = []
            for l in c.lines:
                t = l.split()
                if t and t[0] == "prog":
                    continue
                if len(t) == 3 and t[0] == "ld" and "/" not in t[2]:
                    l = "ld %s %s/%s" % (t[1], base, t[2])
                if len(t) == 4 and t[0] == "call" and t[1] in ("coa", "cos"):
                    el = ["=%s/%s" % (base, e[1:]) if e.startswith("=") and "/" not in e else e for e in t[2].split(",")]
                    l = "call %s %s %s" % (t[1], ",".join(el), t[3])
                lines.append(l)
            hc.append(E.Case(c.id, lines))
        res = E.run_harness(self.exe, self.conf, hc, ctx.rundir)
        for c in cases:
            shutil.rmtree(os.path.join(self.mud, "c07", "g", self._dir_of(c.id)), ignore_errors=True)
            shutil.rmtree(os.path.join(self.mud, "c07bin", "c07", "g", self._dir_of(c.id)), ignore_errors=True)
        res = {k: self.canon(v) for k, v in res.items()}
        self.last_impl.update(res)
        return res

    def canon(self, lines):
        out = []
        for l in lines:
            l = l.rstrip()
            if not l or l.startswith("err *Error in loading object"):
                continue
            out.append(l)
        return out

    def run_model(self, ctx, cases):
        ms = []
        for c in cases:
            impl = self.last_impl.get(c.id)
            if impl is None:
                impl = self.run_impl(ctx, [c]).get(c.id, [])
            dumped = [l for l in impl if l.split(" ", 1)[0] in ("nm", "tbl", "cmp", "obj", "reload", "binloads") or re.match(r"ld \S+ !fail$", l)]
            ms.append(E.Case(c.id, c.lines + ["--"] + dumped))
        return E.nvdrive(self.id, "model", E.cases_text(ms))

    def nontrivial_key(self, case, out):
        body = [l for l in out if l.split(" ", 1)[0] in ("call", "run", "ret", "err")]
        if not any(l.startswith("run ") for l in body):
            return None
        return hashlib.sha1(("\n".join(case.lines[:1] + body)).encode()).hexdigest()

    # ---- generators ----------------------------------------------------------------------------
    def boundary(self):
        B = []

        def mk(name, lines):
            B.append(E.Case("b-" + name, lines, {"origin": "boundary"}))
        diamond = ["prog p0 d:static:f0:- d:-:f1:-",
                   "prog p1 i:-:p0 d:static:f0:S*.f0 d:-:f2:Lf0+Lf1",
                   "prog p2 i:-:p0 d:static:f0:Sp0.f0 d:private:f3:Ff0",
                   "prog p3 i:-:p1 i:-:p2 d:-:f4:Lf2",
                   "prog p4 i:-:p3 d:-:f5:Lf4"]
        names = "names f0 f1 f2 f3 f4 f5 nosuch"
        # the repaired cache defect: a refused call_other must not poison later driver applies / call_outs
        mk("refused-then-driver", diamond + [names, "ld o3 p3", "dump o3", "call co o3 f0", "call drv o3 f0",
                                             "call cot o3 f0", "call rco o3 f0", "evict o3 f0", "call drv o3 f0"])
        mk("driver-then-refused", diamond + [names, "ld o3 p3", "dump o3", "call drv o3 f0", "call co o3 f0",
                                             "call com o3 f0", "call drv o3 f0", "cold", "call co o3 f0", "call cot o3 f0"])
        # the repaired alias-slot defect: static function inherited through two branches, one level further up
        mk("alias-static-one-level-up", diamond + [names, "ld o3 p3", "ld o4 p4", "dump o3 o4", "call co o3 f0",
                                                   "call co o4 f0", "call drv o4 f0", "call co o4 f3", "call co o4 f5",
                                                   "call rco o4 f0", "call com o4 f1", "call cot o4 nosuch"])
        mk("negative-entry-collision", diamond + [names, "ld o4 p4", "dump o4", "call drv o4 nosuch", "call co o4 nosuch",
                                                  "evict o4 nosuch", "call drv o4 nosuch", "call drv o4 f1", "evict o4 f1",
                                                  "call co o4 f1"])
        # inherit modifiers: private / public / static / protected inherit
        mods = ["prog p0 d:-:f0:- d:private:f1:- d:public:f2:- d:static:f3:- d:protected:f4:-",
                "prog p1 i:private:p0 d:-:f5:Lf0+Lf2",
                "prog p2 i:public:p0 d:-:f5:Lf0",
                "prog p3 i:static:p0 d:-:f5:Lf0+Lf3",
                "prog p4 i:protected:p0 d:-:f5:Lf0+Lf4",
                "prog p5 i:-:p1 d:-:f6:Lf5"]
        calls = []
        for o in ("o1", "o2", "o3", "o4", "o5"):
            for f in ("f0", "f1", "f2", "f3", "f4", "f5"):
                calls += ["call co %s %s" % (o, f), "call drv %s %s" % (o, f)]
        mk("inherit-modifiers", mods + ["names f0 f1 f2 f3 f4 f5 f6", "ld o1 p1", "ld o2 p2", "ld o3 p3", "ld o4 p4",
                                        "ld o5 p5", "dump o1 o2 o3 o4 o5"] + calls)
        # prototypes before / after the inherit, prototype only
        protos = ["prog p0 d:-:f0:- d:static:f1:-",
                  "prog p1 p:-:f0 p:private:f1 i:-:p0 p:-:f2 p:static:f0 d:-:f3:Lf0+Lf1+Lf2",
                  "prog p2 i:-:p1 d:-:f2:- d:-:f4:Lf3"]
        mk("prototypes", protos + ["names f0 f1 f2 f3 f4", "ld o1 p1", "ld o2 p2", "dump o1 o2", "call co o1 f0", "call co o1 f1",
                                   "call drv o1 f1", "call co o1 f2", "call drv o1 f3", "call co o2 f4", "call co o2 f2",
                                   "call drv o1 f2"])
        # f_call_other's target kinds: the restricted function at every position of an array target, string targets
        # (loaded / loaded by the call / no such file), create() running in between
        tk = ["prog p0 d:-:f0:- d:static:f1:- d:-:create:Lf0",
              "prog p1 i:-:p0 d:static:f0:- d:-:f2:-",
              "prog p2 d:protected:f0:- d:static:create:-",
              "prog p3 i:-:p1 d:-:f3:Lf0"]
        seq = ["names f0 f1 f2 f3 create nosuch", "ld o0 p0", "ld o1 p1", "dump o0 o1"]
        for fn in ("f0", "f1", "f2"):
            seq += ["call coa o0,o1 %s" % fn, "call coa o1,o0 %s" % fn, "call coa o0,o0,o1,o0 %s" % fn,
                    "call coa 0,o1,=nofile,o0 %s" % fn]
        seq += ["call cos =p0 f1", "call cos =p1 f0", "call cos =p2 f0", "call drv o0 f1",
                "call coa o0,=p3,o1 f0", "call coa =p3,o0 f3", "call cos =p3 f0", "call cos =nofile f0",
                "call cos =p2 create", "call coa =p2,o0 f1", "call cos =p3 f3"]
        mk("call-other-target-kinds", tk + seq)
        mk("string-target-loads-before-the-call", tk + ["names f0 f1 f2 f3 create", "dump", "call cos =p3 f0", "call cos =p3 f3",
                                                       "call cos =p2 f0", "call coa =p1,=p0 f1", "call coa =p0,=p1 f0"])
        # heart_beat origin: static heart_beat, inherited, overridden, prototype only, none at all
        hbg = ["prog p0 d:-:f0:- d:static:heart_beat:Lf0",
               "prog p1 i:private:p0 d:-:f1:-",
               "prog p2 i:-:p0 d:static:heart_beat:S*.heart_beat",
               "prog p3 p:static:heart_beat d:-:f0:-",
               "prog p4 d:-:f0:-",
               "prog p5 i:-:p1 i:-:p2 d:-:f2:-"]
        seq = []
        for o in ("o0", "o1", "o2", "o3", "o4", "o5"):
            seq += ["call hb %s heart_beat" % o, "call co %s heart_beat" % o, "call drv %s heart_beat" % o]
        mk("heart-beat-origin", hbg + ["names f0 f1 f2 heart_beat"] + ["ld o%d p%d" % (i, i) for i in range(6)]
           + ["dump o0 o1 o2 o3 o4 o5"] + seq)
        # many names on two programs: positive/positive slot collisions in the 2^bits cache
        big0 = "prog p0 " + " ".join("d:%s:f%d:-" % ("static" if i % 3 == 0 else "-", i) for i in range(70))
        big1 = "prog p1 i:-:p0 " + " ".join("d:%s:f%d:%s" % ("private" if i % 4 == 0 else "-", i, "S*.f%d" % i)
                                              for i in range(0, 70, 2))
        nm = "names " + " ".join("f%d" % i for i in range(70))
        seq = []
        for rnd in range(2):
            for i in range(70):
                seq.append("call %s o1 f%d" % ("co" if (i + rnd) % 2 else "drv", i))
                seq.append("call %s o0 f%d" % ("drv" if (i + rnd) % 2 else "co", i))
        mk("many-names-collisions", [big0, big1, nm, "ld o0 p0", "ld o1 p1", "dump o0 o1"] + seq)
        # the compressed function table around its 255-entry limit: a wide base inherited twice (directly and through p1)
        # leaves N stored overload entries in p2; N > 255 takes the overflow branch of compress_function_tables
        # (repaired defect: corpus/C07/compress-overflow-260.case)
        for N in (254, 255, 256, 257, 300):
            mk("compress-wide-%d" % N, self.wide_case(N))
        # inherits that define ZERO functions (variables only) at every position among 2-4 inherits: such an inherit shares
        # its function_index_offset with its successor, and find_func_entry's search over the inherit list has to pick the
        # right one for every omitted slot; also an inherit with only private / static functions
        base = ["prog p0 d:-:f0:- d:-:f1:Lf0", "prog p1 d:-:f2:- d:static:f3:Lf2", "prog p2 d:private:f4:- d:static:f5:Lf4",
                "prog p3 v:private", "prog p4"]
        A, Bq, Cq, Ev, Z = "p0", "p1", "p2", "p3", "p4"
        shapes = [[Ev, A], [A, Ev], [A, Ev, Bq], [Ev, A, Bq], [A, Bq, Ev], [A, Ev, Z, Bq], [Ev, Z, A, Bq], [A, Cq, Ev, Bq], [Z, Ev],
                  [A, Ev, Ev]]
        for k, shp in enumerate(shapes):
            lc = [f for f in ("f0", "f1") if A in shp] + [f for f in ("f2", "f3") if Bq in shp]
            top = "prog p5 " + " ".join("i:-:%s" % q for q in shp) + " d:-:f6:" + ("+".join("L" + f for f in lc) or "-")
            mk("empty-inherit-%d" % k, base + [top, "prog p6 i:-:p5 d:-:f7:Lf6",
                                              "names f0 f1 f2 f3 f4 f5 f6 f7 nosuch", "ld ot p5", "ld ou p6", "dump ot ou"]
               + ["call %s %s %s" % (o, ob, f) for ob in ("ot", "ou") for f in ("f0", "f1", "f2", "f3", "f4", "f6", "f7")
                  for o in ("co", "drv")])
        # programs saved with #pragma save_binary and RELOADED from the binary while their function names live at other
        # addresses: sort_function_table re-sorts the table; rotations (long cycles), a reversal, a 3-cycle, the identity
        fns = ["f%d" % i for i in range(6)]
        bing = ["savebin",
                "prog p0 " + " ".join("d:%s:%s:-" % ("static" if i == 3 else "-", f) for i, f in enumerate(fns))
                + " d:-:f6:" + "+".join("L" + f for f in fns) + " d:static:heart_beat:Lf2+Ff4",
                "prog p1 i:-:p0 p:-:f9 d:-:f2:S*.f2+Lf0 d:private:f4:- d:-:f7:Lf1+Ff3+Lf2+Lf4+Lf6",
                "prog p2 i:-:p0 i:private:p1 d:-:f8:Lf7+Lf2+Sp0.f4 d:-:f0:S*.f0"]
        allf = fns + ["f6", "f7", "f8", "f9", "heart_beat", "nosuch"]
        calls = ["call co o0 f6", "call co o1 f7", "call drv o2 f8", "call co o2 f4", "call co o2 f0", "call hb o0 heart_beat",
                 "call hb o2 heart_beat", "call co o1 f3", "call drv o1 f3", "call co o2 nosuch", "call cos =p1 f7"]
        lds = ["ld o0 p0", "ld o1 p1", "ld o2 p2", "dump o0 o1 o2"]
        perms = {"rot1": allf[1:] + allf[:1], "rot3": allf[3:] + allf[:3], "rev": allf[::-1],
                 "cyc3": [allf[1], allf[2], allf[0]] + allf[3:], "ident": list(allf)}
        for pn, order in perms.items():
            mk("binary-reload-" + pn, bing + ["names " + " ".join(allf)] + lds + calls[:4]
               + ["reload " + " ".join(order)] + lds + calls)
        mk("binary-reload-twice", bing + ["names " + " ".join(allf)] + lds + calls[:3] + ["reload " + " ".join(perms["rot1"])]
           + lds + calls[:5] + ["reload " + " ".join(perms["rot3"])] + lds + calls)
        return B

    @staticmethod
    def wide_case(N, proto_first=True):
        p0 = "prog p0 " + " ".join("d:%s:f%d:-" % ("static" if i % 7 == 3 else "-", i) for i in range(N))
        p1 = "prog p1 i:-:p0 d:-:g0:Lf1 v:private"
        p2 = "prog p2 %si:-:p0 i:-:p1 d:-:h0:Lf0 d:-:h1:Lf%d+Lg0 d:-:h2:Ff%d+S*.f2" % ("p:-:h0 " if proto_first else "", N - 2, N - 1)
        p3 = "prog p3 i:-:p2 d:-:k0:Lh1+Lf%d" % (N // 2)
        names = "names " + " ".join("f%d" % i for i in range(N)) + " g0 h0 h1 h2 k0 nosuch"
        seq = ["ld o2 p2", "ld o3 p3", "dump o2 o3", "call co o2 f0", "call co o2 h0", "call drv o2 h1", "call co o2 h2",
               "call co o3 k0", "call co o3 f3", "call drv o3 f3", "call co o2 f%d" % (N - 1), "call cot o3 f%d" % (N - 1),
               "call co o3 nosuch", "call co o3 g0"]
        return [p0, p1, p2, p3, names] + seq

    def gen_graph(self, rng, allow_empty=True):
        n = rng.weighted([(2, 2), (3, 4), (4, 5), (5, 4), (6, 2), (7, 1)])
        g = {}
        order = []
        fpool = ["f%d" % i for i in range(rng.range(3, 7))]
        if rng.chance(1, 2):
            fpool.append("heart_beat")
        if rng.chance(1, 3):
            fpool.append("create")          # runs when the object is loaded (by ld or by a call_other to its file name)
        for k in range(n):
            P = AProg("p%d" % k)
            cands = [q for q in order if depth(g, q) <= 3]
            ninh = 0 if not cands else rng.weighted([(0, 2 if k else 1), (1, 6), (2, 5), (3, 2)])
            if k == 0:
                ninh = 0
            pars = rng.shuffle(cands)[:ninh]
            items = []
            # prototypes before the inherits (rare)
            for fn in fpool:
                if rng.chance(1, 14):
                    items.append(("p", rng.choice(MODS), fn))
            for q in pars:
                items.append(("i", rng.weighted([("-", 7), ("private", 2), ("public", 1), ("static", 1), ("protected", 1)]), q))
                if rng.chance(1, 10):
                    items.append(("p", rng.choice(MODS), rng.choice(fpool)))
            P.items = items
            g[P.name] = P
            order.append(P.name)
            vis = visible_names(g, P.name)
            fnum = lambda f: 99 if f == "heart_beat" else 98 if f == "create" else int(f[1:])   # these may call the others, never the reverse
            # one program in six defines NO function at all (variables only, possibly only prototypes): as an inherit it
            # contributes no runtime slot and shares its function_index_offset with the next inherit; one in eight has only
            # private / static functions
            ndef = 0 if (allow_empty and n > 1 and rng.chance(1, 6)) else rng.range(1, min(4, len(fpool)))
            only_hidden = rng.chance(1, 8)
            mine = sorted(rng.shuffle(fpool)[:ndef], key=fnum)
            for fn in mine:
                if rng.chance(1, 12):
                    P.items.append(("p", rng.choice(MODS), fn))
                calls = []
                inh = P.inherits()
                if fn == "create":
                    # an error inside create() aborts the load; keep create() bodies call-free (the boundary cases have
                    # a create() that calls)
                    P.items.append(("d", rng.weighted([("-", 6), ("static", 3), ("private", 2), ("protected", 1)]), fn, []))
                    vis = visible_names(g, P.name)
                    continue
                # super calls
                for _ in range(rng.weighted([(0, 5), (1, 5), (2, 1)])):
                    target = fn if rng.chance(4, 5) else rng.choice(fpool)
                    if fnum(target) > fnum(fn):
                        continue
                    kind = rng.weighted([("S", 6), ("J", 2), ("K", 3), ("M", 3)])
                    if rng.chance(1, 2):
                        if any(resolve(g, q, target) is not None for _, q in inh):
                            calls.append("%s*.%s" % (kind, target))
                    else:
                        ok = [q for _, q in inh if resolve(g, q, target) is not None]
                        if ok:
                            calls.append("%s%s.%s" % (kind, rng.choice(ok), target))
                # local calls / function pointers to lower-numbered names the compiler can see
                for _ in range(rng.weighted([(0, 5), (1, 4), (2, 2)])):
                    lower = [f for f in fpool if fnum(f) < fnum(fn) and f in vis and "hidden" not in vis[f][0]
                             and (vis[f][1] or rng.chance(1, 6))]
                    if lower:
                        calls.append(rng.weighted([("L", 12), ("F", 3), ("G", 2), ("H", 1), ("I", 2), ("O", 1)]) + rng.choice(lower))
                # evaluate whatever functional this object has stored (made by this or another inherit level, in this or
                # an earlier call): the evaluating frame's offsets have nothing to do with the creator's
                if rng.chance(1, 4):
                    calls.insert(rng.range(0, len(calls)), "N")
                dm = rng.weighted([("static", 1), ("private", 1)]) if only_hidden else \
                    rng.weighted([("-", 6), ("static", 3), ("private", 2), ("protected", 1), ("public", 1)])
                P.items.append(("d", dm, fn, calls))
                vis = visible_names(g, P.name)
            if rng.chance(1, 8):
                fn = rng.choice(fpool)
                if fn not in P.defs():
                    P.items.append(("p", rng.choice(MODS), fn))
            if rng.chance(2, 5):
                # a private variable with the SAME name `w` at every level that has it
                P.items.append(("v", "private"))
        return g, order, fpool

    def gen_case(self, rng, cid):
        # one case in five saves its programs as binaries and reloads everything in the middle of the history, with the
        # function names re-created in a random address order.  Those cases have no function-less programs: saving / loading
        # the binary of a program without any function makes locate_out / locate_in (binaries.c) do pointer arithmetic on
        # a NULL area pointer, which UBSan reports (`pointer index expression ... overflowed`) - save_binary's subject (C17),
        # noted in notes/C07.md, not a dispatch question
        savebin = rng.chance(1, 5)
        g, order, fpool = self.gen_graph(rng, allow_empty=not savebin)
        lines = [g[n].line() for n in order]
        extra = ["nosuch", "f9"]
        lines.append("names " + " ".join(fpool + extra + [x for x in ("heart_beat", "create") if x not in fpool]))
        nobj = rng.range(1, min(3, len(order)))
        # prefer the most derived programs
        top = order[::-1]
        objs = []
        for i in range(nobj):
            p = top[i] if rng.chance(3, 4) else rng.choice(order)
            oid = "o%d" % (i + 1)
            objs.append(oid)
            lines.append("ld %s %s" % (oid, p))
        lines.append("dump " + " ".join(objs))
        reload_at = -1
        if savebin:
            lines.insert(0, "savebin")
        last = None

        def call_args(o):
            # 0 to 4 arguments, whatever the function takes (fK has K mod 3 parameters): too few, exact, too many
            if o in ("rco", "hb") or rng.chance(2, 5):
                return ""
            return " " + ",".join(str(rng.range(1, 9) * 100 + i) for i in range(rng.range(1, 4)))

        def target_elem():
            k = rng.weighted([("oid", 6), ("path", 4), ("nofile", 1), ("int", 1)])
            if k == "oid":
                return rng.choice(objs)
            if k == "path":
                return "=" + rng.choice(order)       # the named object: loaded already, or loaded by this call
            return "=nofile" if k == "nofile" else "0"
        total = rng.range(12, 45)
        if savebin:
            reload_at = rng.range(2, max(3, total // 2))
        for step in range(total):
            if step == reload_at:
                allnames = fpool + extra + [x for x in ("heart_beat", "create") if x not in fpool]
                lines.append("reload " + " ".join(rng.shuffle(allnames)))
                for i, oid in enumerate(objs):
                    lines.append([l for l in lines if l.startswith("ld %s " % oid)][0])
                lines.append("dump " + " ".join(objs))
                last = None
                continue
            k = rng.weighted([("call", 30), ("cold", 2), ("evict", 3), ("again", 8), ("coa", 5), ("cos", 4)])
            if k in ("coa", "cos"):
                fn = rng.choice(fpool) if rng.chance(9, 10) else rng.choice(extra)
                if k == "coa":
                    els = [target_elem() for _ in range(rng.range(1, 4))]
                    lines.append("call coa %s %s" % (",".join(els), fn))
                else:
                    lines.append("call cos %s %s" % ("=" + rng.choice(order) if rng.chance(9, 10) else "=nofile", fn))
                continue
            if k == "call" or last is None:
                fn = rng.choice(fpool) if rng.chance(9, 10) else rng.choice(extra)
                last = (rng.choice(objs), fn)
                o = rng.weighted([("co", 7), ("com", 1), ("drv", 5), ("cot", 2), ("rco", 1), ("hb", 1)])
                if o == "hb":
                    last = (last[0], "heart_beat")
                lines.append("call %s %s %s%s" % (o, last[0], last[1], call_args(o)))
            elif k == "again":
                # same object and name from another origin: the cache is hit with a different kind of caller
                o = rng.weighted([("co", 4), ("drv", 4), ("cot", 2), ("rco", 1), ("com", 1)])
                lines.append("call %s %s %s%s" % (o, last[0], last[1], call_args(o)))
            elif k == "cold":
                lines.append("cold")
            else:
                lines.append("evict %s %s" % last)
        return E.Case(cid, lines, {"origin": "generated"})

    def generate(self, rng, n, tier):
        return [self.gen_case(rng, "g%d" % i) for i in range(n)]

    def histogram(self, cases, impl):
        h = {"savebin_cases": 0, "reloads": 0, "programs_loaded_from_binaries": 0, "calls": 0, "bodies_run": 0, "refused_or_absent": 0, "errors": 0, "load_failed": 0, "cold": 0, "evict": 0,
             "by_origin": {}, "programs": 0, "max_depth": 0, "multi_inherit_programs": 0, "alias_slots": 0,
             "super_calls": 0, "local_calls": 0, "fp_calls": 0, "prototypes": 0, "inherit_mods": {}}
        for c in cases:
            try:
                g, order = parse_graph(c.lines)
                h["max_depth"] = max([h["max_depth"]] + [depth(g, n) for n in order])
                for n in order:
                    P = g[n]
                    if P.has_w():
                        h["programs_with_private_w"] = h.get("programs_with_private_w", 0) + 1
                        if any(g[q].has_w() for _, q in P.inherits()):
                            h["private_w_at_two_levels"] = h.get("private_w_at_two_levels", 0) + 1
                    for it in P.items:
                        if it[0] != "d":
                            continue
                        for x in it[3]:
                            if x[0] not in "SJKM":
                                continue
                            par, fn = x[1:].split(".")
                            for _, q in P.inherits():
                                if par not in ("*", q):
                                    continue
                                r = resolve(g, q, fn)
                                if r is None:
                                    continue
                                d = q
                                for k in r:
                                    d = g[d].inherits()[k][1]
                                if "private" in g[d].defs()[fn][1]:
                                    h["super_calls_to_private"] = h.get("super_calls_to_private", 0) + 1
                                break
            except Exception:
                pass
            for l in c.lines:
                t = l.split()
                if not t:
                    continue
                if t[0] == "savebin":
                    h["savebin_cases"] += 1
                elif t[0] == "reload":
                    h["reloads"] += 1
                if t[0] == "call":
                    h["calls"] += 1
                    h["by_origin"][t[1]] = h["by_origin"].get(t[1], 0) + 1
                elif t[0] in ("cold", "evict"):
                    h[t[0]] += 1
                elif t[0] == "prog":
                    h["programs"] += 1
                    ni = 0
                    for it in t[2:]:
                        f = it.split(":")
                        if f[0] == "i":
                            ni += 1
                            h["inherit_mods"][f[1]] = h["inherit_mods"].get(f[1], 0) + 1
                        elif f[0] == "p":
                            h["prototypes"] += 1
                        elif f[0] == "d" and f[3] != "-":
                            for x in f[3].split("+"):
                                kname = {"S": "super_calls", "L": "local_calls", "F": "fp_calls", "G": "fp_calls_evaluated_by_other_object",
                                         "H": "functional_calls", "I": "functional_calls_evaluated_by_other_object",
                                         "J": "super_calls_in_functionals",
                                         "K": "super_calls_in_functionals_evaluated_by_other_object",
                                         "M": "super_calls_in_stored_functionals", "O": "local_calls_in_stored_functionals",
                                         "N": "stored_functional_evaluations"}[x[0]]
                                h[kname] = h.get(kname, 0) + 1
                    if ni > 1:
                        h["multi_inherit_programs"] += 1
            for l in impl.get(c.id, []):
                if l.startswith("binloads "):
                    h["programs_loaded_from_binaries"] += int(l.split()[1])
                if l.startswith("run "):
                    h["bodies_run"] += 1
                elif l == "ret !no":
                    h["refused_or_absent"] += 1
                elif l.startswith("err "):
                    h["errors"] += 1
                elif l.endswith("!fail"):
                    h["load_failed"] += 1
                elif l.startswith("tbl "):
                    h["alias_slots"] += sum(1 for m in re.findall(r"[,=](\d+):[ID]:", l) if int(m) & 32)
        return h


PROP = C07()
