"""C03 - compiled bytecode computes exactly what LPC semantics define.

The generator builds typed LPC programs as small ASTs and prints every program twice: as LPC text (`L` lines,
compiled and run by the real driver through harness/c03) and as an S-expression (`sx` line, evaluated by
`nvdrive C03`: LpcOps-based model = must equal the driver, reference semantics = judge).  Every case is one
computation in several SIBLING SPELLINGS (functions t0..tn); `same ...` lists functions whose reference values
must be equal.
"""
import os
import struct

from nvlib import engine as E
from nvlib.check import Prop

E.SAN_FLAGS.setdefault(
    "c03", "-fsanitize=address,undefined -fno-sanitize=signed-integer-overflow,shift -fwrapv "
           "-fno-sanitize-recover=undefined -fsanitize-recover=pointer-overflow -fno-omit-frame-pointer -g -O1")

I64MAX = 2 ** 63 - 1
I64MIN = -2 ** 63

# frame of every test function: index -> (name, declared type)
LOCALS = [("a", "mixed"), ("b", "mixed"), ("c", "mixed"), ("d", "mixed"), ("i", "int"), ("j", "int"), ("n", "int"),
          ("x", "float"), ("y", "float"), ("s", "string")]
GLOBALS = [("g0", "mixed"), ("g1", "mixed"), ("g2", "mixed"), ("g3", "int"), ("g4", "float"), ("g5", "string")]
TYN = {"mixed": "mixed", "int": "int", "float": "real", "string": "str"}
A, B, C, D, LI, LJ, LN, LX, LY, LS = range(10)

BINOPS = {"add": "+", "sub": "-", "mul": "*", "div": "/", "mod": "%", "band": "&", "bor": "|", "bxor": "^",
          "lsh": "<<", "rsh": ">>", "eq": "==", "ne": "!=", "lt": "<", "le": "<=", "gt": ">", "ge": ">="}
UNOPS = {"not": "!", "compl": "~", "neg": "-"}


def wrap(n):
    return (n + 2 ** 63) % 2 ** 64 - 2 ** 63


# ---- values ---------------------------------------------------------------------------------------------
def I(n):
    return ("lit", ("i", n))


def Fl(x):
    return ("lit", ("f", float(x)))


def S(b):
    return ("lit", ("s", b if isinstance(b, bytes) else b.encode()))


def Arr(es):
    return ("arr", list(es))


def Map(kvs):
    return ("map", list(kvs))


def Buf(bs):
    """a buffer holding the bytes `bs` (zero bytes cannot be stored: see known finding buf-store-zero)"""
    return ("call", "mkbuf", [Arr([I(x) for x in bs])], "local")


def L(k):
    return ("l", k)


def G(k):
    return ("g", k)


def bits(x):
    return "%016x" % struct.unpack("<Q", struct.pack("<d", x))[0]


def float_ok(x):
    r = repr(float(x))
    return "e" not in r and "n" not in r


# ---- printers -------------------------------------------------------------------------------------------
def lpc_str(b):
    out = []
    for c in b:
        if 32 <= c < 127 and c not in (34, 92):
            out.append(chr(c))
        else:
            out.append("\\%03o" % c)
    return '"' + "".join(out) + '"'


def lpc_e(e, names):
    k = e[0]
    if k == "lit":
        t, v = e[1]
        if t == "i":
            if v == I64MIN:
                return "(-9223372036854775807 - 1)"
            return "(%d)" % v if v < 0 else "%d" % v
        if t == "f":
            r = repr(v)
            return "(%s)" % r if v < 0 or r.startswith("-") else r
        return lpc_str(v)
    if k == "l":
        return names[e[1]]
    if k == "g":
        return GLOBALS[e[1]][0]
    if k == "un":
        return "(%s%s)" % (UNOPS[e[1]], lpc_e(e[2], names))
    if k == "bin":
        return "(%s %s %s)" % (lpc_e(e[2], names), BINOPS[e[1]], lpc_e(e[3], names))
    if k == "and":
        return "(%s && %s)" % (lpc_e(e[1], names), lpc_e(e[2], names))
    if k == "or":
        return "(%s || %s)" % (lpc_e(e[1], names), lpc_e(e[2], names))
    if k == "cond":
        return "(%s ? %s : %s)" % (lpc_e(e[1], names), lpc_e(e[2], names), lpc_e(e[3], names))
    if k == "asg":
        return "(%s = %s)" % (lpc_lv(e[1], names), lpc_e(e[2], names))
    if k == "aop":
        return "(%s %s= %s)" % (lpc_lv(e[2], names), BINOPS[e[1]], lpc_e(e[3], names))
    if k == "inc":
        lv = lpc_lv(e[2], names)
        return {"preinc": "(++%s)", "predec": "(--%s)", "postinc": "(%s++)", "postdec": "(%s--)"}[e[1]] % lv
    if k == "idx":
        return "%s[%s]" % (lpc_e(e[1], names), lpc_e(e[2], names))
    if k == "ridx":
        return "%s[<%s]" % (lpc_e(e[1], names), lpc_e(e[2], names))
    if k == "rng":
        return "%s[%s%s..%s%s]" % (lpc_e(e[3], names), "<" if e[1] else "", lpc_e(e[4], names),
                                   "<" if e[2] else "", lpc_e(e[5], names))
    if k == "rnge":
        return "%s[%s%s..]" % (lpc_e(e[2], names), "<" if e[1] else "", lpc_e(e[3], names))
    if k == "arr":
        return "({ %s })" % ", ".join(lpc_e(x, names) for x in e[1])
    if k == "map":
        return "([ %s ])" % ", ".join("%s : %s" % (lpc_e(a, names), lpc_e(b, names)) for a, b in e[1])
    if k == "call":
        args = ", ".join(lpc_e(x, names) for x in e[2])
        if e[3] == "inherit":
            return "::%s(%s)" % (e[1], args)
        if e[3] == "fptr":
            return "evaluate((: %s :)%s)" % (e[1], (", " + args) if args else "")
        if e[3] == "fptr1":      # partial application: the first argument is bound in the function pointer
            rest = ", ".join(lpc_e(x, names) for x in e[2][1:])
            return "evaluate((: %s, %s :)%s)" % (e[1], lpc_e(e[2][0], names), (", " + rest) if rest else "")
        return "%s(%s)" % (e[1], args)
    if k == "efun":
        return "%s(%s)" % (e[1], ", ".join(lpc_e(x, names) for x in e[2]))
    if k == "macro":
        return "%s(%s)" % (e[1], ", ".join(lpc_e(x, names) for x in e[2])) if e[2] is not None else e[1]
    if k == "lam2":              # anonymous functional (: $1 op $2 :) applied to two arguments
        return "evaluate((: $1 %s $2 :), %s, %s)" % (BINOPS[e[1]], lpc_e(e[2], names), lpc_e(e[3], names))
    if k == "par":               # $N inside a functional
        return "$%d" % e[1]
    if k == "bnd":               # $(e): e is evaluated when the functional is created, in the context around the functional
        return "$(%s)" % lpc_e(e[1], e[2] if len(e) > 2 else names)
    if k == "fun":               # functional (: body :)
        return "(: %s :)" % lpc_e(e[1], names)
    if k == "anon":              # anonymous function with its own parameters / locals p0, p1, ...
        pn = ["p%d" % q for q in range(e[1] + e[2])]
        decl = ("mixed %s; " % ", ".join(pn[e[1]:])) if e[2] else ""
        return "function(%s) { %s%s }" % (", ".join("mixed " + q for q in pn[:e[1]]), decl, " ".join(lpc_s(x, pn) for x in e[3]))
    if k == "ev":                # evaluate(f, args...) in one of its spellings
        f = lpc_e(e[1], names)
        args = [lpc_e(x, names) for x in e[2]]
        if e[3] == "star":
            return "(*%s)(%s)" % (f, ", ".join(args))
        if e[3] == "helper":
            return "ap%d(%s)" % (len(args), ", ".join([f] + args))
        return "evaluate(%s)" % ", ".join([f] + args)
    if k == "id":                # identifier inside a macro body (parameter, variable or efun name - decided by substitution)
        return e[1]
    if k == "paren":
        return lpc_e(e[1], names)
    raise ValueError(e)


def lpc_lv(lv, names):
    k = lv[0]
    if k == "l":
        return names[lv[1]]
    if k == "g":
        return GLOBALS[lv[1]][0]
    if k == "idx":
        return "%s[%s]" % (lpc_lv(lv[1], names), lpc_e(lv[2], names))
    if k == "ridx":
        return "%s[<%s]" % (lpc_lv(lv[1], names), lpc_e(lv[2], names))
    if k == "rng":
        return "%s[%s%s..%s%s]" % (lpc_lv(lv[3], names), "<" if lv[1] else "", lpc_e(lv[4], names),
                                   "<" if lv[2] else "", lpc_e(lv[5], names))
    raise ValueError(lv)


def lpc_label(lab):
    if lab == "default":
        return "default:"
    if lab[0] == "num":
        return "case %s:" % lpc_e(I(lab[1]), None)
    if lab[0] == "range":
        return "case %s..%s:" % (lpc_e(I(lab[1]), None), lpc_e(I(lab[2]), None))
    return "case %s:" % lpc_str(lab[1])


def lpc_s(s, names):
    if s in ("break", "continue"):
        return s + ";"
    if s == "nop":
        return ";"
    k = s[0]
    if k == "expr":
        return lpc_e(s[1], names) + ";"
    if k == "ret":
        return "return %s;" % lpc_e(s[1], names)
    if k == "if":
        t = "if (%s) %s" % (lpc_e(s[1], names), lpc_s(blk(s[2]), names))
        if s[3] != "nop":
            t += " else %s" % lpc_s(blk(s[3]), names)
        return t
    if k == "while":
        return "while (%s) %s" % (lpc_e(s[1], names), lpc_s(blk(s[2]), names))
    if k == "do":
        return "do %s while (%s);" % (lpc_s(blk(s[1]), names), lpc_e(s[2], names))
    if k == "for":
        init = lpc_s(s[1], names).rstrip(";") if s[1] != "nop" else ""
        step = lpc_s(s[3], names).rstrip(";") if s[3] != "nop" else ""
        return "for (%s; %s; %s) %s" % (init, lpc_e(s[2], names), step, lpc_s(blk(s[4]), names))
    if k == "foreach":
        return "foreach (%s in %s) %s" % (lpc_lv(s[1], names), lpc_e(s[2], names), lpc_s(blk(s[3]), names))
    if k == "foreach2":
        return "foreach (%s, %s in %s) %s" % (lpc_lv(s[1], names), lpc_lv(s[2], names), lpc_e(s[3], names),
                                              lpc_s(blk(s[4]), names))
    if k == "switch":
        arms = " ".join("%s %s" % (lpc_label(lab), " ".join(lpc_s(x, names) for x in ss)) for lab, ss in s[2])
        return "switch (%s) { %s }" % (lpc_e(s[1], names), arms)
    if k == "block":
        return "{ %s }" % " ".join(lpc_s(x, names) for x in s[1])
    if k == "fdef":              # names[k] = <functional>;
        return "%s = %s;" % (names[s[1]], lpc_e(s[2], names))
    raise ValueError(s)


def blk(s):
    return s if isinstance(s, tuple) and s[0] == "block" else ("block", [s])


def sx_e(e):
    k = e[0]
    if k == "lit":
        t, v = e[1]
        if t == "i":
            return "(i %d)" % v
        if t == "f":
            return "(f %s)" % bits(v)
        return "(s %s)" % v.hex() if v else "(s)"
    if k in ("l", "g"):
        return "(%s %d)" % (k, e[1])
    if k == "un":
        return "(un %s %s)" % (e[1], sx_e(e[2]))
    if k == "bin":
        return "(bin %s %s %s)" % (e[1], sx_e(e[2]), sx_e(e[3]))
    if k in ("and", "or"):
        return "(%s %s %s)" % (k, sx_e(e[1]), sx_e(e[2]))
    if k == "cond":
        return "(cond %s %s %s)" % (sx_e(e[1]), sx_e(e[2]), sx_e(e[3]))
    if k == "asg":
        return "(asg %s %s)" % (sx_lv(e[1]), sx_e(e[2]))
    if k == "aop":
        return "(aop %s %s %s)" % (e[1], sx_lv(e[2]), sx_e(e[3]))
    if k == "inc":
        return "(inc %s %s)" % (e[1], sx_lv(e[2]))
    if k in ("idx", "ridx"):
        return "(%s %s %s)" % (k, sx_e(e[1]), sx_e(e[2]))
    if k == "rng":
        return "(rng %d %d %s %s %s)" % (e[1], e[2], sx_e(e[3]), sx_e(e[4]), sx_e(e[5]))
    if k == "rnge":
        return "(rnge %d %s %s)" % (e[1], sx_e(e[2]), sx_e(e[3]))
    if k == "arr":
        return "(arr%s)" % "".join(" " + sx_e(x) for x in e[1])
    if k == "map":
        return "(map%s)" % "".join(" %s %s" % (sx_e(a), sx_e(b)) for a, b in e[1])
    if k == "call":
        return "(call %s%s)" % (e[1], "".join(" " + sx_e(x) for x in e[2]))
    if k == "efun":
        return "(efun %s%s)" % (e[1], "".join(" " + sx_e(x) for x in e[2]))
    if k == "macro":
        return sx_e(e[3])
    if k == "lam2":
        return "(bin %s %s %s)" % (e[1], sx_e(e[2]), sx_e(e[3]))
    if k == "paren":
        return sx_e(e[1])
    raise ValueError(e)


def sx_lv(lv):
    k = lv[0]
    if k in ("l", "g"):
        return "(%s %d)" % (k, lv[1])
    if k in ("idx", "ridx"):
        return "(%s %s %s)" % (k, sx_lv(lv[1]), sx_e(lv[2]))
    return "(rng %d %d %s %s %s)" % (lv[1], lv[2], sx_lv(lv[3]), sx_e(lv[4]), sx_e(lv[5]))


def sx_label(lab):
    if lab == "default":
        return "default"
    if lab[0] == "num":
        return "(num %d)" % lab[1]
    if lab[0] == "range":
        return "(range %d %d)" % (lab[1], lab[2])
    return "(str %s)" % lab[1].hex() if lab[1] else "(str)"


def sx_s(s):
    if s in ("break", "continue", "nop"):
        return s
    k = s[0]
    if k in ("expr", "ret"):
        return "(%s %s)" % (k, sx_e(s[1]))
    if k == "if":
        return "(if %s %s %s)" % (sx_e(s[1]), sx_s(s[2]), sx_s(s[3]))
    if k == "while":
        return "(while %s %s)" % (sx_e(s[1]), sx_s(s[2]))
    if k == "do":
        return "(do %s %s)" % (sx_s(s[1]), sx_e(s[2]))
    if k == "for":
        return "(for %s %s %s %s)" % (sx_s(s[1]), sx_e(s[2]), sx_s(s[3]), sx_s(s[4]))
    if k == "foreach":
        return "(foreach %s %s %s)" % (sx_lv(s[1]), sx_e(s[2]), sx_s(s[3]))
    if k == "foreach2":
        return "(foreach2 %s %s %s %s)" % (sx_lv(s[1]), sx_lv(s[2]), sx_e(s[3]), sx_s(s[4]))
    if k == "switch":
        return "(switch %s%s)" % (sx_e(s[1]), "".join(
            " (arm %s%s)" % (sx_label(lab), "".join(" " + sx_s(x) for x in ss)) for lab, ss in s[2]))
    if k == "block":
        return "(block%s)" % "".join(" " + sx_s(x) for x in s[1])
    raise ValueError(s)


# ---- fixed helper functions (LPC text + S-expression) -----------------------------------------------------
HELPER_LPC = [
    'inherit "/c03/base";',
    "mixed g0, g1, g2; int g3; float g4; string g5;",
    "mixed mkbuf(mixed p0) { mixed p1; int p2; p1 = allocate_buffer(sizeof(p0)); "
    "for (p2 = 0; p2 < sizeof(p0); p2++) if (p0[p2]) p1[p2] = p0[p2]; return p1; }",
    "mixed f_id(mixed p0) { return p0; }",
    "mixed f_add(mixed p0, mixed p1) { return p0 + p1; }",
    "mixed f_sub(mixed p0, mixed p1) { return p0 - p1; }",
    "mixed f_mul(mixed p0, mixed p1) { return p0 * p1; }",
    "mixed f_idx(mixed p0, mixed p1) { return p0[p1]; }",
    "mixed f_sum(mixed p0) { mixed p1; mixed p2; p1 = 0; foreach (p2 in p0) p1 += p2; return p1; }",
]


def _h(name, np, ntys, body):
    return "(fn %s %d (%s) %s)" % (name, np, " ".join(ntys), body)


_SUM = "(block (expr (asg (l 1) (i 0))) (foreach (l 2) (l 0) (block (expr (aop add (l 1) (l 2))))) (ret (l 1)))"
HELPER_SX = [
    _h("mkbuf", 1, ["mixed", "int"],
       "(block (expr (asg (l 1) (efun allocate_buffer (efun sizeof (l 0))))) "
       "(for (expr (asg (l 2) (i 0))) (bin lt (l 2) (efun sizeof (l 0))) (expr (inc postinc (l 2))) "
       "(block (if (idx (l 0) (l 2)) (block (expr (asg (idx (l 1) (l 2)) (idx (l 0) (l 2))))) nop))) (ret (l 1)))"),
]
for _n in ("f", "h"):
    HELPER_SX += [
        _h(_n + "_id", 1, [], "(block (ret (l 0)))"),
        _h(_n + "_add", 2, [], "(block (ret (bin add (l 0) (l 1))))"),
        _h(_n + "_sub", 2, [], "(block (ret (bin sub (l 0) (l 1))))"),
        _h(_n + "_mul", 2, [], "(block (ret (bin mul (l 0) (l 1))))"),
        _h(_n + "_idx", 2, [], "(block (ret (idx (l 0) (l 1))))"),
        _h(_n + "_sum", 1, ["mixed", "mixed"], _SUM),
    ]


# ---- functionals: lowering for the S-expression ---------------------------------------------------------------
# The reference semantics of a functional is BY VALUE: `evaluate((: body :), a1..an)` is the body with every `$(e)` replaced by
# the value e had when the functional was CREATED (e is evaluated in the context around the functional: the enclosing
# function's variables, or the `$N` of an enclosing functional) and `$N` by the N-th argument.  For the S-expression each
# functional becomes a synthesised function `lamK` whose parameters are the bound values (creation order) followed by the
# arguments; creating it evaluates the bound expressions (kept in hidden locals when the functional is stored in a variable),
# applying it is an ordinary call.  Nothing of this is known to the driver side: the LPC text uses (: :), $N, $(..).
HBASE = 10          # hidden locals of a test function start here (sx only)
APN_LPC = ["mixed ap%d(%s) { return evaluate(%s); }" % (n, ", ".join(["mixed f"] + ["mixed q%d" % i for i in range(n)]),
                                                       ", ".join(["f"] + ["q%d" % i for i in range(n)])) for n in range(0, 4)]


class Lower:
    def __init__(self, shared):
        self.sh = shared            # {"n": counter, "fns": [sx text]}
        self.stored = {}            # local index -> (lam name, hidden slots)
        self.hidden = 0

    def binds_of(self, body):
        out = []

        def walk(x):
            if isinstance(x, tuple) and x:
                if x[0] == "bnd":
                    out.append(x[1])
                    return
                if x[0] in ("fun", "anon"):
                    if x[0] == "fun":
                        # the bound expressions of an inner functional are evaluated in OUR context; our own $(..) are not
                        # generated inside them
                        pass
                    return
                for y in x:
                    walk(y)
            elif isinstance(x, list):
                for y in x:
                    walk(y)
        walk(body)
        return out

    def inner_binds_scan(self, body):
        """binds of this functional in textual order, including none from nested functionals"""
        return self.binds_of(body)

    def make_fun(self, fun, nargs, env):
        """returns (lam name, bound expressions lowered in the surrounding context env)"""
        if fun[0] == "anon":
            name = "lam%d" % self.sh["n"]
            self.sh["n"] += 1
            inner = Lower(self.sh)
            body = ("block", [inner.stmt(x, None) for x in fun[3]])
            self.sh["fns"].append("(fn %s %d (%s) %s)" % (name, fun[1], " ".join(["mixed"] * (fun[2] + inner.hidden)), sx_s(body)))
            return name, []
        body = fun[1]
        binds = self.binds_of(body)
        nb = len(binds)
        name = "lam%d" % self.sh["n"]
        self.sh["n"] += 1
        sub = {"nb": nb, "next": 0}
        lowered = self.expr(body, sub)
        assert sub["next"] == nb, (sub, nb)
        self.sh["fns"].append("(fn %s %d () (block (ret %s)))" % (name, nb + nargs, sx_e(lowered)))
        return name, [self.expr(b, env) for b in binds]

    def expr(self, e, env):
        if isinstance(e, list):
            return [self.expr(x, env) for x in e]
        if not isinstance(e, tuple) or not e:
            return e
        k = e[0]
        if k == "par":
            assert env is not None
            return ("l", env["nb"] + e[1] - 1)
        if k == "bnd":
            assert env is not None
            q = env["next"]
            env["next"] += 1
            return ("l", q)
        if k == "ev":
            f, args = e[1], e[2]
            if f[0] in ("fun", "anon"):
                name, bl = self.make_fun(f, len(args), env)
                return ("call", name, bl + [self.expr(a, env) for a in args], "local")
            assert f[0] == "l" and f[1] in self.stored, e
            name, slots = self.stored[f[1]]
            return ("call", name, [("l", q) for q in slots] + [self.expr(a, env) for a in args], "local")
        if k in ("fun", "anon"):
            raise ValueError("functional outside evaluate / fdef: %r" % (e,))
        return tuple(self.expr(x, env) if isinstance(x, (tuple, list)) else x for x in e)

    def stmt(self, s, env):
        if isinstance(s, tuple) and s and s[0] == "fdef":
            name, bl = self.make_fun(s[2], s[3], env)
            slots = list(range(HBASE + self.hidden, HBASE + self.hidden + len(bl)))
            self.hidden += len(bl)
            self.stored[s[1]] = (name, slots)
            return ("block", [("expr", ("asg", ("l", q), b)) for q, b in zip(slots, bl)])
        if isinstance(s, tuple):
            if s and s[0] in ("expr", "ret"):
                return (s[0], self.expr(s[1], env))
            return tuple(self.stmt(x, env) if isinstance(x, tuple) and x and isinstance(x[0], str) and x[0] in STMT_KINDS
                         else (self.expr(x, env) if isinstance(x, (tuple, list)) else x) for x in s)
        return s


STMT_KINDS = ("expr", "ret", "if", "while", "do", "for", "foreach", "foreach2", "switch", "block", "fdef")


def has_funp(x):
    if isinstance(x, tuple) and x:
        if x[0] in ("ev", "fdef"):
            return True
        return any(has_funp(y) for y in x)
    if isinstance(x, list):
        return any(has_funp(y) for y in x)
    return False

NAMES = [n for n, _ in LOCALS]
DECL = "mixed a, b, c, d; int i, j, n; float x, y; string s;"


def make_case(cid, fns, same=None, defines=(), meta=None):
    """fns: list of statement lists (one test function each)"""
    lines = ["L " + l for l in HELPER_LPC] + ["L " + d for d in defines]
    sx_fns = list(HELPER_SX)
    tys = " ".join(TYN[t] for _, t in LOCALS)
    shared = {"n": 0, "fns": []}
    for k, body in enumerate(fns):
        lines.append("L mixed t%d() { %s %s }" % (k, DECL, " ".join(lpc_s(x, NAMES) for x in body)))
        if has_funp(body):
            lo = Lower(shared)
            b = ("block", [lo.stmt(x, None) for x in body])
            sx_fns.append("(fn t%d 0 (%s) %s)" % (k, tys + " mixed" * lo.hidden, sx_s(b)))
        else:
            b = ("block", list(body))
            sx_fns.append("(fn t%d 0 (%s) %s)" % (k, tys, sx_s(b)))
    sx_fns += shared["fns"]
    gt = " ".join(TYN[t] for _, t in GLOBALS)
    lines.append("sx (prog (%s) %s)" % (gt, " ".join(sx_fns)))
    lines.append("run %d" % len(fns))
    if same is None:
        same = [list(range(len(fns)))] if len(fns) > 1 else []
    for grp in same:
        if len(grp) > 1:
            lines.append("same " + " ".join(str(x) for x in grp))
    return E.Case(cid, lines, meta or {"origin": "generated"})


# ---- boundary value pools --------------------------------------------------------------------------------
INTS = [0, 1, -1, 2, -2, 7, 63, 64, 255, 256, -255, -256, 2 ** 31 - 1, 2 ** 31, -2 ** 31, -2 ** 31 - 1, 2 ** 32 - 1,
        2 ** 32, 2 ** 32 + 1, -2 ** 32, 2 ** 53 + 1, I64MAX, I64MAX - 1, I64MIN, I64MIN + 1]
FLOATS = [0.0, 1.0, -1.0, 0.5, 1.5, -2.25, 0.1, 3.0, 4294967296.0, 123456.789, 9007199254740993.0, -0.75]
STRS = [b"", b"a", b"abc", b"hello world", b"0", b"a\xc3\xa9b", b"\xe4\xb8\xad\xe6\x96\x87", b"x\xffy", b"z\x80",
        b"q\xf0\x9f\x98\x80", b"tab\there", b"ab\xc3"]
SMALLIDX = [0, 1, 2, 3, 4, 5, -1, -2, 7, 2 ** 31, 2 ** 32, 2 ** 32 + 1, -2 ** 32, I64MAX, I64MIN]


def pick_int(rng):
    return rng.choice(INTS) if rng.chance(3, 4) else rng.range(-50, 50)


def pick_float(rng):
    return rng.choice(FLOATS)


def pick_scalar(rng):
    k = rng.weighted([("i", 5), ("f", 3), ("s", 2)])
    if k == "i":
        return I(pick_int(rng))
    if k == "f":
        return Fl(pick_float(rng))
    return S(rng.choice(STRS))


def small_arr(rng, n=None):
    n = rng.range(0, 5) if n is None else n
    return Arr([pick_scalar(rng) for _ in range(n)])


def vtype(e):
    if e[0] == "lit":
        return e[1][0]
    return e[0]


def static_ok(op, a, b):
    """would the compiler accept `a op b` for two literal operands (exact_types) and is it not a constant error?"""
    ta, tb = vtype(a), vtype(b)
    num = ("i", "f")
    if op == "add":
        return (ta in num and tb in num) or (ta == "s" and tb in ("s", "i", "f")) or (tb == "s" and ta in num) \
            or (ta == tb == "arr") or (ta == tb == "map")
    if op in ("sub",):
        return (ta in num and tb in num) or (ta == tb == "arr")
    if op in ("mul",):
        return ta in num and tb in num
    if op == "div":
        if not (ta in num and tb in num):
            return False
        return not (b[1][1] == 0)
    if op == "mod":
        return ta == tb == "i" and b[1][1] != 0
    if op in ("band", "bor", "bxor"):
        return ta == tb == "i"
    if op in ("lsh", "rsh"):
        return ta == tb == "i"
    if op in ("eq", "ne"):
        return (ta in num and tb in num) or ta == tb
    return (ta in num and tb in num) or (ta == tb == "s")


def rhs_ok(op, b):
    """would the compiler accept `<mixed> op b` for a literal b (exact_types)?"""
    tb = vtype(b)
    if op == "add":
        return True
    if op == "sub":
        return tb in ("i", "f", "arr")
    if op in ("mul", "div"):
        return tb in ("i", "f") and not (op == "div" and False)
    if op in ("mod", "band", "bor", "bxor", "lsh", "rsh"):
        return tb == "i"
    if op in ("eq", "ne"):
        return True
    return tb in ("i", "f", "s")


def typed_local(e):
    """a declared-type local that can hold literal e, or None"""
    t = vtype(e)
    return {"i": (LI, LJ), "f": (LX, LY), "s": (LS, None)}.get(t)


class C03(Prop):
    id = "C03"
    title = "Compiled bytecode computes exactly what LPC semantics define"
    lean_modules = ["NV.C03.Props", "NV.C03.Props2", "NV.C03.Props3", "NV.C03.Props4", "NV.C03.Props5", "NV.C03.Props6", "NV.C03.Props7", "NV.C03.Props8", "NV.C03.Props9", "NV.C03.Props10", "NV.C03.Witness"]
    theorems = []          # filled below
    witness_theorems = []
    consts = [("oldRangeBehavior", "NV_OLD_RANGE"), ("switchCaseSize", "SWITCH_CASE_SIZE"),
              ("mapHashTableSize", "MAP_HASH_TABLE_SIZE"), ("mapFillPercent", "FILL_PERCENT"),
              ("mapMaxTableSize", "MAX_TABLE_SIZE"), ("mapHashOf4096", "MAP_POINTER_HASH(4096)"),
              ("macroMarks", "MARKS"), ("macroNargs", "NARGS"),
              ("typeAny", "TYPE_ANY"), ("typeNumber", "TYPE_NUMBER"), ("typeString", "TYPE_STRING"), ("typeReal", "TYPE_REAL")]
    const_headers = ["lib/efuns/options.h", "src/interpret.h", "lib/lpc/mapping.h", "lib/lpc/lex.h", "lib/lpc/compiler.h"]
    const_prelude = "#ifdef OLD_RANGE_BEHAVIOR\n#define NV_OLD_RANGE 1\n#else\n#define NV_OLD_RANGE 0\n#endif\n"
    quick_n = 1200
    thorough_n = 6000
    search_n = 600
    design_ref = "5/C03"
    technique = ("Lean 4 proof at operator / rewrite / table-algorithm level + typed program generator with "
                 "sibling spellings + model/implementation correspondence")
    level_text = ("Lean 4 theorems: every LpcOps operator case (transcribed from eval_instruction / operator.c after the "
                  "fix commits) equals the reference semantics on all operands; op=, ++/--, index, range, lvalue forms; "
                  "constant folding and the grammar's rewrites are sound; literal encodings round-trip for all int64; "
                  "switch table lookup equals the first matching arm; FULL statements (no excluded region) for stores through index "
                  "lvalues incl. a zero byte into a buffer (lvset_agrees) and for all `<` ranges at all int64 bounds (range_agrees, "
                  "extract_agrees: the regenerated saturating helper range_from_end () never overflows and selects the reference range); "
                  "heap model of add_array () with its five reference-count tests regenerated from array.c: whatever branch is taken the "
                  "result holds p ++ r with one reference, an operand is reused only when the call held its only references, every array "
                  "still referenced keeps its elements and an exact count (Heap.addArray_refines), compared with the real add_array on "
                  "unit traces; heap model of slice_array () with its in-place test and exits regenerated: a range of an array somebody "
                  "still holds is a new block (Heap.sliceArray_refines); the conditions of the grammar's typed rewrites are regenerated and fire only for TYPE_NUMBER operands "
                  "(rw_guards_int).  "
                  "Whole programs: generated typed programs in sibling "
                  "spellings run in the real driver and must equal the LpcOps-based evaluator exactly; the reference "
                  "evaluator judges every result")
    level_note = ("no compiler-correctness theorem for generate.c / icode.c (whole programs by correspondence only); reals are "
                  "abstract in the theorems (FloatOps) and IEEE doubles in the driver; in-place fast paths keyed on reference counts "
                  "(add_array, string join, absorb / compose_mapping) are compared on generated self / aliased operand programs only "
                  "(no heap model); shift counts outside 0..63 are outside the model")
    rule = ("cases = corpus + known-finding inputs + boundary list + seeded random cases from 24 families (binary/unary "
            "operators, op=, ++/--, index, range, index/range/char lvalues, integer / nested / string switches, trees of degenerate "
            "switches (only default, single case, default anywhere, siblings, three levels), loops, comparison conditions whose two "
            "operands have interacting side effects in every condition context (evaluation order), local / "
            "inherited / function-pointer calls, macros vs hand expansion, literals, zero-comparison rewrites, mapping algebra "
            "around every growMap threshold, self-operand / aliased-operand / freshness forms of the container and string operators "
            "(x op= x, x = x op x, a second reference held before, the alias as operand; local, global, array element, mapping value), "
            "functionals ((: :) with $N, $(..) bound at creation, nested, stored and re-applied, (*f)(), through a helper, anonymous "
            "functions) next to their by-value expansion, unit traces of add_array with chosen reference counts, "
            "unit traces of the mapping table and of handle_define) over the boundary value set "
            "(int64 extremes, mixed int/float, empty and multibyte strings, containers across hash-table thresholds); each "
            "program has 2..12 sibling functions; 19 negative traces check the oracle on every run; a case is "
            "non-trivial when at least one function returns a value (not an error); distinct = distinct canonical trace")
    not_covered = ["identity of arrays and mappings: == on containers, stores seen through a shared reference (b = a; a[0] = 1) - the "
                   "reference evaluates by value, the generator only produces programs where LPC promises value semantics (self / aliased "
                   "operands and freshness of results are generated and judged; heap-level theorems for add_array and slice_array only - string join, "
                   "absorb_mapping / compose_mapping in-place paths are compared, not proved)",
                   "functionals: missing / surplus arguments beyond the generated shapes, varargs, function pointers stored in containers "
                   "or passed between objects, bind(); code generation for functionals (icode.c) is compared through programs only",
                   "class members as operands of the self-operand forms; `&` / `|` on arrays; freshness of results of explode / implode, "
                   "keys / values, filter / map / sort_array / unique_array (not in the reference semantics); copy () of a buffer",
                   "shift counts outside 0..63 (C undefined behaviour; the model uses the x86 masking)",
                   "sign of a floating zero produced by folded `0 - x`",
                   "`-=` on char lvalues (documented as supported, raises 'Bad left type to -=')",
                   "open findings (language definition debatable): num-opeq-real, addeq-num-str, optimistic-types"]

    # families that exercise the code behind each regenerated tie: when a tie breaks, the search stage draws 2/3 of its programs
    # from them, so that a harmful change behind the broken tie yields a failing input and a harmless one a report that names the site
    SITE_FAMS = {"guard:slice_array": ["fam_fresh", "fam_range", "fam_lvalue"], "guard:grammar-rewrites": ["fam_rewrite", "fam_binop", "fam_loop"], "guard:range_from_end": ["fam_range", "fam_lvalue", "fam_index"],
                 "guard:F_INDEX": ["fam_index", "fam_lvalue", "fam_loop"],
                 "guard:handle_define": ["fam_macrosubst", "fam_mdef", "fam_macro"],
                 "guard:add_array": ["fam_selfop", "fam_arrtrace", "fam_assignop", "fam_loop"]}
    broken_sites = ()

    def gen_extra(self, ctx, bdir):
        from nvlib import extract as X
        try:
            self.broken_sites = ()
            return self.gen_extra_inner(ctx, bdir)
        except X.TieBroken as e:
            self.broken_sites = (e.site,)
            raise

    def gen_extra_inner(self, ctx, bdir):
        """T4-style tie: the condition under which handle_define (lib/lpc/lex.c) replaces a body identifier by the marker of
        parameter n is transcribed into `NV.Gen.C03.macroParamMatch`; Props7.lean proves that it is string equality."""
        import re
        from nvlib import extract as X
        src = open(os.path.join(E.REPO, "lib/lpc/lex.c")).read()
        m = re.search(r"static void handle_define \(char \*yyt\) \{(.*?)\n\}\n", src, re.S)
        if not m:
            raise X.TieBroken("guard:handle_define", "handle_define not found in lib/lpc/lex.c")
        body = m.group(1)
        g = re.search(r"for \(n = 0; n < arg; n\+\+\)\s*\{(.*?)if \((.*?)\)\s*\{\s*q -= idlen;", body, re.S)
        if not g:
            raise X.TieBroken("guard:handle_define", "parameter matching loop of handle_define not recognised")
        pre, cond = g.group(1), " ".join(g.group(2).split())
        if not re.search(r"\bl = strlen \(args\[n\]\);", pre):
            raise X.TieBroken("guard:handle_define", "`l = strlen (args[n])` not found before the test: %s" % pre.strip())
        atoms = []
        for at in [a.strip() for a in cond.split("&&")]:
            at = re.sub(r"^\((.*)\)$", r"\1", at).strip()
            if at in ("l == idlen", "idlen == l"):
                atoms.append("decide (l = idlen)")
                continue
            q = re.fullmatch(r"strncmp \(args\[n\], ids, (l|idlen)\) == 0", at) or re.fullmatch(r"!strncmp \(args\[n\], ids, (l|idlen)\)", at)
            if q:
                atoms.append("eqUpTo %s" % q.group(1))
                continue
            raise X.TieBroken("guard:handle_define", "atom outside the guard grammar: `%s` in `%s`" % (at, cond))
        guards = self.gen_index_guards(X) + self.gen_range_from_end(X) + self.gen_add_array_guards(X) + self.gen_slice_array_guard(X) + self.gen_rewrite_guards(X)
        return guards + ("\n/-- C (lib/lpc/lex.c handle_define): a body identifier of length `idlen` is replaced by parameter n iff\n"
                "    `%s`  (l = strlen (args[n]); `eqUpTo k` = strncmp (args[n], ids, k) == 0) -/\n"
                "def macroParamMatch (l idlen : Nat) (eqUpTo : Nat → Bool) : Bool := %s\n" % (cond.replace("-/", "- /"), " && ".join(atoms)))

    def gen_index_guards(self, X):
        """T4: the bounds tests of F_INDEX (src/interpret.c) for buffers, strings and arrays, transcribed from the source
        (operators included) into `NV.Gen.C03.indexGuard*`; Props9.lean proves that they are the tests of `LpcOps.index`"""
        import re
        src = open(os.path.join(E.REPO, "src/interpret.c")).read()
        m = re.search(r"case F_INDEX:(.*?)case F_RINDEX:", src, re.S)
        if not m:
            raise X.TieBroken("guard:F_INDEX", "case F_INDEX not found in src/interpret.c")
        blk = m.group(1)
        want = {"Buf": "Buffer index out of bounds", "Str": "String index out of bounds",
                "ArrNeg": "Array index must be positive or zero", "ArrHigh": "Array index out of bounds"}
        out = []
        for name, msg in want.items():
            g = re.search(r"if \(((?:[^;{}])*?)\)\s*error \(\"\*%s" % re.escape(msg), blk, re.S)
            if not g:
                raise X.TieBroken("guard:F_INDEX", "test in front of error \"%s\" not found" % msg)
            cond = " ".join(g.group(1).split())
            atoms = []
            for at in cond.split("||"):
                at = at.strip()
                while at.startswith("(") and at.endswith(")") and at.count("(") - 1 >= 0 and self._balanced(at[1:-1]):
                    at = at[1:-1].strip()
                q = re.fullmatch(r"\(sp - 1\)->u\.number (<|<=|>|>=) (0|\(int64_t\)sp->u\.buf->size|\(int64_t\)SVALUE_STRLEN \(sp\)|arr->size)", at)
                if not q:
                    raise X.TieBroken("guard:F_INDEX", "atom outside the guard grammar: `%s` in `%s`" % (at, cond))
                op = {"<": "<", "<=": "≤", ">": ">", ">=": "≥"}[q.group(1)]
                atoms.append("decide (n %s %s)" % (op, "0" if q.group(2) == "0" else "size"))
            out.append("/-- C (src/interpret.c F_INDEX): `%s` raises \"%s\" (n = the 64-bit index, size = number of elements) -/\n"
                       "def indexGuard%s (n size : Int) : Bool := %s\n" % (cond.replace("-/", "- /"), msg, name, " || ".join(atoms)))
        return "\n" + "\n".join(out)

    def gen_range_from_end(self, X):
        """T4: the helper `range_from_end ()` of lib/lpc/operator.c (position of a `<i` range bound) is transcribed into
        `NV.Gen.C03.rangeFromEnd` - every C int64 operation becomes `wrap (..)`, so an overflowing variant does not pass the
        bridging lemma `rangeFromEnd_spec` (Props3.lean) - and every `<` site of f_range / f_extract_range must call it."""
        import re
        src = open(os.path.join(E.REPO, "lib/lpc/operator.c")).read()
        m = re.search(r"static int64_t range_from_end \(int64_t len, int64_t i\) \{\s*if \((.*?)\)\s*return (.*?);\s*return (.*?);\s*\}", src, re.S)
        if not m:
            raise X.TieBroken("guard:range_from_end", "helper range_from_end (len, i) not found / not of the form `if (c) return a; return b;`")

        def expr(t):
            toks = re.findall(r"\s*(INT64_MAX|INT64_MIN|len|i|\d+|[-+()])", t)
            if "".join(toks) != "".join(t.split()):
                raise X.TieBroken("guard:range_from_end", "expression outside the grammar: `%s`" % t)
            pos = [0]

            def atom():
                k = toks[pos[0]]
                pos[0] += 1
                if k == "(":
                    v = summ()
                    if toks[pos[0]] != ")":
                        raise X.TieBroken("guard:range_from_end", "unbalanced: `%s`" % t)
                    pos[0] += 1
                    return v
                if k == "-":
                    return "w64 (-%s)" % atom()
                if k == "INT64_MAX":
                    return "9223372036854775807"
                if k == "INT64_MIN":
                    return "(-9223372036854775808)"
                if k in ("len", "i") or k.isdigit():
                    return k
                raise X.TieBroken("guard:range_from_end", "unexpected token `%s` in `%s`" % (k, t))

            def summ():
                v = atom()
                while pos[0] < len(toks) and toks[pos[0]] in "+-":
                    op = toks[pos[0]]
                    pos[0] += 1
                    v = "w64 (%s %s %s)" % (v, op, atom())
                return v
            try:
                v = summ()
            except IndexError:
                raise X.TieBroken("guard:range_from_end", "truncated expression `%s`" % t)
            if pos[0] != len(toks):
                raise X.TieBroken("guard:range_from_end", "trailing tokens in `%s`" % t)
            return v
        cond = " ".join(m.group(1).split())
        c = re.fullmatch(r"(.*?) (<=|>=|<|>) (.*)", cond)
        if not c:
            raise X.TieBroken("guard:range_from_end", "test outside the grammar: `%s`" % cond)
        op = {"<": "<", "<=": "≤", ">": ">", ">=": "≥"}[c.group(2)]
        lean = "if %s %s %s then %s else %s" % (expr(c.group(1)), op, expr(c.group(3)), expr(m.group(2)), expr(m.group(3)))
        # the nine `<` sites
        sites = []
        for fn, nxt in (("f_range", "f_extract_range"), ("f_extract_range", "f_rsh")):
            b = re.search(r"\nvoid %s \(int code\) \{(.*?)\nvoid %s \(" % (fn, nxt), src, re.S)
            if not b:
                raise X.TieBroken("guard:range_from_end", "%s not found in lib/lpc/operator.c" % fn)
            for g in re.finditer(r"if \((code(?: & 0x[01]+)?)\)\s*([^;]*);", b.group(1)):
                st = " ".join(g.group(2).split())
                if not re.fullmatch(r"(to|from) = range_from_end \((len|v->size), \1\)", st):
                    raise X.TieBroken("guard:range_from_end", "%s: `<` bound computed by `%s` instead of range_from_end ()" % (fn, st))
                sites.append((fn, g.group(1), st))
        if not sites:
            raise X.TieBroken("guard:range_from_end", "no `<` site found in f_range / f_extract_range")
        return ("\n/-- two's complement int64 wrap-around of a C operation -/\ndef w64 (n : Int) : Int := (n + 2 ^ 63) %% 2 ^ 64 - 2 ^ 63\n"
                "\n/-- C (lib/lpc/operator.c range_from_end): `if (%s) return %s; return %s;` - every C int64 operation is `w64`;\n"
                "    used at all %d `<` sites of f_range / f_extract_range -/\n"
                "def rangeFromEnd (len i : Int) : Int := %s\n" % (cond, m.group(2).strip(), m.group(3).strip(), len(sites), lean))

    def gen_add_array_guards(self, X):
        """T4: the five reference-count tests of add_array () (lib/lpc/array.c) that decide between handing an operand back,
        extending it in place, moving its elements out and copying - transcribed into `NV.Gen.C03.addArray*`; the heap model
        `NV.C03.Heap.addArray` uses them and `Heap.addArray_refines` (Props10.lean) proves value semantics + no visible change
        to any array that is still referenced.  The tests are located by what their block DOES, not by comments or lines."""
        import re
        src = open(os.path.join(E.REPO, "lib/lpc/array.c")).read()
        m = re.search(r"\nadd_array \(array_t \* ?p, array_t \* ?r\)\s*\{(.*?)\n\}\n", src, re.S)
        if not m:
            raise X.TieBroken("guard:add_array", "add_array (array_t *p, array_t *r) not found in lib/lpc/array.c")
        body = m.group(1)

        def cond_to_lean(c):
            c = " ".join(c.split())
            toks = re.findall(r"\s*(p->ref|r->ref|p|r|==|!=|<=|>=|<|>|&&|\|\||\(|\)|\d+)", c)
            if "".join(toks) != c.replace(" ", ""):
                raise X.TieBroken("guard:add_array", "test outside the guard grammar: `%s`" % c)
            pos = [0]

            def atom():
                k = toks[pos[0]]
                if k == "(":
                    pos[0] += 1
                    v = disj()
                    if pos[0] >= len(toks) or toks[pos[0]] != ")":
                        raise X.TieBroken("guard:add_array", "unbalanced test `%s`" % c)
                    pos[0] += 1
                    return "(%s)" % v
                if pos[0] + 2 >= len(toks) + 0 and False:
                    pass
                a, op, b = toks[pos[0]], toks[pos[0] + 1], toks[pos[0] + 2]
                pos[0] += 3
                if {a, b} == {"p", "r"} and op in ("==", "!="):
                    return "same" if op == "==" else "!same"
                if a in ("p->ref", "r->ref") and b.isdigit():
                    lop = {"==": "=", "!=": "≠", "<": "<", "<=": "≤", ">": ">", ">=": "≥"}[op]
                    return "decide (%s %s %s)" % ("pref" if a == "p->ref" else "rref", lop, b)
                raise X.TieBroken("guard:add_array", "atom outside the guard grammar: `%s %s %s` in `%s`" % (a, op, b, c))

            def conj():
                v = atom()
                while pos[0] < len(toks) and toks[pos[0]] == "&&":
                    pos[0] += 1
                    v = "%s && %s" % (v, atom())
                return v

            def disj():
                v = conj()
                while pos[0] < len(toks) and toks[pos[0]] == "||":
                    pos[0] += 1
                    v = "(%s || %s)" % (v, conj())
                return v
            try:
                v = disj()
            except IndexError:
                raise X.TieBroken("guard:add_array", "truncated test `%s`" % c)
            if pos[0] != len(toks):
                raise X.TieBroken("guard:add_array", "trailing tokens in `%s`" % c)
            return v, c
        out = []
        # the two size-0 branches: `x->ref--; return y->ref > 1 ? (y->ref--, copy_array (y)) : y;`
        for name, a, b in (("CopyWhenLeftEmpty", "p", "r"), ("CopyWhenRightEmpty", "r", "p")):
            g = re.search(r"if \(%s->size == 0\)\s*\{\s*%s->ref--;\s*return ([^?;]*?) \? \(%s->ref--, copy_array \(%s\)\) : %s;\s*\}" % (a, a, b, b, b), body)
            if not g:
                raise X.TieBroken("guard:add_array", "size-0 branch for %s not of the form `%s->ref--; return C ? (%s->ref--, copy_array (%s)) : %s;`" % (a, a, b, b, b))
            out.append((name, "the other operand is copied (not handed back) when %s is empty" % a) + cond_to_lean(g.group(1)))
        # the three tests are identified by what their block does
        ifs = [(q.start(), q.group(1)) for q in re.finditer(r"if \(([^{};]*?)\)\s*\{", body)]

        def guard_of(marker, what):
            k = body.find(marker)
            if k < 0:
                raise X.TieBroken("guard:add_array", "statement `%s` (%s) not found in add_array" % (marker, what))
            before = [c for (st, c) in ifs if st < k]
            if not before:
                raise X.TieBroken("guard:add_array", "no test in front of `%s`" % marker)
            return before[-1]
        out.append(("Self", "x += x is done in place (the block doubles d->size)") + cond_to_lean(guard_of("d->size <<= 1;", "in-place self append")))
        out.append(("ReuseLeft", "the left operand is extended in place (RESIZE_ARRAY (p, ..) + d->size = res)") + cond_to_lean(guard_of("d->size = (unsigned short)res;", "left operand extended in place")))
        out.append(("MoveRight", "the elements are moved out of the right operand, which is freed") + cond_to_lean(guard_of("FREE ((char *) r);", "right operand consumed")))
        txt = ""
        for name, what, lean, c in out:
            txt += ("\n/-- C (lib/lpc/array.c add_array): `%s` - %s (same = `p == r`, pref / rref = the reference counts at that point) -/\n"
                    "def addArray%s (same : Bool) (pref rref : Nat) : Bool := %s\n" % (c, what, name, lean))
        return txt

    def gen_slice_array_guard(self, X):
        """T4: slice_array () (lib/lpc/array.c) may cut the operand down IN PLACE only under the test in front of
        `p = RESIZE_ARRAY (p, to - from + 1)` - transcribed into `NV.Gen.C03.sliceArrayReuse` (argument: p->ref after the `--`);
        every other way out must be the null array or a newly allocated `d`: any further `return` is a broken tie (then the search
        stage runs the freshness / range families).  `Heap.sliceArray_refines` (Props10.lean) uses the regenerated test."""
        import re
        src = open(os.path.join(E.REPO, "lib/lpc/array.c")).read()
        m = re.search(r"\narray_t\* slice_array \(array_t \* ?p, int from, int to\) \{(.*?)\n\}\n", src, re.S)
        if not m:
            raise X.TieBroken("guard:slice_array", "slice_array (array_t *p, int from, int to) not found in lib/lpc/array.c")
        body = m.group(1)
        k = body.find("p = RESIZE_ARRAY (p, to - from + 1);")
        if k < 0:
            raise X.TieBroken("guard:slice_array", "in-place statement `p = RESIZE_ARRAY (p, to - from + 1);` not found")
        ifs = [(q.start(), q.group(1)) for q in re.finditer(r"if \(([^{};]*?)\)\s*\{", body) if q.start() < k]
        # the outermost test that encloses the in-place block is the one followed by the ARRAY_STATS / `if (from)` code
        enclosing = [c for st, c in ifs if "p->ref" in c]
        if len(enclosing) != 1:
            raise X.TieBroken("guard:slice_array", "expected exactly one reference-count test in front of the in-place block, found %r" % (enclosing,))
        cond = " ".join(enclosing[0].split())
        if cond in ("!(--p->ref)", "--p->ref == 0", "(--p->ref) == 0"):
            lean = "decide (pref = 0)"
        else:
            q = re.fullmatch(r"\(?--p->ref\)? (==|<=|<|>|>=|!=) (\d+)", cond)
            if not q:
                raise X.TieBroken("guard:slice_array", "reference-count test outside the grammar: `%s`" % cond)
            lean = "decide (pref %s %s)" % ({"==": "=", "!=": "≠", "<": "<", "<=": "≤", ">": ">", ">=": "≥"}[q.group(1)], q.group(2))
        rets = [" ".join(r.split()) for r in re.findall(r"return ([^;]*);", body)]
        if sorted(rets) != ["&the_null_array", "d", "p"]:
            raise X.TieBroken("guard:slice_array", "slice_array must leave through `return &the_null_array;`, `return p;` (in place) and `return d;` (new block) only; found %r" % (rets,))
        if not (body.find("return p;") > k):
            raise X.TieBroken("guard:slice_array", "`return p;` outside the in-place block")
        return ("\n/-- C (lib/lpc/array.c slice_array): `%s` - the operand is cut down in place (pref = p->ref after the decrement); every other exit is the null array or a new block -/\n"
                "def sliceArrayReuse (pref : Nat) : Bool := %s\n" % (cond, lean))

    def gen_rewrite_guards(self, X):
        """T4: the conditions under which lib/lpc/grammar.y applies its typed peephole rewrites (`0 + X -> X`, `X + 0 -> X`,
        `0 - X -> -X`, `x == 0 -> !x` both ways, `if (x != 0) -> if (x)` both ways), transcribed into `NV.Gen.C03.rw*`:
        (zero = the constant operand is the literal 0, ty = the static type code of the OTHER operand).  `Frontend.rwBin` /
        `rwIfCond` use them; `rw_guards_int` (Props10.lean) proves that each fires only for an operand typed TYPE_NUMBER - the
        hypothesis of the value-level soundness theorems `rewrite_*_sound`.  The rules are located by what they produce."""
        import re
        src = open(os.path.join(E.REPO, "lib/lpc/grammar.y")).read()

        def region(a, b):
            i = src.find(a)
            j = src.find(b, i + 1) if i >= 0 else -1
            if i < 0 or j < 0:
                raise X.TieBroken("guard:grammar-rewrites", "rule `%s` .. `%s` not found in lib/lpc/grammar.y" % (a, b))
            return src[i:j]
        specs = [
            ("rwAddZeroL", region("expr0 '+' expr0", "expr0 '-' expr0"), r"if \(([^{}]*?)\)\s*\{\s*\$\$ = \$3;\s*break;\s*\}", "$1", "$3", "0 + X -> X"),
            ("rwAddZeroR", region("expr0 '+' expr0", "expr0 '-' expr0"), r"if \(([^{}]*?)\)\s*\{\s*\$\$ = \$1;\s*break;\s*\}", "$3", "$1", "X + 0 -> X"),
            ("rwSubZeroL", region("expr0 '-' expr0", "expr0 '*' expr0"), r"if \(([^{}]*?)\)\s*\{\s*CREATE_UNARY_OP\(\$\$, F_NEGATE, \$3->type, \$3\);", "$1", "$3", "0 - X -> -X"),
            ("rwEqZeroL", region("expr0 L_EQ expr0", "expr0 L_NE expr0"), r"if \(([^{}]*?)\)\s*\{\s*CREATE_UNARY_OP\(\$\$, F_NOT, TYPE_NUMBER, \$3\);", "$1", "$3", "0 == x -> !x"),
            ("rwEqZeroR", region("expr0 L_EQ expr0", "expr0 L_NE expr0"), r"if \(([^{}]*?)\)\s*\{\s*CREATE_UNARY_OP\(\$\$, F_NOT, TYPE_NUMBER, \$1\);", "$3", "$1", "x == 0 -> !x"),
            ("rwIfNeZeroR", region("L_IF '(' comma_expr ')' statement optional_else_part", "CREATE_IF($$, $3, $5, $6);"), r"if \(([^{};]*?)\)\s*\$3 = \$3->l\.expr;", "$3->r.expr", "$3->l.expr", "if (x != 0) -> if (x)"),
            ("rwIfNeZeroL", region("L_IF '(' comma_expr ')' statement optional_else_part", "CREATE_IF($$, $3, $5, $6);"), r"if \(([^{};]*?)\)\s*\$3 = \$3->r\.expr;", "$3->l.expr", "$3->r.expr", "if (0 != x) -> if (x)"),
        ]
        out = ""
        for name, reg, pat, zop, top, what in specs:
            g = re.search(pat, reg, re.S)
            if not g:
                raise X.TieBroken("guard:grammar-rewrites", "rewrite `%s`: the statement it produces was not found behind an `if (..)`" % what)
            cond = " ".join(g.group(1).split())
            atoms = []
            for at in [a.strip() for a in cond.split("&&")]:
                z = re.fullmatch(r"(\$\d(?:->[lr]\.expr)?)->v\.number == 0", at) or re.fullmatch(r"IS_NODE\((\$\d(?:->[lr]\.expr)?), NODE_NUMBER, 0\)", at)
                if z:
                    if z.group(1) != zop:
                        raise X.TieBroken("guard:grammar-rewrites", "rewrite `%s`: the zero test is on %s, expected %s (`%s`)" % (what, z.group(1), zop, cond))
                    atoms.append("zero")
                    continue
                t = re.fullmatch(r"(\$\d(?:->[lr]\.expr)?)->type (==|!=) TYPE_(NUMBER|REAL|STRING|ANY)", at)
                if t:
                    if t.group(1) != top:
                        raise X.TieBroken("guard:grammar-rewrites", "rewrite `%s`: the type test is on %s, expected %s (`%s`)" % (what, t.group(1), top, cond))
                    atoms.append("decide (ty %s type%s)" % ("=" if t.group(2) == "==" else "≠", t.group(3).capitalize()))
                    continue
                raise X.TieBroken("guard:grammar-rewrites", "rewrite `%s`: atom outside the guard grammar: `%s` in `%s`" % (what, at, cond))
            if "zero" not in atoms:
                raise X.TieBroken("guard:grammar-rewrites", "rewrite `%s`: no test for the literal 0 in `%s`" % (what, cond))
            out += ("\n/-- C (lib/lpc/grammar.y, rewrite `%s`): `%s` -/\ndef %s (zero : Bool) (ty : Nat) : Bool := %s\n"
                    % (what, cond.replace("-/", "- /"), name, " && ".join(atoms)))
        return out

    @staticmethod
    def _balanced(t):
        d = 0
        for ch in t:
            if ch == "(":
                d += 1
            elif ch == ")":
                d -= 1
                if d < 0:
                    return False
        return d == 0

    def prepare(self, ctx):
        self.exe = E.compile_harness("c03", [os.path.join(E.VERIF, "harness/c03/c03.c")], kind="c03")
        self.exe_lex = E.compile_harness("c03lex", [os.path.join(E.VERIF, "harness/c03/c03lex.c")], kind="c03")
        self.conf = E.make_mudlib(ctx.rundir, master="/c03/master.c")

    def run_impl(self, ctx, cases):
        out = {}
        # unit-style preprocessor cases go to the harness that #includes lib/lpc/lex.c
        lexc = [c for c in cases if c.lines and c.lines[0].startswith("mdef ")]
        if lexc:
            out.update(E.run_harness(self.exe_lex, self.conf, lexc, ctx.rundir, args=["--timeout", "20"]))
            cases = [c for c in cases if not (c.lines and c.lines[0].startswith("mdef "))]
        # chunks keep one crashing child from hiding the rest and bound the size of one harness stdin
        for k in range(0, len(cases), 200):
            out.update(E.run_harness(self.exe, self.conf, cases[k:k + 200], ctx.rundir, args=["--timeout", "20"]))
        return out

    def extra_checks(self, ctx, tier, rng):
        """oracle audit on every run: NEGATIVE traces - the judge must reject each of them with the expected verdict"""
        ok_case = make_case("neg", [[("ret", ("bin", "add", I(1), I(2)))], [("expr", ("asg", L(A), I(1))), ("ret", ("bin", "add", L(A), I(2)))]])
        sib_case = make_case("neg", [[("ret", I(1))], [("ret", I(2))]], same=[[0, 1]])
        neg = [
            ("wrong-value", ok_case.lines, ["r 0 4", "r 1 3"], "bad spec-mismatch why=unexplained fn=t0 impl=4 spec=3"),
            ("error-instead-of-value", ok_case.lines, ["r 0 3", "r 1 !err"], "bad spec-mismatch why=unexplained fn=t1 impl=!err spec=3"),
            ("missing-result", ok_case.lines, ["r 0 3"], "bad missing-result fn=t1"),
            ("crash", ok_case.lines, ["r 0 3", "crash signal 11"], "bad impl-crash crash signal 11"),
            ("compile-fail", ok_case.lines, ["compile-fail"], "bad impl-crash compile-fail"),
            ("float-for-int", ok_case.lines, ["r 0 f:4008000000000000", "r 1 3"], "bad spec-mismatch why=unexplained fn=t0"),
            ("siblings-differ", sib_case.lines, ["r 0 1", "r 1 2"], "bad spec-siblings-differ"),
            ("finding-needs-model-agreement", make_case("neg", [[("expr", ("asg", L(A), I(1))), ("expr", ("aop", "add", L(A), Fl(1.5))), ("ret", L(A))]]).lines,
             ["r 0 7"], "why=unexplained"),       # a known-finding program with a value the model of the code does not produce
            ("maptrace-bucket", ["maptrace ai:16:1"], ["T ai:16:1 size=8 unfilled=5 count=1 0:[16]"], "bad maptrace-bucket"),
            ("maptrace-count", ["maptrace ai:16:1"], ["T ai:16:1 size=8 unfilled=5 count=2 1:[16]"], "bad maptrace-count"),
            ("maptrace-duplicate", ["maptrace ai:16:1"], ["T ai:16:1 size=8 unfilled=5 count=2 1:[16,16]"], "bad maptrace-duplicate"),
            ("maptrace-crash", ["maptrace ai:16:1"], ["sanitizer ERROR: AddressSanitizer: SEGV", "crash exit 1"], "bad impl-crash"),
            ("macro-body-prefix", ["mdef PICK(ab, a) (a)"], ["D PICK nargs=2 exps=202028404129"], "bad macro-body"),
            ("macro-body-missing", ["mdef PICK(ab, a) (a)"], [], "bad macro-body missing dump"),
            ("arrtrace-value", ["arrtrace 1 2 0 2 0"], ["A 1 2 0 2 0 res=V ref=1 items=[1,2]"], "bad arrtrace-value"),
            ("arrtrace-alias", ["arrtrace 1 2 1 2 0"], ["A 1 2 1 2 0 res=P ref=1 items=[1,2,1,2] p=1:[1,2,1,2]"], "bad arrtrace-alias"),
            ("arrtrace-operand", ["arrtrace 0 2 1 1 0"], ["A 0 2 1 1 0 res=V ref=1 items=[1,2,101] p=1:[1,2,101]"], "bad arrtrace-operand"),
            ("arrtrace-ref", ["arrtrace 0 0 0 2 2"], ["A 0 0 0 2 2 res=V ref=3 items=[101,102] r=2:[101,102]"], "bad arrtrace-ref"),
            ("arrtrace-missing", ["arrtrace 0 0 0 2 2"], [], "bad arrtrace-missing"),
        ]
        cases = [E.Case("n%d" % k, lines + ["--"] + impl) for k, (_, lines, impl, _) in enumerate(neg)]
        out = E.nvdrive(self.id, "judge", E.cases_text(cases))
        problems = []
        for k, (name, _, _, want) in enumerate(neg):
            got = out.get("n%d" % k, [])
            if not any(want in v for v in got):
                problems.append({"kind": "oracle-broken", "name": "judge accepts negative trace `%s`" % name,
                                 "detail": "expected a verdict containing %r, got %r" % (want, got[:3])})
        self.neg_examples = len(neg)
        return problems

    def nontrivial_key(self, case, out):
        vals = [l for l in out if (l.startswith("r ") or l.startswith("A ")) and not l.endswith("!err") and not l.endswith("!nofn")]
        if not vals:
            return None
        import hashlib
        return hashlib.sha1("\n".join(out).encode()).hexdigest()

    def histogram(self, cases, impl):
        h = {"functions": 0, "errors": 0, "values": 0}
        for c in cases:
            fam = c.meta.get("family", c.meta.get("origin", "?"))
            h["family:" + fam] = h.get("family:" + fam, 0) + 1
            for l in impl.get(c.id, []):
                if l.startswith("r "):
                    h["functions"] += 1
                    h["errors" if l.endswith("!err") else "values"] += 1
        return h

    # ---- families ------------------------------------------------------------------------------------
    def spellings_bin(self, op, a, b, rng, full=True):
        """sibling spellings of `a op b` for literal operand expressions a, b"""
        fns = []
        if static_ok(op, a, b):
            fns.append([("ret", ("bin", op, a, b))])                                     # folded at compile time
            m = ("macro", "M_OP", [a, b], ("bin", op, a, b))
            fns.append([("ret", m)])                                                     # through a macro
        fns.append([("expr", ("asg", L(A), a)), ("expr", ("asg", L(B), b)), ("ret", ("bin", op, L(A), L(B)))])
        fns.append([("expr", ("asg", G(0), a)), ("expr", ("asg", G(1), b)), ("ret", ("bin", op, G(0), G(1)))])
        if rhs_ok(op, b):
            fns.append([("expr", ("asg", L(A), a)), ("ret", ("bin", op, L(A), b))])      # one constant operand
        if op not in ("eq", "ne", "lt", "le", "gt", "ge"):
            fns.append([("expr", ("asg", L(A), a)), ("expr", ("aop", op, L(A), b)), ("ret", L(A))])   # x op= y
            fns.append([("expr", ("asg", G(0), a)), ("expr", ("asg", L(B), b)), ("ret", ("aop", op, G(0), L(B)))])
        ta, tb = typed_local(a), typed_local(b)
        if ta and tb and ta[0] is not None and (tb[1] is not None or ta[0] != tb[0]) and static_ok(op, a, b):
            l1 = ta[0]
            l2 = tb[1] if tb[0] == l1 else tb[0]
            fns.append([("expr", ("asg", L(l1), a)), ("expr", ("asg", L(l2), b)), ("ret", ("bin", op, L(l1), L(l2)))])
        if op in ("add", "sub", "mul") and full:
            f = {"add": "add", "sub": "sub", "mul": "mul"}[op]
            fns.append([("ret", ("call", "f_" + f, [a, b], "local"))])
            fns.append([("ret", ("call", "h_" + f, [a, b], "inherit"))])
            fns.append([("ret", ("call", "f_" + f, [a, b], "fptr"))])
        return fns

    def fam_binop(self, rng, cid):
        op = rng.weighted([("add", 6), ("sub", 4), ("mul", 4), ("div", 4), ("mod", 3), ("band", 1), ("bor", 1), ("bxor", 1),
                           ("lsh", 1), ("rsh", 1), ("eq", 2), ("ne", 1), ("lt", 2), ("le", 1), ("gt", 1), ("ge", 1)])
        if op in ("lsh", "rsh"):
            a, b = I(pick_int(rng)), I(rng.choice([0, 1, 2, 31, 32, 33, 62, 63]))
        elif op in ("mod", "band", "bor", "bxor"):
            a, b = I(pick_int(rng)), I(pick_int(rng))
        else:
            a, b = pick_scalar(rng), pick_scalar(rng)
            if rng.chance(1, 8) and op not in ("eq", "ne"):
                # == / != on arrays compare identity (all empty arrays are one shared object): outside the covered core
                a, b = small_arr(rng), small_arr(rng)
        fns = self.spellings_bin(op, a, b, rng)
        return make_case(cid, fns, defines=["#define M_OP(x, y) ((x) %s (y))" % BINOPS[op]],
                         meta={"origin": "generated", "family": "binop"})

    def fam_unop(self, rng, cid):
        op = rng.choice(["not", "compl", "neg"])
        a = pick_scalar(rng)
        fns = []
        t = vtype(a)
        if (op == "not") or (op == "compl" and t == "i") or (op == "neg" and t in ("i", "f")):
            fns.append([("ret", ("un", op, a))])
        fns.append([("expr", ("asg", L(A), a)), ("ret", ("un", op, L(A)))])
        fns.append([("expr", ("asg", G(0), a)), ("ret", ("un", op, G(0)))])
        same = [list(range(len(fns)))]
        if op == "neg":
            fns.append([("expr", ("asg", L(A), a)), ("expr", ("asg", L(B), I(0))), ("ret", ("bin", "sub", L(B), L(A)))])
            if t != "f":
                same[0].append(len(fns) - 1)
        return make_case(cid, fns, same=same, meta={"origin": "generated", "family": "unop"})

    def fam_incdec(self, rng, cid):
        v = I(pick_int(rng)) if rng.chance(2, 3) else Fl(pick_float(rng))
        if rng.chance(1, 10):
            v = S(b"ab")
        up = rng.chance(1, 2)
        pre, post, op = ("preinc", "postinc", "add") if up else ("predec", "postdec", "sub")
        fns = [
            [("expr", ("asg", L(A), v)), ("expr", ("inc", pre, L(A))), ("ret", L(A))],
            [("expr", ("asg", L(A), v)), ("expr", ("inc", post, L(A))), ("ret", L(A))],
            [("expr", ("asg", L(A), v)), ("expr", ("asg", L(A), ("bin", op, L(A), I(1)))), ("ret", L(A))],
            [("expr", ("asg", L(A), v)), ("expr", ("aop", op, L(A), I(1))), ("ret", L(A))],
            [("expr", ("asg", G(0), v)), ("expr", ("inc", pre, G(0))), ("ret", G(0))],
            [("expr", ("asg", L(A), v)), ("ret", ("inc", pre, L(A)))],
            [("expr", ("asg", L(A), v)), ("ret", ("asg", L(A), ("bin", op, L(A), I(1))))],
        ]
        same = [[0, 1, 2, 3, 4, 5, 6]]
        tl = typed_local(v)
        if tl and tl[0] is not None and vtype(v) != "s":
            fns.append([("expr", ("asg", L(tl[0]), v)), ("expr", ("inc", pre, L(tl[0]))), ("ret", L(tl[0]))])
            same[0].append(7)
        # value of the post form is the old value
        fns.append([("expr", ("asg", L(A), v)), ("ret", Arr([("inc", post, L(A)), L(A)]))])
        fns.append([("expr", ("asg", L(A), v)), ("expr", ("asg", L(B), L(A))),
                    ("expr", ("asg", L(A), ("bin", op, L(A), I(1)))), ("ret", Arr([L(B), L(A)]))])
        same.append([len(fns) - 2, len(fns) - 1])
        if vtype(v) == "s":
            same = []      # ++ is defined on numbers only: `++x` raises for a string, `x = x + 1` concatenates
        return make_case(cid, fns, same=same, meta={"origin": "generated", "family": "incdec"})

    def pick_container(self, rng):
        k = rng.weighted([("s", 3), ("arr", 4), ("buf", 2), ("map", 1)])
        if k == "s":
            b = rng.choice(STRS)
            return S(b), len(b), k
        if k == "arr":
            n = rng.choice([0, 1, 3, 5])
            return Arr([I(10 * (q + 1)) for q in range(n)]), n, k
        if k == "buf":
            n = rng.choice([0, 1, 4])
            return Buf([65 + q for q in range(n)]), n, k
        return Map([(I(0), S(b"zero")), (S(b"k"), I(5)), (Fl(1.5), I(7)), (I(2 ** 32), I(9))]), 4, k

    def idx_value(self, rng, n):
        return rng.choice([0, 1, n - 1, n, n + 1, -1, 2 ** 32, 2 ** 32 + 1, -2 ** 32 + 1, 2 ** 31, I64MAX, I64MIN, 2, 3])

    def fam_index(self, rng, cid):
        c, n, k = self.pick_container(rng)
        if k == "map":
            key = rng.choice([I(0), Fl(0.0), S(b"k"), S(b"nokey"), Fl(1.5), I(2 ** 32), I(1)])
            fns = [[("ret", ("idx", c, key))],
                   [("expr", ("asg", L(A), c)), ("expr", ("asg", L(B), key)), ("ret", ("idx", L(A), L(B)))],
                   [("expr", ("asg", G(0), c)), ("ret", ("idx", G(0), key))],
                   [("ret", ("call", "f_idx", [c, key], "local"))],
                   [("ret", ("call", "h_idx", [c, key], "inherit"))]]
            return make_case(cid, fns, meta={"origin": "generated", "family": "index"})
        i = self.idx_value(rng, n)
        rev = rng.chance(1, 3)
        node = "ridx" if rev else "idx"
        fns = [[("expr", ("asg", L(A), c)), ("expr", ("asg", L(B), I(i))), ("ret", (node, L(A), L(B)))],
               [("expr", ("asg", G(0), c)), ("ret", (node, G(0), I(i)))],
               [("expr", ("asg", L(A), c)), ("expr", ("asg", L(LI), I(i))), ("ret", (node, L(A), L(LI)))]]
        if rev:
            # c[<i] is c[sizeof(c) - i]
            fns.append([("expr", ("asg", L(A), c)), ("expr", ("asg", L(B), I(i))),
                        ("ret", ("idx", L(A), ("bin", "sub", ("efun", "sizeof", [L(A)]), L(B))))])
        elif k != "buf" and 0 <= i < n:
            fns.append([("ret", ("idx", c, I(i)))])           # constant container and index
        if not rev:
            fns.append([("ret", ("call", "f_idx", [c, I(i)], "fptr"))])
        return make_case(cid, fns, meta={"origin": "generated", "family": "index"})

    def fam_range(self, rng, cid):
        c, n, k = self.pick_container(rng)
        while k == "map":
            c, n, k = self.pick_container(rng)
        i = self.idx_value(rng, n)
        j = self.idx_value(rng, n)
        fr, tr = rng.chance(1, 3), rng.chance(1, 3)
        fns = [[("expr", ("asg", L(A), c)), ("expr", ("asg", L(B), I(i))), ("expr", ("asg", L(C), I(j))),
                ("ret", ("rng", fr, tr, L(A), L(B), L(C)))],
               [("expr", ("asg", G(0), c)), ("ret", ("rng", fr, tr, G(0), I(i), I(j)))]]
        same = [[0, 1]]
        if k != "buf":
            fns.append([("ret", ("rng", fr, tr, c, I(i), I(j)))])
            same[0].append(2)
        # c[i..] is c[i..<1]
        b = len(fns)
        fns.append([("expr", ("asg", L(A), c)), ("expr", ("asg", L(B), I(i))), ("ret", ("rnge", fr, L(A), L(B)))])
        fns.append([("expr", ("asg", L(A), c)), ("expr", ("asg", L(B), I(i))), ("expr", ("asg", L(C), I(1))),
                    ("ret", ("rng", fr, True, L(A), L(B), L(C)))])
        fns.append([("expr", ("asg", L(A), c)), ("expr", ("asg", L(B), I(i))), ("ret", ("rng", fr, True, L(A), L(B), I(1)))])
        same.append([b, b + 1, b + 2])
        return make_case(cid, fns, same=same, meta={"origin": "generated", "family": "range"})

    def fam_lvalue(self, rng, cid):
        c, n, k = self.pick_container(rng)
        kind = rng.weighted([("idx", 4), ("rng", 4), ("char", 3), ("nested", 1)])
        if k == "map":
            key = rng.choice([I(0), Fl(0.0), S(b"k"), S(b"new"), I(2 ** 32)])
            fns = [[("expr", ("asg", L(A), c)), ("expr", ("asg", ("idx", L(A), key), I(42))), ("ret", L(A))],
                   [("expr", ("asg", G(0), c)), ("expr", ("asg", L(B), key)), ("expr", ("asg", ("idx", G(0), L(B)), I(42))),
                    ("ret", G(0))],
                   [("expr", ("asg", L(A), c)), ("expr", ("aop", "add", ("idx", L(A), key), I(42))), ("ret", L(A))]]
            return make_case(cid, fns, same=[[0, 1]], meta={"origin": "generated", "family": "lvalue"})
        i = self.idx_value(rng, n)
        if kind == "nested":
            c = Arr([Arr([I(1), I(2)]), Arr([I(3), I(4)])])
            i2 = rng.choice([0, 1, 2, -1])
            lv = lambda root: ("idx", ("idx", root, I(rng.choice([0, 1]))), I(i2))
            l1 = lv(L(A))
            fns = [[("expr", ("asg", L(A), c)), ("expr", ("asg", l1, I(9))), ("ret", L(A))],
                   [("expr", ("asg", G(0), c)), ("expr", ("asg", ("idx", l1[1][:1] + (G(0),) + l1[1][2:], l1[2]), I(9))),
                    ("ret", G(0))]]
            return make_case(cid, fns, meta={"origin": "generated", "family": "lvalue"})
        if kind == "idx" or (kind == "char" and k == "arr"):
            rev = rng.chance(1, 3)
            node = "ridx" if rev else "idx"
            v = I(rng.choice([65, 0, 256, 321, -1, 7])) if k != "arr" else pick_scalar(rng)
            fns = [[("expr", ("asg", L(A), c)), ("expr", ("asg", (node, L(A), I(i)), v)), ("ret", L(A))],
                   [("expr", ("asg", G(0), c)), ("expr", ("asg", L(B), I(i))), ("expr", ("asg", (node, G(0), L(B)), v)),
                    ("ret", G(0))],
                   [("expr", ("asg", L(A), c)), ("expr", ("asg", L(LI), I(i))), ("expr", ("asg", (node, L(A), L(LI)), v)),
                    ("ret", L(A))]]
            return make_case(cid, fns, meta={"origin": "generated", "family": "lvalue"})
        if kind == "char":
            d = rng.choice([1, 2, 190, 255, 256, -1])
            pos = rng.choice([0, max(n - 1, 0), n, 1])
            fns = [[("expr", ("asg", L(A), c)), ("expr", ("inc", "preinc", ("idx", L(A), I(pos)))), ("ret", L(A))],
                   [("expr", ("asg", L(A), c)), ("expr", ("asg", ("idx", L(A), I(pos)), ("bin", "add", ("idx", L(A), I(pos)), I(1)))),
                    ("ret", L(A))],
                   [("expr", ("asg", L(A), c)), ("expr", ("aop", "add", ("idx", L(A), I(pos)), I(d))), ("ret", L(A))],
                   [("expr", ("asg", L(A), c)), ("expr", ("asg", ("idx", L(A), I(pos)), ("bin", "add", ("idx", L(A), I(pos)), I(d)))),
                    ("ret", L(A))],
                   [("expr", ("asg", L(A), c)), ("expr", ("inc", "postdec", ("idx", L(A), I(pos)))), ("ret", L(A))]]
            return make_case(cid, fns, same=[[0, 1], [2, 3]], meta={"origin": "generated", "family": "lvalue"})
        # range lvalue
        j = self.idx_value(rng, n)
        fr, tr = rng.chance(1, 4), rng.chance(1, 4)
        m = rng.choice([0, 1, 2, 3])
        if k == "s":
            v = S(b"XYZW"[:m])
        elif k == "arr":
            v = Arr([I(100 + q) for q in range(m)])
        else:
            v = Buf([90 - q for q in range(m)])
        if rng.chance(1, 12):
            v = I(5)
        fns = [[("expr", ("asg", L(A), c)), ("expr", ("asg", ("rng", fr, tr, L(A), I(i), I(j)), v)), ("ret", L(A))],
               [("expr", ("asg", G(0), c)), ("expr", ("asg", L(B), I(i))), ("expr", ("asg", L(C), I(j))),
                ("expr", ("asg", ("rng", fr, tr, G(0), L(B), L(C)), v)), ("ret", G(0))],
               [("expr", ("asg", L(A), c)), ("expr", ("asg", L(D), v)),
                ("expr", ("asg", ("rng", fr, tr, L(A), I(i), I(j)), L(D))), ("ret", L(A))]]
        return make_case(cid, fns, meta={"origin": "generated", "family": "lvalue"})

    def fam_switch(self, rng, cid):
        kind = rng.weighted([("direct", 3), ("sparse", 3), ("ranges", 3), ("big", 3), ("strings", 2), ("fall", 2), ("nested", 3)])
        if kind == "nested":
            # a switch inside an arm of another switch (the compiler's case stack is shared), labels overlap on purpose
            ok = sorted(set(rng.choice([0, 1, 2, 3, 5, 9, 100, 2 ** 32]) for _ in range(rng.range(2, 4))))
            ik = sorted(set(rng.choice([0, 1, 2, 3, 4, 7, 100, -1]) for _ in range(rng.range(2, 5))))
            inner_at = rng.below(len(ok))
            def inner(var):
                return ("switch", var, [(("num", q), [("ret", I(100 + j))]) for j, q in enumerate(ik)] +
                        ([("default", [("ret", I(199))])] if rng.chance(1, 2) else []))
            hasd_in = None
            fns, same = [], []
            va, vb = I(rng.choice(ok + [7, -5])), I(rng.choice(ik + [6, 50]))
            isw = inner(L(B))
            has_in_default = any(a[0] == "default" for a in isw[2])
            arms = []
            for j, q in enumerate(ok):
                body = [isw, ("ret", I(300 + j))] if j == inner_at else [("ret", I(10 + j))]
                arms.append((("num", q), body))
            arms.append(("default", [("ret", I(-1))]))
            # if-chain
            ichain = "nop"
            for j, q in reversed(list(enumerate(ik))):
                ichain = ("if", ("bin", "eq", L(B), I(q)), ("ret", I(100 + j)), ichain)
            ibody = [ichain] + ([("ret", I(199))] if has_in_default else []) + [("ret", I(300 + inner_at))]
            ochain = ("ret", I(-1))
            for j, q in reversed(list(enumerate(ok))):
                body = ("block", ibody) if j == inner_at else ("ret", I(10 + j))
                ochain = ("if", ("bin", "eq", L(A), I(q)), body, ochain)
            pre = [("expr", ("asg", L(A), va)), ("expr", ("asg", L(B), vb))]
            fns = [pre + [("switch", L(A), arms), ("ret", I(0))], pre + [ochain, ("ret", I(0))],
                   [("expr", ("asg", L(A), I(ok[inner_at]))), ("expr", ("asg", L(B), vb)), ("switch", L(A), arms), ("ret", I(0))],
                   [("expr", ("asg", L(A), I(ok[inner_at]))), ("expr", ("asg", L(B), vb)), ochain, ("ret", I(0))]]
            return make_case(cid, fns, same=[[0, 1], [2, 3]], meta={"origin": "generated", "family": "switch"})
        if kind == "strings":
            labs = [b"a", b"bb", b"", b"zed", b"q"]
            rng_labs = rng.shuffle(labs)[:rng.range(2, 5)]
            v = rng.choice([S(b"a"), S(b"bb"), S(b""), S(b"nope"), S(b"zed"), I(0), I(5), S(b"q")])
            arms = [(("str", l), [("ret", I(k + 1))]) for k, l in enumerate(rng_labs)]
            if rng.chance(1, 2):
                arms.insert(rng.below(len(arms) + 1), ("default", [("ret", I(-1))]))
            chain = "nop"
            for lab, ss in reversed([a for a in arms if a[0] != "default"]):
                chain = ("if", ("bin", "eq", L(A), S(lab[1])), ss[0], chain)
            dflt = [a for a in arms if a[0] == "default"]
            fns = [[("expr", ("asg", L(A), v)), ("switch", L(A), arms), ("ret", I(0))]]
            same = []
            if vtype(v) == "s":
                fns.append([("expr", ("asg", L(A), v)), chain] + ([dflt[0][1][0]] if dflt else []) + [("ret", I(0))])
                same = [[0, 1]]
            fns.append([("expr", ("asg", G(0), v)), ("switch", G(0), arms), ("ret", I(0))])
            return make_case(cid, fns, same=same, meta={"origin": "generated", "family": "switch"})
        if kind == "direct":
            lo = rng.choice([-1, 0, 1, 5, -3, 2 ** 31 - 3, -2 ** 31, 2 ** 32 - 1, 100])
            keys = [lo + q for q in range(rng.range(1, 6))]
            labels = [("num", q) for q in keys]
        elif kind == "sparse":
            keys = sorted(set(rng.choice([-7, -1, 0, 1, 3, 4, 9, 10, 50, 255, 256, 1000, -1000, 2 ** 31 - 1, -2 ** 31])
                              for _ in range(rng.range(2, 9))))
            labels = [("num", q) for q in keys]
        elif kind == "big":
            keys = sorted(set(rng.choice([0, 1, 5, 7, -3, 2 ** 31, 2 ** 32, 2 ** 32 + 1, -2 ** 32, 2 ** 33, I64MAX, I64MIN, I64MIN + 1,
                                          2 ** 62, -2 ** 40]) for _ in range(rng.range(2, 8))))
            labels = [("num", q) for q in keys]
        elif kind == "ranges":
            pts = sorted(set(rng.choice([-20, -10, -5, -1, 0, 1, 3, 6, 10, 11, 12, 20, 2 ** 32, 2 ** 32 + 5, 2 ** 40])
                             for _ in range(rng.range(3, 9))))
            labels = []
            q = 0
            while q < len(pts):
                if q + 1 < len(pts) and rng.chance(1, 2):
                    labels.append(("range", pts[q], pts[q + 1]))
                    q += 2
                else:
                    labels.append(("num", pts[q]))
                    q += 1
            keys = pts
        else:
            keys = [1, 2, 3]
            labels = [("num", q) for q in keys]
        labels = rng.shuffle(labels)
        probe = keys + [keys[0] - 1, keys[-1] + 1, I64MAX, I64MIN, 0, 2 ** 32, 2 ** 31, -2 ** 32]
        v = I(wrap(rng.choice(probe)))
        if rng.chance(1, 15):
            v = rng.choice([S(b"a"), Fl(1.0)])
        if kind == "fall":
            arms = [(("num", 1), [("expr", ("aop", "add", L(LN), I(1)))]),
                    (("num", 2), [("expr", ("aop", "add", L(LN), I(2))), "break"]),
                    (("num", 3), [("expr", ("aop", "add", L(LN), I(4)))]),
                    ("default", [("expr", ("aop", "add", L(LN), I(8)))])]
            v = I(rng.choice([1, 2, 3, 4, 0]))
            fns = [[("expr", ("asg", L(A), v)), ("switch", L(A), arms), ("ret", L(LN))],
                   [("expr", ("asg", G(0), v)), ("switch", G(0), arms), ("ret", L(LN))]]
            return make_case(cid, fns, meta={"origin": "generated", "family": "switch"})
        arms = [(lab, [("ret", I(k + 1))]) for k, lab in enumerate(labels)]
        hasd = rng.chance(1, 2)
        if hasd:
            arms.insert(rng.below(len(arms) + 1), ("default", [("ret", I(-1))]))
        chain = "nop"
        for lab, ss in reversed([a for a in arms if a[0] != "default"]):
            cond = ("bin", "eq", L(A), I(lab[1])) if lab[0] == "num" else \
                ("and", ("bin", "ge", L(A), I(lab[1])), ("bin", "le", L(A), I(lab[2])))
            chain = ("if", cond, ss[0], chain)
        fns = [[("expr", ("asg", L(A), v)), ("switch", L(A), arms), ("ret", I(0))]]
        same = []
        if vtype(v) == "i":
            fns.append([("expr", ("asg", L(A), v)), chain] + ([("ret", I(-1))] if hasd else []) + [("ret", I(0))])
            same = [[0, 1, 2, 3]]
        fns.append([("expr", ("asg", G(0), v)), ("switch", G(0), arms), ("ret", I(0))])
        fns.append([("switch", v, arms), ("ret", I(0))])
        if not same:
            same = [[0, 1, 2]]
        return make_case(cid, fns, same=same, meta={"origin": "generated", "family": "switch"})

    def fam_loop(self, rng, cid):
        kind = rng.weighted([("count", 4), ("whiledec", 3), ("foreach", 3), ("grow", 3), ("string", 2), ("mapiter", 2)])
        body_add = lambda var: ("expr", ("aop", "add", L(LN), var))
        if kind == "count":
            lo = rng.choice([0, 1, -3, 2 ** 31 - 2, 2 ** 32 - 3, 2 ** 32, -2 ** 32 - 1, I64MAX - 4])
            cnt = rng.choice([0, 1, 2, 5, 9])
            if lo + cnt > I64MAX:
                cnt = I64MAX - lo
            hi = lo + cnt
            fns = [
                [("for", ("expr", ("asg", L(LI), I(lo))), ("bin", "lt", L(LI), I(hi)), ("expr", ("inc", "postinc", L(LI))), body_add(I(1))),
                 ("ret", Arr([L(LN), L(LI)]))],
                [("expr", ("asg", L(LI), I(lo))), ("while", ("bin", "lt", L(LI), I(hi)), ("block", [body_add(I(1)), ("expr", ("inc", "postinc", L(LI)))])),
                 ("ret", Arr([L(LN), L(LI)]))],
                [("expr", ("asg", L(LJ), I(hi))),
                 ("for", ("expr", ("asg", L(LI), I(lo))), ("bin", "lt", L(LI), L(LJ)), ("expr", ("inc", "preinc", L(LI))), body_add(I(1))),
                 ("ret", Arr([L(LN), L(LI)]))],
                [("expr", ("asg", L(A), I(hi))),
                 ("for", ("expr", ("asg", L(LI), I(lo))), ("bin", "lt", L(LI), L(A)), ("expr", ("aop", "add", L(LI), I(1))), body_add(I(1))),
                 ("ret", Arr([L(LN), L(LI)]))],
                [("for", ("expr", ("asg", G(3), I(lo))), ("bin", "lt", G(3), I(hi)), ("expr", ("inc", "postinc", G(3))), body_add(I(1))),
                 ("ret", Arr([L(LN), G(3)]))],
            ]
            if cnt > 0:
                fns.append([("expr", ("asg", L(LI), I(lo))),
                            ("do", ("block", [body_add(I(1)), ("expr", ("inc", "postinc", L(LI)))]), ("bin", "lt", L(LI), I(hi))),
                            ("ret", Arr([L(LN), L(LI)]))])
            return make_case(cid, fns, meta={"origin": "generated", "family": "loop"})
        if kind == "whiledec":
            x = rng.choice([0, 1, 3, 7, 2 ** 32, 2 ** 32 + 2, -1, 2 ** 33])
            guard = ("if", ("bin", "gt", L(LN), I(10)), "break", "nop")
            fns = [
                [("expr", ("asg", L(LI), I(x))), ("while", ("inc", "postdec", L(LI)), ("block", [body_add(I(1)), guard])), ("ret", L(LN))],
                [("expr", ("asg", G(3), I(x))), ("while", ("inc", "postdec", G(3)), ("block", [body_add(I(1)), guard])), ("ret", L(LN))],
                [("expr", ("asg", L(A), I(x))), ("while", ("inc", "postdec", L(A)), ("block", [body_add(I(1)), guard])), ("ret", L(LN))],
                [("expr", ("asg", L(LI), I(x))),
                 ("while", ("bin", "ne", L(LI), I(0)), ("block", [("expr", ("inc", "postdec", L(LI))), body_add(I(1)), guard])),
                 ("ret", L(LN))],
            ]
            return make_case(cid, fns, meta={"origin": "generated", "family": "loop"})
        if kind == "foreach":
            n = rng.choice([0, 1, 4, 9])
            arr = Arr([I(pick_int(rng) % 1000) for _ in range(n)])
            if rng.chance(1, 4):
                arr = Arr([Fl(pick_float(rng)) for _ in range(n)])
            acc = L(C)
            add = lambda v: ("expr", ("asg", acc, ("bin", "add", acc, v)))
            fns = [
                [("expr", ("asg", L(A), arr)), ("expr", ("asg", acc, I(0))), ("foreach", L(B), L(A), add(L(B))), ("ret", acc)],
                [("expr", ("asg", L(A), arr)), ("expr", ("asg", acc, I(0))),
                 ("for", ("expr", ("asg", L(LI), I(0))), ("bin", "lt", L(LI), ("efun", "sizeof", [L(A)])), ("expr", ("inc", "postinc", L(LI))),
                  add(("idx", L(A), L(LI)))), ("ret", acc)],
                [("expr", ("asg", L(A), arr)), ("expr", ("asg", acc, I(0))), ("expr", ("asg", L(LI), I(0))),
                 ("while", ("bin", "lt", L(LI), ("efun", "sizeof", [L(A)])), ("block", [add(("idx", L(A), L(LI))), ("expr", ("inc", "preinc", L(LI)))])),
                 ("ret", acc)],
                [("expr", ("asg", G(0), arr)), ("expr", ("asg", acc, I(0))), ("foreach", G(1), G(0), add(G(1))), ("ret", acc)],
                [("ret", ("call", "f_sum", [arr], "local"))],
                [("ret", ("call", "h_sum", [arr], "inherit"))],
                [("ret", ("call", "f_sum", [arr], "fptr"))],
            ]
            return make_case(cid, fns, meta={"origin": "generated", "family": "loop"})
        if kind == "grow":
            n = rng.choice([1, 7, 8, 9, 15, 16, 17, 31, 32, 33, 63, 64, 65, 100, 127, 128, 129, 260, 513, 1030])
            what = rng.choice(["arr", "map", "str", "mapstr"])
            if what == "arr":
                build = ("for", ("expr", ("asg", L(LI), I(0))), ("bin", "lt", L(LI), I(n)), ("expr", ("inc", "postinc", L(LI))),
                         ("expr", ("aop", "add", L(A), Arr([("bin", "mul", L(LI), L(LI))]))))
                fns = [[("expr", ("asg", L(A), Arr([]))), build, ("ret", Arr([("efun", "sizeof", [L(A)]), ("idx", L(A), I(n - 1)), ("call", "f_sum", [L(A)], "local")]))],
                       [("expr", ("asg", L(A), ("efun", "allocate", [I(n)]))),
                        ("for", ("expr", ("asg", L(LI), I(0))), ("bin", "lt", L(LI), I(n)), ("expr", ("inc", "postinc", L(LI))),
                         ("expr", ("asg", ("idx", L(A), L(LI)), ("bin", "mul", L(LI), L(LI))))),
                        ("ret", Arr([("efun", "sizeof", [L(A)]), ("idx", L(A), I(n - 1)), ("call", "f_sum", [L(A)], "local")]))]]
            elif what in ("map", "mapstr"):
                key = (lambda v: v) if what == "map" else (lambda v: ("bin", "add", S(b"k"), v))
                build = ("for", ("expr", ("asg", L(LI), I(0))), ("bin", "lt", L(LI), I(n)), ("expr", ("inc", "postinc", L(LI))),
                         ("expr", ("asg", ("idx", L(A), key(L(LI))), ("bin", "mul", L(LI), I(3)))))
                read = ("for", ("expr", ("asg", L(LI), I(0))), ("bin", "lt", L(LI), I(n + 2)), ("expr", ("inc", "postinc", L(LI))),
                        ("expr", ("aop", "add", L(LN), ("idx", L(A), key(L(LI))))))
                fns = [[("expr", ("asg", L(A), Map([]))), build, read, ("ret", Arr([("efun", "sizeof", [L(A)]), L(LN)]))],
                       [("expr", ("asg", G(0), Map([]))), ("expr", ("asg", L(A), G(0))), build,
                        ("foreach2", L(B), L(C), L(A), ("expr", ("aop", "add", L(LN), L(C)))),
                        ("ret", Arr([("efun", "sizeof", [L(A)]), L(LN)]))]]
                if n <= 20:
                    fns.append([("expr", ("asg", L(A), Map([]))), build, ("ret", L(A))])
                    return make_case(cid, fns, same=[[0, 1]], meta={"origin": "generated", "family": "loop"})
            else:
                build = ("for", ("expr", ("asg", L(LI), I(0))), ("bin", "lt", L(LI), I(n)), ("expr", ("inc", "postinc", L(LI))),
                         ("expr", ("aop", "add", L(LS), S(b"ab"))))
                fns = [[("expr", ("asg", L(LS), S(b""))), build, ("ret", Arr([("efun", "strlen", [L(LS)]), ("rng", False, False, L(LS), I(2 * n - 3), I(2 * n))]))],
                       [("expr", ("asg", L(LS), S(b""))),
                        ("for", ("expr", ("asg", L(LI), I(0))), ("bin", "lt", L(LI), I(n)), ("expr", ("inc", "postinc", L(LI))),
                         ("expr", ("asg", L(LS), ("bin", "add", L(LS), S(b"ab"))))),
                        ("ret", Arr([("efun", "strlen", [L(LS)]), ("rng", False, False, L(LS), I(2 * n - 3), I(2 * n))]))]]
            return make_case(cid, fns, meta={"origin": "generated", "family": "loop"})
        if kind == "string":
            sb = rng.choice(STRS)
            ascii_only = all(c < 128 for c in sb)
            col = lambda v: ("expr", ("aop", "add", L(C), Arr([v])))
            fns = [[("expr", ("asg", L(A), S(sb))), ("expr", ("asg", L(C), Arr([]))), ("foreach", L(B), L(A), col(L(B))), ("ret", L(C))],
                   [("expr", ("asg", G(0), S(sb))), ("expr", ("asg", L(C), Arr([]))), ("foreach", L(LI), G(0), col(L(LI))), ("ret", L(C))],
                   [("expr", ("asg", L(A), S(sb))), ("expr", ("asg", L(C), Arr([]))),
                    ("for", ("expr", ("asg", L(LI), I(0))), ("bin", "lt", L(LI), ("efun", "strlen", [L(A)])), ("expr", ("inc", "postinc", L(LI))),
                     col(("idx", L(A), L(LI)))), ("ret", L(C))]]
            return make_case(cid, fns, same=[[0, 1, 2] if ascii_only else [0, 1]], meta={"origin": "generated", "family": "loop"})
        n = rng.choice([0, 1, 5, 7, 8, 9, 15, 16, 17, 40, 64, 65, 130])
        m = Map([(I(q * 3), I(q + 1)) for q in range(n)])
        if rng.chance(1, 3):
            n = min(n, 17)    # keep the program text small: a pre_text above ~6 KB trips refill_buffer in lex.c (see notes)
            m = Map([(S(("k%d" % q).encode()), I(q + 1)) for q in range(n)])
            fns = [[("expr", ("asg", L(A), m)), ("foreach2", L(B), L(C), L(A), ("expr", ("aop", "add", L(LN), ("bin", "add", ("efun", "strlen", [L(B)]), L(C))))), ("ret", L(LN))],
                   [("expr", ("asg", G(0), m)), ("foreach2", G(1), G(2), G(0), ("expr", ("aop", "add", L(LN), ("bin", "add", ("efun", "strlen", [G(1)]), G(2))))), ("ret", L(LN))],
                   [("expr", ("asg", L(A), m)),
                    ("for", ("expr", ("asg", L(LI), I(0))), ("bin", "lt", L(LI), I(n)), ("expr", ("inc", "postinc", L(LI))),
                     ("expr", ("aop", "add", L(LN), ("bin", "add", ("efun", "strlen", [("bin", "add", S(b"k"), L(LI))]), ("idx", L(A), ("bin", "add", S(b"k"), L(LI))))))),
                    ("ret", L(LN))]]
            return make_case(cid, fns, meta={"origin": "generated", "family": "loop"})
        fns = [[("expr", ("asg", L(A), m)), ("foreach2", L(B), L(C), L(A), ("expr", ("aop", "add", L(LN), ("bin", "add", L(B), L(C))))), ("ret", L(LN))],
               [("expr", ("asg", L(A), m)),
                ("for", ("expr", ("asg", L(LI), I(0))), ("bin", "lt", L(LI), I(n)), ("expr", ("inc", "postinc", L(LI))),
                 ("expr", ("aop", "add", L(LN), ("bin", "add", ("bin", "mul", L(LI), I(3)), ("idx", L(A), ("bin", "mul", L(LI), I(3))))))),
                ("ret", L(LN))]]
        return make_case(cid, fns, meta={"origin": "generated", "family": "loop"})

    def fam_assignop(self, rng, cid):
        op = rng.choice(["add", "sub", "mul", "div", "mod", "band", "bor", "bxor", "lsh", "rsh"])
        if op in ("lsh", "rsh"):
            a, b = I(pick_int(rng)), I(rng.choice([0, 1, 5, 31, 32, 63]))
        elif op in ("band", "bor", "bxor", "mod"):
            # array intersection (`&` on arrays) is outside the covered core (notes/C03.md)
            a, b = pick_scalar(rng), pick_scalar(rng)
        else:
            a = pick_scalar(rng) if rng.chance(4, 5) else rng.choice([small_arr(rng), Map([(I(1), I(2))]), Buf([65, 66])])
            b = pick_scalar(rng) if rng.chance(4, 5) else rng.choice([small_arr(rng), Map([(I(1), I(3)), (I(4), I(5))]), Buf([67])])
        if op in ("div", "mod", "mul"):
            # zero on either side, in either numeric type: the divisor test must look at the divisor, whatever the dividend is
            zs = [I(0), Fl(0.0)] if op != "mod" else [I(0)]
            if rng.chance(1, 3):
                a = rng.choice(zs)
            if rng.chance(1, 3):
                b = rng.choice(zs)
        fns = [[("expr", ("asg", L(A), a)), ("expr", ("asg", L(B), b)), ("expr", ("aop", op, L(A), L(B))), ("ret", L(A))],
               [("expr", ("asg", L(A), a)), ("expr", ("asg", L(B), b)), ("expr", ("asg", L(A), ("bin", op, L(A), L(B)))), ("ret", L(A))],
               [("expr", ("asg", G(0), a)), ("expr", ("asg", G(1), b)), ("expr", ("aop", op, G(0), G(1))), ("ret", G(0))],
               [("expr", ("asg", L(A), a)), ("expr", ("asg", L(B), b)), ("ret", ("aop", op, L(A), L(B)))],
               [("expr", ("asg", L(A), a)), ("expr", ("asg", L(B), b)), ("ret", ("asg", L(A), ("bin", op, L(A), L(B))))],
               [("expr", ("asg", L(A), Arr([a]))), ("expr", ("asg", L(B), b)), ("expr", ("aop", op, ("idx", L(A), I(0)), L(B))),
                ("ret", ("idx", L(A), I(0)))]]
        return make_case(cid, fns, meta={"origin": "generated", "family": "assignop"})

    def fam_literal(self, rng, cid):
        if rng.chance(1, 3):
            # mapping literals with REPEATED keys (the later value wins), keys of mixed types, next to the element-wise build
            pool = [I(0), I(1), I(16), I(2 ** 32), I(-1), S(b"a"), S(b"b"), S(b""), Fl(0.0), Fl(1.0), Fl(2.5)]
            n = rng.range(2, 9)
            ks = [rng.choice(pool) for _ in range(rng.range(1, 4))]
            keys = [rng.choice(ks) if rng.chance(1, 2) else rng.choice(pool) for _ in range(n)]
            vals = [rng.choice([I(100 + q), S(b"v%d" % q), Arr([I(q)])]) for q in range(n)]
            lit = Map(list(zip(keys, vals)))
            build = [("expr", ("asg", L(A), Map([])))] + [("expr", ("asg", ("idx", L(A), k), v)) for k, v in zip(keys, vals)]
            vkeys = [("expr", ("asg", L(B), Arr(keys)))]
            litv = Map([(("idx", L(B), I(q)), v) for q, v in enumerate(vals)])      # keys known only at run time
            rd = lambda m: Arr([("efun", "sizeof", [m])] + [("idx", m, k) for k in ks])
            fns = [[("expr", ("asg", L(A), lit)), ("ret", Arr([L(A), rd(L(A))]))],
                   build + [("ret", Arr([L(A), rd(L(A))]))],
                   vkeys + [("expr", ("asg", L(A), litv)), ("ret", Arr([L(A), rd(L(A))]))],
                   [("expr", ("asg", G(0), lit)), ("ret", Arr([G(0), rd(G(0))]))]]
            return make_case(cid, fns, meta={"origin": "generated", "family": "literal", "kind": "mapdup"})
        vals = [rng.choice(INTS + [-128, 127, 128, -129, 65535, 65536, -65536, 2 ** 31 - 2, 2 ** 63 - 2]) for _ in range(rng.range(1, 12))]
        fns = [[("ret", Arr([I(v) for v in vals]))],
               [("expr", ("asg", L(A), Arr([]))), ] + [("expr", ("aop", "add", L(A), Arr([("bin", "add", ("bin", "sub", I(v), L(LI)), L(LI))]))) for v in vals] +
               [("ret", L(A))],
               [("ret", Arr([("macro", "K%d" % q, None, I(v)) for q, v in enumerate(vals)]))]]
        defs = ["#define K%d %s" % (q, lpc_e(I(v), None)) for q, v in enumerate(vals)]
        if rng.chance(1, 2):
            sv = [S(rng.choice(STRS)) for _ in range(3)]
            fns.append([("ret", Arr(sv + [("bin", "add", sv[0], sv[1]), Fl(pick_float(rng))]))])
            return make_case(cid, fns, same=[[0, 1, 2]], defines=defs, meta={"origin": "generated", "family": "literal"})
        return make_case(cid, fns, defines=defs, meta={"origin": "generated", "family": "literal"})

    def fam_rewrite(self, rng, cid):
        v = rng.choice([I(0), I(1), I(-1), I(2 ** 32), Fl(0.0), Fl(1.5), Fl(-1.0), S(b""), S(b"0"), Arr([]), I(I64MIN)])
        t = vtype(v)
        var = {"i": LI, "f": LX, "s": LS}.get(t, A)
        kind = rng.weighted([("eq0", 4), ("add0", 3), ("sub0", 2), ("notcond", 2), ("ifne", 3), ("mixarith", 3)])
        if kind == "eq0":
            fns = [[("expr", ("asg", L(var), v)), ("ret", ("bin", "eq", L(var), I(0)))],
                   [("expr", ("asg", L(var), v)), ("ret", ("bin", "eq", I(0), L(var)))],
                   [("expr", ("asg", L(A), v)), ("ret", ("bin", "eq", L(A), I(0)))],
                   [("expr", ("asg", L(A), v)), ("expr", ("asg", L(B), I(0))), ("ret", ("bin", "eq", L(A), L(B)))],
                   [("expr", ("asg", G(0), v)), ("ret", ("bin", "eq", G(0), I(0)))]]
            if t in ("i", "f"):
                fns.append([("ret", ("bin", "eq", v, I(0)))])
        elif kind == "add0":
            if t not in ("i", "f"):
                v, t, var = Fl(1.5), "f", LX
            fns = [[("expr", ("asg", L(var), v)), ("ret", ("bin", "add", I(0), L(var)))],
                   [("expr", ("asg", L(var), v)), ("ret", ("bin", "add", L(var), I(0)))],
                   [("expr", ("asg", L(A), v)), ("expr", ("asg", L(B), I(0))), ("ret", ("bin", "add", L(B), L(A)))],
                   [("expr", ("asg", L(A), v)), ("ret", ("bin", "add", L(A), I(0)))],
                   [("ret", ("bin", "add", I(0), v))]]
        elif kind == "sub0":
            if t not in ("i", "f"):
                v, t, var = I(5), "i", LI
            fns = [[("expr", ("asg", L(var), v)), ("ret", ("bin", "sub", I(0), L(var)))],
                   [("expr", ("asg", L(var), v)), ("ret", ("un", "neg", L(var)))],
                   [("expr", ("asg", L(A), v)), ("expr", ("asg", L(B), I(0))), ("ret", ("bin", "sub", L(B), L(A)))],
                   [("expr", ("asg", L(var), v)), ("ret", ("bin", "sub", L(var), I(0)))]]
            # `0 - x` and `-x` differ in the sign of a zero result: not declared siblings
            return make_case(cid, fns, same=[[0, 2]], meta={"origin": "generated", "family": "rewrite"})
        elif kind == "notcond":
            fns = [[("expr", ("asg", L(A), v)), ("ret", ("cond", ("un", "not", L(A)), I(10), I(20)))],
                   [("expr", ("asg", L(A), v)), ("ret", ("cond", L(A), I(20), I(10)))],
                   [("expr", ("asg", L(A), v)), ("if", ("un", "not", L(A)), ("ret", I(10)), ("ret", I(20)))],
                   [("expr", ("asg", L(A), v)), ("if", L(A), ("block", []), ("ret", I(10))), ("ret", I(20))]]
        elif kind == "ifne":
            fns = [[("expr", ("asg", L(var), v)), ("if", ("bin", "ne", L(var), I(0)), ("ret", I(1)), "nop"), ("ret", I(0))],
                   [("expr", ("asg", L(A), v)), ("if", ("bin", "ne", L(A), I(0)), ("ret", I(1)), "nop"), ("ret", I(0))],
                   [("expr", ("asg", L(A), v)), ("expr", ("asg", L(B), I(0))), ("if", ("bin", "ne", L(A), L(B)), ("ret", I(1)), "nop"), ("ret", I(0))],
                   [("expr", ("asg", L(A), v)), ("ret", ("bin", "ne", L(A), I(0)))]]
        else:
            # the grammar types `mixed + int` as int: rewrites guarded by that type (known finding optimistic-types)
            m = rng.choice([Fl(-1.0), Fl(0.5), I(-1), I(3), S(b"s")])
            fns = [[("expr", ("asg", L(A), m)), ("ret", ("bin", "eq", ("bin", "add", L(A), I(1)), I(0)))],
                   [("expr", ("asg", L(A), m)), ("expr", ("asg", L(B), ("bin", "add", L(A), I(1)))), ("expr", ("asg", L(C), I(0))),
                    ("ret", ("bin", "eq", L(B), L(C)))],
                   [("expr", ("asg", L(A), m)), ("ret", ("bin", "add", I(0), ("bin", "add", L(A), I(1))))],
                   [("expr", ("asg", L(A), m)), ("expr", ("asg", L(B), ("bin", "add", L(A), I(1)))), ("expr", ("asg", L(C), I(0))),
                    ("ret", ("bin", "add", L(C), L(B)))]]
            return make_case(cid, fns, same=[[0, 1], [2, 3]], meta={"origin": "generated", "family": "rewrite"})
        return make_case(cid, fns, meta={"origin": "generated", "family": "rewrite"})

    def fam_macro(self, rng, cid):
        a, b = I(pick_int(rng)), I(pick_int(rng))
        if rng.chance(1, 3):
            a = Fl(pick_float(rng))
        sq = lambda e: ("bin", "mul", e, e)
        k = rng.choice(INTS)
        cmpv = rng.choice([0, 5, 2 ** 31, 2 ** 32])
        defs = ["#define SQR(x) ((x) * (x))", "#define ADD3(p, q, r) ((p) + (q) + (r))", "#define KK %s" % lpc_e(I(k), None),
                "#if KK > %s" % lpc_e(I(cmpv), None), "#define SEL 1", "#else", "#define SEL 2", "#endif",
                "#define TWICE(x) ADD3(x, x, 0)",
                "#define MAXV(p, q) ((p) < (q) ? (p) : (q))", "#undef MAXV", "#define MAXV(p, q) ((p) > (q) ? (p) : (q))",
                "#ifdef MAXV", "#define HASMAX 1", "#else", "#define HASMAX 0", "#endif",
                "#ifndef NO_SUCH_MACRO", "#define PAIR(p) ({ (p), SQR(p) })", "#endif",
                "#if defined(SQR) && !defined(NO_SUCH_MACRO) && (KK == KK)", "#define COND3 3", "#else", "#define COND3 4", "#endif"]
        mx = lambda p, q: ("cond", ("bin", "gt", p, q), p, q)
        extra_m = [("macro", "MAXV", [a, b], mx(a, b)), ("macro", "HASMAX", None, I(1)), ("macro", "PAIR", [b], Arr([b, sq(b)])),
                   ("macro", "COND3", None, I(3))]
        extra_x = [mx(a, b), I(1), Arr([b, sq(b)]), I(3)]
        add3 = lambda p, q, r: ("bin", "add", ("bin", "add", p, q), r)
        sel = ("cond", ("efun", "#if", [("bin", "gt", I(k), I(cmpv))]), I(1), I(2))
        fns = [[("ret", Arr([("macro", "SQR", [a], sq(a)), ("macro", "ADD3", [a, b, I(1)], add3(a, b, I(1))), ("macro", "KK", None, I(k)),
                             ("macro", "SEL", None, sel), ("macro", "TWICE", [b], add3(b, b, I(0)))] + extra_m))],
               [("ret", Arr([sq(a), add3(a, b, I(1)), I(k), I(1 if k > cmpv else 2), add3(b, b, I(0))] + extra_x))],
               [("expr", ("asg", L(A), a)), ("expr", ("asg", L(B), b)),
                ("ret", Arr([("macro", "SQR", [L(A)], sq(L(A))), ("macro", "ADD3", [L(A), L(B), I(1)], add3(L(A), L(B), I(1))), I(k),
                             I(1 if k > cmpv else 2), ("macro", "TWICE", [L(B)], add3(L(B), L(B), I(0)))] +
                           [("macro", "MAXV", [L(A), L(B)], mx(L(A), L(B))), I(1), ("macro", "PAIR", [L(B)], Arr([L(B), sq(L(B))])), I(3)]))]]
        return make_case(cid, fns, defines=defs, meta={"origin": "generated", "family": "macro"})

    def fam_calls(self, rng, cid):
        """the same computation through a local function, an inherited one (::), function pointers (plain, with a
        bound first argument, anonymous functional) and directly"""
        kind = rng.weighted([("bin", 5), ("nested", 3), ("idx", 2), ("sum", 2)])
        if kind == "bin":
            op = rng.choice(["add", "sub", "mul"])
            a, b = pick_scalar(rng), pick_scalar(rng)
            if rng.chance(1, 5) and op != "mul":
                a, b = small_arr(rng), small_arr(rng)
            pre = [("expr", ("asg", L(A), a)), ("expr", ("asg", L(B), b))]
            fns = [pre + [("ret", ("bin", op, L(A), L(B)))],
                   pre + [("ret", ("call", "f_" + op, [L(A), L(B)], "local"))],
                   pre + [("ret", ("call", "h_" + op, [L(A), L(B)], "inherit"))],
                   pre + [("ret", ("call", "f_" + op, [L(A), L(B)], "fptr"))],
                   pre + [("ret", ("call", "f_" + op, [L(A), L(B)], "fptr1"))],
                   pre + [("ret", ("call", "h_" + op, [L(A), L(B)], "fptr"))],
                   pre + [("ret", ("lam2", op, L(A), L(B)))],
                   [("ret", ("call", "f_" + op, [a, b], "fptr1"))],
                   [("expr", ("asg", G(0), a)), ("expr", ("asg", G(1), b)), ("ret", ("call", "h_" + op, [G(0), G(1)], "inherit"))]]
        elif kind == "nested":
            a, b, c = I(pick_int(rng)), I(pick_int(rng)), (I(pick_int(rng)) if rng.chance(2, 3) else Fl(pick_float(rng)))
            pre = [("expr", ("asg", L(A), a)), ("expr", ("asg", L(B), b)), ("expr", ("asg", L(C), c))]
            fns = [pre + [("ret", ("bin", "sub", ("bin", "add", ("bin", "mul", L(A), L(B)), L(C)), L(A)))],
                   pre + [("ret", ("call", "f_sub", [("call", "h_add", [("call", "f_mul", [L(A), L(B)], "local"), L(C)], "inherit"), L(A)], "local"))],
                   pre + [("ret", ("call", "h_sub", [("call", "f_add", [("call", "h_mul", [L(A), L(B)], "inherit"), L(C)], "fptr"), L(A)], "inherit"))],
                   pre + [("ret", ("lam2", "sub", ("call", "f_add", [("lam2", "mul", L(A), L(B)), L(C)], "fptr1"), ("call", "f_id", [L(A)], "fptr")))],
                   pre + [("ret", ("call", "h_id", [("call", "f_id", [("bin", "sub", ("bin", "add", ("bin", "mul", L(A), L(B)), L(C)), L(A))], "fptr")], "inherit"))]]
        elif kind == "idx":
            c, n, k = self.pick_container(rng)
            i = I(self.idx_value(rng, n)) if k != "map" else rng.choice([I(0), S(b"k"), Fl(1.5), S(b"none")])
            pre = [("expr", ("asg", L(A), c)), ("expr", ("asg", L(B), i))]
            fns = [pre + [("ret", ("idx", L(A), L(B)))],
                   pre + [("ret", ("call", "f_idx", [L(A), L(B)], "local"))],
                   pre + [("ret", ("call", "h_idx", [L(A), L(B)], "inherit"))],
                   pre + [("ret", ("call", "f_idx", [L(A), L(B)], "fptr"))],
                   pre + [("ret", ("call", "h_idx", [L(A), L(B)], "fptr1"))]]
        else:
            n = rng.choice([0, 1, 3, 17, 70])
            arr = Arr([I(pick_int(rng) % 997) for _ in range(n)])
            pre = [("expr", ("asg", L(A), arr))]
            fns = [pre + [("ret", ("call", "f_sum", [L(A)], "local"))],
                   pre + [("ret", ("call", "h_sum", [L(A)], "inherit"))],
                   pre + [("ret", ("call", "h_sum", [L(A)], "fptr"))],
                   pre + [("ret", ("call", "f_sum", [("call", "h_id", [L(A)], "inherit")], "fptr"))],
                   pre + [("expr", ("asg", L(C), I(0))), ("foreach", L(B), L(A), ("expr", ("aop", "add", L(C), L(B)))), ("ret", L(C))]]
        return make_case(cid, fns, meta={"origin": "generated", "family": "calls"})

    # ---- mapping algebra: sizes around every growth threshold, keys whose hashes spread over the table ------------
    # lib/lpc/mapping.c: bucket = (key bits >> 4) & table_size; the table starts with MAP_HASH_TABLE_SIZE buckets and doubles
    # (growMap) when FILL_PERCENT of its buckets are occupied
    MAP_SIZES = [1, 4, 5, 6, 7, 8, 9, 11, 12, 13, 14, 24, 25, 26, 27, 28, 50, 51, 52, 53, 54, 101, 102, 103, 104, 105, 205, 208, 211]

    def map_sizes(self):
        """sizes around every growth threshold, from the constants regenerated into NV/Gen/C03.lean (stage A)"""
        import re
        try:
            txt = open(os.path.join(E.LEAN, "NV/Gen/C03.lean")).read()
            t0 = int(re.search(r"def mapHashTableSize : Nat := (\d+)", txt).group(1))
            fill = int(re.search(r"def mapFillPercent : Nat := (\d+)", txt).group(1))
        except Exception:
            return self.MAP_SIZES
        out = {1, t0 // 2}
        t = t0
        while t <= 256:
            thr = t * fill // 100          # occupied buckets at which growMap is called
            out.update(x for x in (thr - 2, thr - 1, thr, thr + 1, thr + 2, t - 1, t, t + 1) if x > 0)
            t *= 2
        return sorted(out)

    def map_keyfn(self, rng):
        """key as a function of the loop index (an expression over `ix`), with hashes that spread"""
        kind = rng.weighted([("i16", 4), ("big", 3), ("neg", 2), ("flt", 3), ("str", 4), ("odd", 2), ("mix", 2)])
        off = rng.choice([0, 3, 16, 48, 112])
        step = rng.choice([16, 16, 48, 80, 272])
        if kind == "i16":
            return kind, (lambda ix: ("bin", "add", ("bin", "mul", ix, I(step)), I(off)))
        if kind == "big":
            base = rng.choice([65536, 2 ** 32, 2 ** 40 + 16, 2 ** 62])
            return kind, (lambda ix: ("bin", "add", I(base), ("bin", "mul", ix, I(step))))
        if kind == "neg":
            return kind, (lambda ix: ("bin", "sub", I(-5 - off), ("bin", "mul", ix, I(step))))
        if kind == "flt":
            f = rng.choice([0.37, 0.1, 1.7, 1000.3])
            return kind, (lambda ix: ("bin", "add", ("bin", "mul", ix, Fl(f)), Fl(0.01)))
        if kind == "str":
            pre = rng.choice([b"s", b"key_", b"", b"\xc3\xa9"])
            return kind, (lambda ix: ("bin", "add", S(pre), ix))
        if kind == "odd":
            return kind, (lambda ix: ("bin", "add", ("bin", "mul", ix, I(7)), I(off)))
        # alternating ints and strings
        return kind, (lambda ix: ("cond", ("bin", "band", ix, I(1)), ("bin", "add", S(b"m"), ix), ("bin", "mul", ix, I(step))))

    def fam_mapalg(self, rng, cid):
        kname, K = self.map_keyfn(rng)
        sizes = self.map_sizes()
        n1 = rng.choice(sizes)
        n2 = rng.choice(sizes)
        if rng.chance(1, 3):
            n1, n2 = n2, min(n1, n2)          # add_mapping copies the larger operand: make both orders frequent
        lo2 = rng.choice([0, n1, max(n1 - 3, 0), n1 // 2, n1 + 5])
        top = max(n1, lo2 + n2) + 2
        V1 = lambda ix: ("bin", "add", ix, I(1000))
        V2 = lambda ix: ("bin", "add", ix, I(5000))
        loop = lambda var, lo, hi, body: ("for", ("expr", ("asg", L(var), I(lo))), ("bin", "lt", L(var), I(hi)),
                                          ("expr", ("inc", "postinc", L(var))), body)
        build = lambda m, lo, hi, V: loop(LI, lo, hi, ("expr", ("asg", ("idx", m, K(L(LI))), V(L(LI)))))
        # read back EVERY key of both operands (and two that are in neither) through m[k]
        read = lambda m: [("expr", ("asg", L(D), Arr([]))),
                          loop(LJ, 0, top, ("expr", ("aop", "add", L(D), Arr([("idx", m, K(L(LJ)))]))))]
        init = [("expr", ("asg", L(A), Map([]))), build(L(A), 0, n1, V1),
                ("expr", ("asg", L(B), Map([]))), build(L(B), lo2, lo2 + n2, V2)]
        small = n1 + n2 <= 16

        def finish(cvar, extra=None):
            out = read(cvar) + [("expr", ("asg", G(1), L(D)))] + read(L(A)) + [("expr", ("asg", G(2), L(D)))] + read(L(B))
            items = [("efun", "sizeof", [cvar]), G(1), ("efun", "sizeof", [L(A)]), G(2), ("efun", "sizeof", [L(B)]), L(D)]
            if small:
                items.append(cvar)
            return out + [("ret", Arr(items))]
        op = rng.weighted([("add", 6), ("delete", 3), ("compose", 2), ("self", 1)])
        if op == "add":
            fns = [init + [("expr", ("asg", L(C), ("bin", "add", L(A), L(B))))] + finish(L(C)),
                   init + [("expr", ("asg", L(C), ("bin", "add", L(A), Map([])))), ("expr", ("aop", "add", L(C), L(B)))] + finish(L(C)),
                   init + [("expr", ("asg", L(C), Map([]))), build(L(C), 0, n1, V1), build(L(C), lo2, lo2 + n2, V2)] + finish(L(C)),
                   init + [("expr", ("asg", L(C), ("efun", "allocate_mapping", [I(rng.choice([0, 1, 8, 9, 100, n1 + n2]))]))),
                           build(L(C), 0, n1, V1), build(L(C), lo2, lo2 + n2, V2)] + finish(L(C)),
                   init + [("expr", ("asg", G(0), ("bin", "add", L(A), Map([])))), ("expr", ("aop", "add", G(0), L(B)))] + finish(G(0)),
                   # the other operand order: the left values survive on common keys
                   init + [("expr", ("asg", L(C), ("bin", "add", L(B), L(A))))] + finish(L(C)),
                   init + [("expr", ("asg", L(C), Map([]))), build(L(C), lo2, lo2 + n2, V2), build(L(C), 0, n1, V1)] + finish(L(C)),
                   # a chain of three
                   init + [("expr", ("asg", L(C), ("bin", "add", ("bin", "add", L(A), L(B)), L(A))))] + finish(L(C))]
            same = [[0, 1, 2, 3, 4], [5, 6]]
            if n1 + n2 <= 18 and kname != "mix":
                # mapping literals (load_mapping_from_aggregate, keys folded by the compiler)
                lit1 = Map([(K(I(q)), V1(I(q))) for q in range(n1)])
                lit2 = Map([(K(I(q)), V2(I(q))) for q in range(lo2, lo2 + n2)])
                fns.append([("expr", ("asg", L(A), lit1)), ("expr", ("asg", L(B), lit2)),
                            ("expr", ("asg", L(C), ("bin", "add", L(A), L(B))))] + finish(L(C)))
                fns.append([("expr", ("asg", L(A), lit1)), ("expr", ("asg", L(B), lit2)),
                            ("expr", ("asg", L(C), ("bin", "add", lit1, lit2)))] + finish(L(C)))
                same[0] += [8, 9]
        elif op == "delete":
            st = rng.choice([2, 3, 5])
            dele = lambda m: loop(LI, 0, top, ("if", ("bin", "eq", ("bin", "mod", L(LI), I(st)), I(0)),
                                              ("expr", ("efun", "map_delete", [m, K(L(LI))])), "nop"))
            buildskip = lambda m, lo, hi, V: loop(LI, lo, hi, ("if", ("bin", "ne", ("bin", "mod", L(LI), I(st)), I(0)),
                                                               ("expr", ("asg", ("idx", m, K(L(LI))), V(L(LI)))), "nop"))
            fns = [init + [("expr", ("asg", L(C), ("bin", "add", L(A), L(B)))), dele(L(C))] + finish(L(C)),
                   init + [("expr", ("asg", L(C), Map([]))), buildskip(L(C), 0, n1, V1), buildskip(L(C), lo2, lo2 + n2, V2)] + finish(L(C)),
                   init + [("expr", ("asg", L(C), ("bin", "add", L(A), Map([])))), dele(L(C)), ("expr", ("aop", "add", L(C), L(B))), dele(L(C))] + finish(L(C)),
                   # delete everything, then refill through +=
                   init + [("expr", ("asg", L(C), ("bin", "add", L(A), Map([])))),
                           loop(LI, 0, top, ("expr", ("efun", "map_delete", [L(C), K(L(LI))]))), ("expr", ("aop", "add", L(C), L(B)))] + finish(L(C)),
                   init + [("expr", ("asg", L(C), ("bin", "add", L(B), Map([]))))] + finish(L(C))]
            same = [[0, 1, 2], [3, 4]]
        elif op == "compose":
            # b maps the VALUES of a (1000 + i) to something: a * b
            init2 = [("expr", ("asg", L(A), Map([]))), build(L(A), 0, n1, V1), ("expr", ("asg", L(B), Map([]))),
                     loop(LI, lo2, lo2 + n2, ("expr", ("asg", ("idx", L(B), V1(L(LI))), K(L(LI)))))]
            fns = [init2 + [("expr", ("asg", L(C), ("bin", "mul", L(A), L(B))))] + finish(L(C)),
                   init2 + [("expr", ("asg", L(C), ("bin", "add", L(A), Map([])))), ("expr", ("aop", "mul", L(C), L(B)))] + finish(L(C)),
                   init2 + [("expr", ("asg", L(C), Map([]))),
                            loop(LI, max(lo2, 0), min(n1, lo2 + n2), ("expr", ("asg", ("idx", L(C), K(L(LI))), K(L(LI)))))] + finish(L(C))]
            same = [[0, 1, 2]]
        else:
            fns = [init + [("expr", ("asg", L(C), ("bin", "add", L(A), L(A))))] + finish(L(C)),
                   init + [("expr", ("asg", L(C), ("bin", "add", L(A), Map([])))), ("expr", ("aop", "add", L(C), L(C)))] + finish(L(C)),
                   init + [("expr", ("asg", L(C), ("bin", "add", L(A), Map([]))))] + finish(L(C))]
            same = [[0, 1, 2]]
        return make_case(cid, fns, same=same, meta={"origin": "generated", "family": "mapalg", "keys": kname})

    def fam_maptrace(self, rng, cid):
        """unit-style: random histories of m[k] = v / map_delete / allocate_mapping / += / + on two real mapping_t tables
        with integer keys; the harness dumps the bucket layout after every step and `nvdrive` reproduces it with the
        hash-table model of HashMap.lean"""
        pool = [16 * j + rng.below(16) for j in range(rng.choice([8, 20, 40, 90, 300]))]
        pool += [-16 * j - 5 for j in range(12)] + [2 ** 32 + 16 * j for j in range(6)] + [2 ** 62, -2 ** 63, 2 ** 63 - 1, 0, 1, 15]
        toks = []
        if rng.chance(1, 3):
            toks.append("%sn:%d" % (rng.choice("ab"), rng.choice([0, 1, 8, 9, 15, 16, 17, 100, 128])))
        for _ in range(rng.choice([6, 12, 25, 60, 140])):
            k = rng.weighted([("i", 12), ("d", 3), ("abs", 1), ("plus", 1)])
            if k == "i":
                toks.append("%si:%d:%d" % (rng.weighted([("a", 3), ("b", 2)]), rng.choice(pool), rng.range(1, 999)))
            elif k == "d":
                toks.append("%sd:%d" % (rng.choice("ab"), rng.choice(pool)))
            else:
                toks.append(k)
        toks += ["plus", "abs", "plus"]
        return E.Case(cid, ["maptrace " + " ".join(toks)], {"origin": "generated", "family": "maptrace"})

    # ---- macros: parameter names vs body identifiers -------------------------------------------------------------
    MAC_POOL = ["a", "ab", "abc", "a1", "_a", "b", "ba", "b_", "i", "ij", "i2", "n", "nn", "n0", "c", "cc", "d", "dd", "d1",
                "j", "jj", "g", "g0x", "g00", "g1_", "val", "v", "x1", "strlen2", "size", "sizeof_", "f_ad", "h_"]
    MAC_VARS = {"a": ("l", A), "b": ("l", B), "c": ("l", C), "d": ("l", D), "i": ("l", LI), "j": ("l", LJ), "n": ("l", LN),
                "g0": ("g", 0), "g1": ("g", 1), "g3": ("g", 3)}

    def mac_subst(self, body, env):
        """textbook substitution: an identifier is replaced iff it EQUALS a parameter name; other identifiers are the
        variables of the calling function"""
        if isinstance(body, tuple):
            if body and body[0] == "id":
                if body[1] in env:
                    return env[body[1]]
                return self.MAC_VARS[body[1]]
            return tuple(self.mac_subst(x, env) for x in body)
        if isinstance(body, list):
            return [self.mac_subst(x, env) for x in body]
        return body

    def mac_body(self, rng, ids, depth):
        if depth == 0 or rng.chance(1, 4):
            if rng.chance(1, 6):
                return I(rng.range(0, 9))
            return ("id", rng.choice(ids))
        k = rng.weighted([("bin", 6), ("call", 1), ("cond", 1), ("efun", 1), ("idx", 1)])
        if k == "bin":
            return ("bin", rng.choice(["add", "sub", "mul"]), self.mac_body(rng, ids, depth - 1), self.mac_body(rng, ids, depth - 1))
        if k == "call":
            return ("call", "f_add", [self.mac_body(rng, ids, depth - 1), self.mac_body(rng, ids, depth - 1)], "local")
        if k == "cond":
            return ("cond", ("bin", "lt", self.mac_body(rng, ids, depth - 1), I(50)), self.mac_body(rng, ids, depth - 1), I(rng.range(1, 9)))
        if k == "efun":
            return ("efun", "strlen", [("bin", "add", S(b"len"), self.mac_body(rng, ids, depth - 1))])
        return ("idx", Arr([I(40), self.mac_body(rng, ids, depth - 1), I(41)]), I(1))

    def mac_arg(self, rng):
        k = rng.weighted([("lit", 4), ("var", 3), ("commas", 4), ("expr", 2), ("nested", 2)])
        if k == "lit":
            return I(rng.choice([0, 1, 2, 10, 20, -3, 2 ** 32, 255]))
        if k == "var":
            return rng.choice([L(A), L(B), L(LI), L(LN), G(0), G(3)])
        if k == "commas":
            return rng.choice([("call", "f_add", [I(rng.range(1, 9)), I(rng.range(1, 9))], "local"),
                               ("idx", Arr([I(7), I(8), I(9)]), I(rng.range(0, 2))),
                               ("efun", "strlen", [S(rng.choice([b"x,y", b"a,(b", b"),", b"'"]))]),
                               ("idx", Map([(I(1), I(5)), (I(2), I(6))]), I(rng.range(1, 2))),
                               ("call", "f_sub", [("call", "f_mul", [I(3), I(4)], "local"), L(LJ)], "local")])
        if k == "expr":
            return ("bin", rng.choice(["add", "sub", "mul"]), rng.choice([L(A), L(LI), I(3)]), I(rng.range(1, 5)))
        return ("macro", "SQ", [I(rng.range(2, 6))], ("bin", "mul", I(0), I(0)))   # patched below

    def fam_macrosubst(self, rng, cid):
        pre = [("expr", ("asg", L(A), I(11))), ("expr", ("asg", L(B), I(22))), ("expr", ("asg", L(C), I(33))), ("expr", ("asg", L(D), I(44))),
               ("expr", ("asg", L(LI), I(5))), ("expr", ("asg", L(LJ), I(6))), ("expr", ("asg", L(LN), I(7))),
               ("expr", ("asg", G(0), I(100))), ("expr", ("asg", G(1), I(200))), ("expr", ("asg", G(3), I(300)))]
        defs = ["#define SQ(x) ((x) * (x))"]
        calls, hands = [], []
        for m in range(rng.range(1, 3)):
            np_ = rng.range(1, 3)
            params = []
            while len(params) < np_:
                c = rng.choice(self.MAC_POOL)
                if c not in params:
                    params.append(c)
            # body identifiers: the parameters, variables whose names are prefixes / extensions of parameters, and others
            ids = list(params) * 2 + [v for v in self.MAC_VARS if any(q.startswith(v) or v.startswith(q) for q in params)]
            ids += [rng.choice(list(self.MAC_VARS))]
            body = self.mac_body(rng, ids, rng.range(1, 3))
            name = "MC%d" % m
            style = rng.weighted([("plain", 4), ("cont", 2), ("spaces", 1)])
            text = lpc_e(body, NAMES)
            if style == "cont":
                cut = text.find(" ", len(text) // 2)
                if cut > 0:
                    defs.append("#define %s(%s) %s \\" % (name, ", ".join(params), text[:cut]))
                    defs.append("   " + text[cut:])
                else:
                    defs.append("#define %s(%s) %s" % (name, ", ".join(params), text))
            elif style == "spaces":
                defs.append("#define %s( %s )   %s  " % (name, " , ".join(params), text))
            else:
                defs.append("#define %s(%s) %s" % (name, ",".join(params), text))
            for _ in range(rng.range(1, 2)):
                args = []
                for _q in params:
                    a = self.mac_arg(rng)
                    if a[0] == "macro":
                        v = a[2][0]
                        a = ("macro", "SQ", [v], ("bin", "mul", v, v))
                    args.append(a)
                exp = self.mac_subst(body, dict(zip(params, args)))
                calls.append(("macro", name, args, exp))
                hands.append(exp)
        # a macro that uses other macros in its body (rescanning) and an object-like macro naming a variable
        defs.append("#define TWICE_SQ(q1) (SQ(q1) + SQ(q1))")
        defs.append("#define VAR_N n")
        v = self.mac_arg(rng)
        if v[0] == "macro":
            v = I(4)
        calls.append(("macro", "TWICE_SQ", [v], ("bin", "add", ("bin", "mul", v, v), ("bin", "mul", v, v))))
        hands.append(("bin", "add", ("bin", "mul", v, v), ("bin", "mul", v, v)))
        calls.append(("macro", "VAR_N", None, L(LN)))
        hands.append(L(LN))
        fns = [pre + [("ret", Arr(calls))], pre + [("ret", Arr(hands))]]
        return make_case(cid, fns, defines=defs, meta={"origin": "generated", "family": "macrosubst"})

    def fam_mdef(self, rng, cid):
        """unit-style: #define texts through the real handle_define (); the stored text (parameter markers) is dumped and
        must equal the model's (Macro.lean) and the textbook template"""
        lines = []
        ops = ["+", "-", "*", "(", ")", " ", "  ", ",", "[", "]", "?", ":", "<", "##", "@", "@@", "\t", "'", ".", ";", "=="]
        for m in range(rng.range(2, 6)):
            np_ = rng.range(0, 4)
            params = []
            while len(params) < np_:
                c = rng.choice(self.MAC_POOL + ["x", "xy", "p1", "p10", "_", "__a", "A", "aB"])
                if c not in params:
                    params.append(c)
            words = list(params) * 2 + [q[:-1] for q in params if len(q) > 1] + [q + rng.choice("ab1_") for q in params] + \
                ["a", "ab", "abc", "n", "sizeof", "0", "12", "1a", "a1b", "x"]
            body = []
            for _ in range(rng.range(0, 14)):
                body.append(rng.choice(words) if rng.chance(1, 2) else rng.choice(ops))
                if rng.chance(1, 3):
                    body.append(" ")
            if rng.chance(1, 5):
                body.append('"%s"' % rng.choice(words))
            sep = rng.choice([",", ", ", " , "])
            if rng.chance(1, 6):
                lines.append("mdef OBJ%d%s%s" % (m, rng.choice([" ", "  ", "\t"]), "".join(body) or "1"))
            else:
                lines.append("mdef FN%d(%s)%s%s" % (m, sep.join(params), rng.choice(["", " ", "  "]), "".join(body)))
        return E.Case(cid, lines, {"origin": "generated", "family": "mdef"})

    def fam_strswitch(self, rng, cid):
        """string switches with and without `case 0:`; keys that are literals (interned by the compiler), interned by another
        object (string literals of /c03/base.c, function names), built at run time (not in the shared string table), built at
        run time but equal to a label, the empty string, ints; each next to its if-chain"""
        pool = [b"a", b"bb", b"", b"zed", b"q", b"north", b"n", b"no", b"key_1", b"a\xc3\xa9", b"0", b"h_add"]
        labs = rng.shuffle(pool)[:rng.range(1, 6)]
        labels = [("str", l) for l in labs]
        if rng.chance(3, 5):
            labels.insert(rng.below(len(labels) + 1), ("num", 0))
        arms = [(lab, [("ret", I(k + 1))]) for k, lab in enumerate(labels)]
        hasd = rng.chance(2, 3)
        if hasd:
            arms.insert(rng.below(len(arms) + 1), ("default", [("ret", I(-1))]))
        chain = "nop"
        for lab, ss in reversed([a for a in arms if a[0] != "default"]):
            cond = ("bin", "eq", L(A), S(lab[1])) if lab[0] == "str" else ("bin", "eq", L(A), I(0))
            chain = ("if", cond, ss[0], chain)
        tail = ([("ret", I(-1))] if hasd else []) + [("ret", I(0))]
        fns, same = [], []
        def add(setup, with_chain=True):
            fns.append(setup + [("switch", L(A), arms), ("ret", I(0))])
            if with_chain:
                fns.append(setup + [chain] + tail)
                same.append([len(fns) - 2, len(fns) - 1])
        lab = rng.choice(labs)
        # literal key equal to a label / equal to none
        add([("expr", ("asg", L(A), S(lab)))])
        add([("expr", ("asg", L(A), S(rng.choice([b"nope", b"zz", b"h_sum", b"create"]))))])
        # built at run time, equal to no interned string (the counter makes it unique): findstring fails
        add([("expr", ("asg", L(LI), I(rng.range(100, 999)))), ("expr", ("asg", L(A), ("bin", "add", S(b"rt_"), L(LI))))])
        add([("expr", ("asg", L(B), S(b"x"))), ("expr", ("asg", L(A), ("bin", "add", ("bin", "add", L(B), L(B)), S(rng.choice([b"y7", b"_", b"q9"])))))])
        # built at run time but equal to a label
        if len(lab) >= 2:
            add([("expr", ("asg", L(B), S(lab[:1]))), ("expr", ("asg", L(A), ("bin", "add", L(B), S(lab[1:]))))])
        else:
            add([("expr", ("asg", L(B), S(lab + b"#"))), ("expr", ("asg", L(A), ("rng", False, False, L(B), I(0), I(len(lab) - 1))))])
        # equal to a string interned only by another object (a literal of the helper functions / a function name)
        add([("expr", ("asg", L(B), S(b"le"))), ("expr", ("asg", L(A), ("bin", "add", L(B), S(b"n"))))])
        # the empty string built at run time, the int 0, another int, a real
        add([("expr", ("asg", L(B), S(b"ab"))), ("expr", ("asg", L(A), ("rng", False, False, L(B), I(1), I(0))))])
        add([("expr", ("asg", L(A), I(0)))])
        add([("expr", ("asg", L(A), I(rng.choice([1, -1, 2 ** 32]))))], with_chain=False)
        add([("expr", ("asg", L(A), Fl(0.0)))], with_chain=False)
        fns.append([("expr", ("asg", G(0), ("bin", "add", S(b"rt"), I(rng.range(1, 99))))), ("switch", G(0), arms), ("ret", I(0))])
        return make_case(cid, fns, same=same, meta={"origin": "generated", "family": "strswitch"})

    def fam_selfop(self, rng, cid):
        """SELF-operand and ALIASED-operand forms of the container / string operators: `x op= x`, `x = x op x`, the same
        with a second reference `b = x` taken before, with `b` as the right operand, with x a sole-holder local, a global,
        an array element, a mapping value.  The driver has in-place fast paths keyed on reference counts (add_array with
        p == r && ref == 2, extend_string, absorb_mapping into itself); the reference evaluates by value.  Every sibling
        returns the same value; a held alias of an array / string / buffer / number must still show the old value."""
        kind = rng.weighted([("arr", 6), ("str", 3), ("buf", 2), ("map", 3), ("num", 1)])
        pre = []
        if kind == "arr":
            n = rng.choice([0, 1, 2, 3, 4, 5, 7, 8, 9, 16, 31, 100, 127, 128, 255, 256, 300])
            op = rng.weighted([("add", 5), ("sub", 2)])
            if n <= 5:
                mk = lambda: Arr([pick_scalar(rng) for _ in range(n)])
                v0 = mk()
                init = lambda h: [("expr", ("asg", h, v0))]
            else:
                st = rng.choice([1, 3, -7, 2 ** 32])
                init = lambda h: [("expr", ("asg", h, ("efun", "allocate", [I(n)]))),
                                  ("for", ("expr", ("asg", L(LI), I(0))), ("bin", "lt", L(LI), I(n)), ("expr", ("inc", "postinc", L(LI))),
                                   ("expr", ("asg", ("idx", h, L(LI)), ("bin", "mul", L(LI), I(st)))))]
        elif kind == "str":
            op = "add"
            v0 = S(rng.choice(STRS + [b"x" * 15, b"y" * 16, b"z" * 17, b"w" * 300]))
            conc = rng.chance(1, 2)      # built at run time (malloc'ed) or the shared literal
            init = lambda h: [("expr", ("asg", h, ("bin", "add", v0, S(b""))))] if conc else [("expr", ("asg", h, v0))]
        elif kind == "buf":
            op = "add"
            bs = [rng.range(1, 255) for _ in range(rng.choice([0, 1, 2, 7, 8, 40]))]
            init = lambda h: [("expr", ("asg", h, Buf(bs)))]
        elif kind == "map":
            op = rng.weighted([("add", 4), ("mul", 2)])
            n = rng.choice([0, 1, 2, 5, 6, 7, 12, 13, 25, 26, 60])
            ko = rng.choice([0, 16, 2 ** 32])
            if op == "mul":      # compose with itself: values must be keys to give something
                val = lambda e: ("bin", "add", I(ko), ("bin", "mod", ("bin", "add", e, I(1)), I(max(n, 1))))
            else:
                # values that own memory (a malloc'ed string, an array): `m += m` must not free what it copies
                vk = rng.choice(["int", "str", "arr"])
                val = {"int": lambda e: ("bin", "mul", e, I(3)), "str": lambda e: ("bin", "add", S(b"v"), e),
                       "arr": lambda e: Arr([e, S(b"w")])}[vk]
            init = lambda h: [("expr", ("asg", h, Map([]))),
                              ("for", ("expr", ("asg", L(LI), I(0))), ("bin", "lt", L(LI), I(n)), ("expr", ("inc", "postinc", L(LI))),
                               ("expr", ("asg", ("idx", h, ("bin", "add", L(LI), I(ko))), val(L(LI)))))]
        else:
            op = rng.choice(["add", "sub", "mul"])
            v0 = rng.choice([I(pick_int(rng)), Fl(pick_float(rng))])
            init = lambda h: [("expr", ("asg", h, v0))]
        alias_ok = kind != "map" or op == "add"      # an alias of a mapping sees `m += ..` (in place by definition)
        times = rng.choice([1, 1, 2, 3]) if kind != "map" or op == "add" else 1
        if kind == "arr" and n >= 100:
            times = 1 if op == "add" else times

        def variants(h, setup, result):
            """h: the holder lvalue; setup: statements creating the holder's container; result: expression to return"""
            ini = setup + init(h)
            rep = lambda st: [st] * times
            out = []
            # 0: h op= h (sole holder)        1: h = h op h
            out.append(ini + rep(("expr", ("aop", op, h, h))) + [("ret", result(None))])
            out.append(ini + rep(("expr", ("asg", h, ("bin", op, h, h)))) + [("ret", result(None))])
            # 2: a second reference is held before
            out.append(ini + [("expr", ("asg", L(B), h))] + rep(("expr", ("aop", op, h, h))) + [("ret", result(None))])
            # 3: the alias is the right operand
            out.append(ini + [("expr", ("asg", L(B), h))] + rep(("expr", ("aop", op, h, L(B)))) + [("ret", result(None))]
                       if times == 1 else ini + [("expr", ("asg", L(B), h))] + rep(("expr", ("asg", h, ("bin", op, h, h)))) + [("ret", result(None))])
            # 4: the alias is the left operand of the plain operator, the global holds another reference
            out.append(ini + [("expr", ("asg", G(2), h))] + rep(("expr", ("asg", h, ("bin", op, G(2) if times == 1 else h, h)))) + [("ret", result(None))])
            # 5: through a function pointer / local call (arguments are further references)
            if op in ("add", "sub", "mul"):
                out.append(ini + rep(("expr", ("asg", h, ("call", "f_" + op, [h, h], rng.choice(["local", "fptr"]))))) + [("ret", result(None))])
            grp = list(range(len(out)))
            extra = []
            if alias_ok:
                # 6, 7: the alias still shows the old value (value semantics of + on arrays, strings, buffers, numbers)
                out.append(ini + [("expr", ("asg", L(B), h))] + rep(("expr", ("aop", op, h, h))) + [("ret", Arr([result(None), L(B)]))])
                out.append(ini + [("expr", ("asg", L(B), h))] + rep(("expr", ("asg", h, ("bin", op, h, h)))) + [("ret", Arr([result(None), L(B)]))])
                extra = [[len(out) - 2, len(out) - 1]]
            # a right operand of ANOTHER size (the copy offsets of buffer / string / array `+=` must come from the left operand)
            oth = {"arr": Arr([I(5)]), "str": S(b"!?"), "buf": Buf([1, 2, 3] if kind != "buf" or len(bs) != 3 else [9]),
                   "map": Map([(I(-3), I(1))]), "num": I(3)}[kind]
            if not (kind == "map" and op == "mul"):
                out.append(ini + [("expr", ("aop", op, h, oth)), ("ret", result(None))])
                out.append(ini + [("expr", ("asg", h, ("bin", op, h, oth))), ("ret", result(None))])
                out.append(ini + [("expr", ("asg", L(B), oth)), ("expr", ("aop", op, h, L(B))), ("ret", result(None))])
                extra.append([len(out) - 3, len(out) - 2, len(out) - 1])
            if times == 1:
                # the value of the op= expression itself
                out.append(ini + [("ret", ("aop", op, h, h))])
                out.append(ini + [("ret", ("bin", op, h, h))])
                extra.append([len(out) - 2, len(out) - 1])
            if kind in ("arr", "str", "buf", "map") and where in ("local", "global"):
                # FRESHNESS: `b + empty`, `empty + b`, `b + b`, `b - ({})` are new values - a store into the result must not show
                # through the operand that is still held (add_array / add_mapping hand the operand itself back only when
                # nobody else holds it)
                empty = {"arr": Arr([]), "str": S(b""), "buf": Buf([]), "map": Map([])}[kind]
                size = {"arr": lambda: n, "str": lambda: len(v0[1][1]), "buf": lambda: len(bs), "map": lambda: 1}[kind]()
                store = [] if size == 0 else [("expr", ("asg", ("idx", L(D), I(-5) if kind == "map" else I(0)), I(88)))]
                forms = [("bin", "add", L(B), empty), ("bin", "add", empty, L(B))]
                if kind == "arr":
                    forms.append(("bin", "sub", L(B), Arr([])))
                    forms.append(("bin", "sub", L(B), Arr([S(b"not there")])))
                k0 = len(out)
                for f in forms:
                    out.append(ini + [("expr", ("asg", L(B), h)), ("expr", ("asg", L(D), f))] + store + [("ret", Arr([L(D), L(B), h]))])
                out.append(ini + init(L(D)) + store + [("ret", Arr([L(D), h, h]))])
                extra.append(list(range(k0, len(out))))
            return out, [grp] + extra
        where = rng.weighted([("local", 4), ("global", 2), ("elem", 3), ("mapval", 2)])
        if where == "local":
            fns, same = variants(L(A), [], lambda _: L(A))
        elif where == "global":
            fns, same = variants(G(0), [], lambda _: G(0))
        elif where == "elem":
            k = rng.choice([0, 1, 2])
            fns, same = variants(("idx", L(C), I(k)), [("expr", ("asg", L(C), Arr([I(7), I(8), I(9)])))],
                                 lambda _: L(C))
        else:
            key = rng.choice([S(b"k"), I(5), I(2 ** 32)])
            fns, same = variants(("idx", L(C), key), [("expr", ("asg", L(C), Map([(I(1), I(2))])))], lambda _: ("idx", L(C), key))
        return make_case(cid, fns, same=same, meta={"origin": "generated", "family": "selfop", "kind": kind, "op": op, "where": where})

    def fam_funp(self, rng, cid):
        """functionals (: .. :) with $N, $(..) bound at creation, nested functionals (the inner one binds the outer's $N), stored
        functionals evaluated after the bound variable changed, (*f)(..), evaluate through a helper function, anonymous
        functions - each next to its hand expansion (substitution by value)."""
        mode = rng.weighted([("num", 6), ("str", 3), ("arr", 2)])
        if mode == "num":
            lit = lambda: I(rng.choice([0, 1, 2, 3, 5, 7, 10, 100, 1000, -1, -4, 2 ** 32, I64MAX])) if rng.chance(4, 5) else Fl(rng.choice([0.5, 1.5, -2.25, 3.0]))
            ops = ["add", "sub", "mul", "add"]
        elif mode == "str":
            lit = lambda: S(rng.choice([b"a", b"bc", b"", b"[", b"]", b"x\xc3\xa9", b"k"])) if rng.chance(4, 5) else I(rng.range(0, 9))
            ops = ["add"]
        else:
            lit = lambda: Arr([I(rng.range(0, 9)) for _ in range(rng.range(0, 2))])
            ops = ["add", "add", "sub"]
        setup = [("expr", ("asg", L(A), lit())), ("expr", ("asg", L(B), lit())), ("expr", ("asg", L(C), lit())),
                 ("expr", ("asg", G(0), lit()))]
        top_ctx = lambda: rng.choice([L(A), L(B), L(C), lit(), ("bin", rng.choice(ops), L(A), L(B))])

        def body(depth, npar, ctx, size):
            """expression of a functional with npar parameters; ctx () yields an expression of the surrounding context"""
            def leaf():
                k = rng.weighted([("par", 5), ("bnd", 4 if depth < 2 else 2), ("lit", 2), ("glob", 1)])
                if k == "par" and npar:
                    return ("par", rng.range(1, npar))
                if k == "bnd":
                    return ("bnd", ctx())
                if k == "glob":
                    return G(0)
                return lit()

            def node(sz):
                if sz <= 1:
                    return leaf()
                k = rng.weighted([("bin", 6), ("nest", 4 if depth < 2 else 0), ("call", 1), ("cond", 1 if mode == "num" else 0)])
                if k == "nest":
                    m = rng.range(1, 2)
                    inner_ctx = lambda: (("par", rng.range(1, npar)) if npar and rng.chance(2, 3) else lit())
                    inner = body(depth + 1, m, inner_ctx, rng.range(2, 4))
                    return ("ev", ("fun", inner), [leaf() for _ in range(m)], "evaluate")
                if k == "call":
                    return ("call", "f_add", [node(sz // 2), node(sz - sz // 2)], "local")
                if k == "cond":
                    return ("cond", ("bin", rng.choice(["lt", "ge"]), leaf(), leaf()), node(sz // 2), node(sz - sz // 2))
                return ("bin", rng.choice(ops), node(sz // 2), node(sz - sz // 2))
            # shape that matters: a parameter / bound value AFTER a nested functional
            if depth == 0 and rng.chance(1, 2):
                return ("bin", rng.choice(ops), ("bin", rng.choice(ops), leaf(), node(max(size - 2, 2))), leaf())
            return node(size)

        def rebind(x, f):
            if isinstance(x, tuple) and x:
                if x[0] == "bnd":
                    return ("bnd", f(x[1]))
                if x[0] in ("fun", "anon"):
                    return x
                return tuple(rebind(y, f) if isinstance(y, (tuple, list)) else y for y in x)
            if isinstance(x, list):
                return [rebind(y, f) for y in x]
            return x

        def expand(x, args):
            if isinstance(x, tuple) and x:
                if x[0] == "par":
                    return args[x[1] - 1]
                if x[0] == "bnd":
                    return x[1]
                if x[0] == "ev" and x[1][0] == "fun":
                    ib = rebind(x[1][1], lambda e: expand(e, args))
                    return expand(ib, [expand(a, args) for a in x[2]])
                return tuple(expand(y, args) if isinstance(y, (tuple, list)) else y for y in x)
            if isinstance(x, list):
                return [expand(y, args) for y in x]
            return x
        npar = rng.range(1, 3)
        bd = body(0, npar, top_ctx, rng.range(3, 8))
        pure = lambda: rng.choice([L(A), L(B), L(C), lit()])
        args = [pure() for _ in range(npar)]
        args2 = [pure() for _ in range(npar)]
        fun = ("fun", bd)
        change = [("expr", ("asg", L(A), lit())), ("expr", ("asg", L(B), lit())), ("expr", ("asg", L(C), lit()))]
        hand = expand(bd, args)
        fns = [setup + [("ret", ("ev", fun, args, "evaluate"))],
               setup + [("fdef", D, fun, npar), ("ret", ("ev", L(D), args, "evaluate"))],
               setup + [("fdef", D, fun, npar), ("ret", ("ev", L(D), args, "star"))],
               setup + [("ret", ("ev", fun, args, "helper"))],
               setup + [("ret", hand)]]
        same = [[0, 1, 2, 3, 4]]
        # bound at creation: the variables change afterwards, the arguments are literals
        largs = [lit() for _ in range(npar)]
        fns.append(setup + [("fdef", D, fun, npar)] + change + [("ret", ("ev", L(D), largs, "evaluate"))])
        fns.append(setup + [("ret", expand(bd, largs))])
        same.append([5, 6])
        # one stored functional applied twice
        fns.append(setup + [("fdef", D, fun, npar), ("ret", Arr([("ev", L(D), args, "evaluate"), ("ev", L(D), args2, "star")]))])
        fns.append(setup + [("ret", Arr([hand, expand(bd, args2)]))])
        same.append([7, 8])
        # anonymous function with a local, called with the same arguments
        op1, op2 = rng.choice(ops), rng.choice(ops)
        k2 = lit()
        anon = ("anon", npar, 1, [("expr", ("asg", L(npar), ("bin", op1, L(0), L(npar - 1)))), ("ret", ("bin", op2, L(npar), k2))])
        fns.append(setup + [("ret", ("ev", anon, args, rng.choice(["evaluate", "helper"])))])
        fns.append(setup + [("ret", ("bin", op2, ("bin", op1, args[0], args[npar - 1]), k2))])
        same.append([9, 10])
        return make_case(cid, fns, same=same, defines=APN_LPC, meta={"origin": "generated", "family": "funp", "mode": mode})

    def fam_arrtrace(self, rng, cid):
        """unit traces of add_array () with chosen reference counts (who else holds the operands), compared with the heap model
        NV.C03.Heap.addArray and judged by value semantics"""
        lines = []
        for _ in range(rng.range(6, 14)):
            same = 1 if rng.chance(1, 3) else 0
            ps = rng.choice([0, 0, 1, 2, 3, 5, 8, 17])
            rs = ps if same else rng.choice([0, 0, 1, 2, 4, 9])
            pe = rng.choice([0, 0, 1, 2, 3])
            re_ = 0 if same else rng.choice([0, 0, 1, 2])
            lines.append("arrtrace %d %d %d %d %d" % (same, ps, pe, rs, re_))
        return E.Case(cid, lines, {"origin": "generated", "family": "arrtrace"})

    def fam_fresh(self, rng, cid):
        """FRESHNESS of every container-producing operation: ranges in all forms (full extent, proper, empty), `x + empty`,
        `empty + x`, `x - ({})`, `m + ([])`, copy (), allocate () - applied to a container that is still HELD in a variable, followed by
        a store into the result or into the operand and a read of both.  By value the two are independent; an implementation that
        hands the operand itself back (an alias) shows the store in the other one."""
        kind = rng.weighted([("arr", 6), ("buf", 3), ("str", 2), ("map", 2)])
        n = rng.choice([1, 2, 3, 3, 4, 7, 9])
        if kind == "arr":
            v0 = Arr([rng.choice([I(q + 1), S(b"e%d" % q), Fl(q + 0.5)]) for q in range(n)])
            newv, newv2 = I(99), S(b"new")
        elif kind == "buf":
            v0 = Buf([rng.range(1, 250) for _ in range(n)])
            newv, newv2 = I(99), I(0)
        elif kind == "str":
            v0 = ("bin", "add", S(bytes(rng.choice(b"abcdefgh") for _ in range(n))), S(b""))
            newv, newv2 = I(88), I(65)
        else:
            v0 = Map([(rng.choice([I(q), S(b"k%d" % q)]), I(q + 10)) for q in range(n)])
            newv, newv2 = I(99), S(b"new")
        H = rng.choice([L(A), G(0)])
        init = [("expr", ("asg", H, v0))]
        ops = []
        if kind != "map":
            full = [("rnge", False, H, I(0)), ("rng", False, True, H, I(0), I(1)), ("rng", False, False, H, I(0), I(n - 1)),
                    ("rng", True, True, H, I(n), I(1)), ("rnge", True, H, I(n)), ("rng", False, False, H, I(0), I(n + 5)),
                    ("rng", False, False, H, I(0), I(2 ** 32)), ("rng", True, False, H, I(n), I(n - 1)),
                    ("rng", False, True, H, L(LI), L(LJ))]            # bounds in variables: i = 0, j = 1
            part = [("rnge", False, H, I(1)), ("rng", False, True, H, I(0), I(2)), ("rng", False, False, H, I(1), I(n - 1)),
                    ("rng", False, False, H, I(0), I(0)), ("rnge", True, H, I(1))]
            empty = [("rnge", False, H, I(n)), ("rng", False, False, H, I(1), I(0)), ("rng", False, False, H, I(n), I(n + 3))]
            part = rng.shuffle(part)
            ops += [("full", e) for e in full] + [("part", e) for e in part[:2]] + [("empty", rng.choice(empty))]
        emp = {"arr": Arr([]), "buf": Buf([]), "str": S(b""), "map": Map([])}[kind]
        ops += [("full", ("bin", "add", H, emp)), ("full", ("bin", "add", emp, H))]
        if kind == "arr":
            ops += [("full", ("bin", "sub", H, Arr([]))), ("full", ("bin", "sub", H, Arr([I(-77)]))),
                    ("full", ("bin", "add", ("rng", False, False, H, I(0), I(0)), ("rnge", False, H, I(1))))]
        if kind in ("arr", "map"):       # copy () does not duplicate a buffer (deep_copy_svalue: arrays, classes, mappings only) - undocumented, not judged
            ops.append(("full", ("efun", "copy", [H])))
        if kind == "map":
            ops.append(("full", ("bin", "add", H, Map([(I(-9), I(1))]))))
        ops = rng.shuffle(ops)
        ops = ops[:6]
        key = I(0) if kind != "map" else v0[1][0][0]
        pre = [("expr", ("asg", L(LI), I(0))), ("expr", ("asg", L(LJ), I(1)))]
        fns = []
        for cls, e in ops:
            st_res = [] if cls == "empty" else [("expr", ("asg", ("idx", L(D), key if cls != "part" or kind == "map" else I(0)), newv))]
            # store into the RESULT, read the operand; store into the OPERAND, read the result; both
            fns.append(pre + init + [("expr", ("asg", L(D), e))] + st_res + [("ret", Arr([L(D), H]))])
            fns.append(pre + init + [("expr", ("asg", L(D), e)), ("expr", ("asg", ("idx", H, key), newv2)), ("ret", Arr([L(D), H]))])
        if kind in ("arr", "map"):
            # copy () is DEEP: a store into a nested container of the copy (or of the original) does not show in the other
            inner = rng.choice([Arr([I(1), I(2)]), Map([(I(1), I(2))])])
            ikey = I(0) if inner[0] == "arr" else I(1)
            if kind == "arr":
                nest, okey = Arr([I(7), inner, S(b"z")]), I(1)
            else:
                nest, okey = Map([(S(b"k"), inner), (I(3), I(4))]), S(b"k")
            for tgt, oth in ((L(D), H), (H, L(D))):
                fns.append([("expr", ("asg", H, nest)), ("expr", ("asg", L(D), ("efun", "copy", [H]))),
                            ("expr", ("asg", ("idx", ("idx", tgt, okey), ikey), I(99))), ("ret", Arr([L(D), H]))])
        # allocate (): two results are two arrays
        fns.append([("expr", ("asg", L(A), ("efun", "allocate", [I(n)]))), ("expr", ("asg", L(B), ("efun", "allocate", [I(n)]))),
                    ("expr", ("asg", ("idx", L(A), I(0)), I(5))), ("ret", Arr([L(A), L(B)]))])
        return make_case(cid, fns, same=[], meta={"origin": "generated", "family": "fresh", "kind": kind})

    def fam_swshape(self, rng, cid):
        """DEGENERATE and nested switch shapes: only `default:`, a single case, default first / in the middle / last / absent,
        0..3 labels, int / range / string labels, fall-through and `break` arms, switches nested inside a case body, inside the
        default body, several sibling switches in one arm, up to three levels - the compiler keeps ONE case list for all switches
        that are open at a time (prepare_cases), the reference takes the first matching arm of each switch on its own."""
        ints = [0, 1, 2, 3, 5, 7, -1, 100, 2 ** 32]
        strs = [b"a", b"b", b"", b"zz"]
        counter = [0]

        def leaf():
            counter[0] += 1
            k = rng.weighted([("ret", 5), ("acc", 3), ("fall", 2)])
            if k == "ret":
                return [("ret", ("bin", "add", L(LN), I(1000 * counter[0])))]
            if k == "acc":
                return [("expr", ("aop", "add", L(LN), I(counter[0]))), "break"]
            return [("expr", ("aop", "add", L(LN), I(10 * counter[0])))]          # falls through into the next arm

        def sw(depth, var_i):
            var = [L(A), L(B), L(C)][var_i % 3]
            skind = "str" if var_i % 3 == 2 else rng.choice(["int", "int", "range"])
            nlab = rng.choice([0, 0, 1, 1, 2, 3])
            dpos = rng.choice(["none", "first", "mid", "last", "last"]) if nlab else rng.choice(["last", "last", "none"])
            if nlab == 0 and dpos == "none":
                dpos = "last"                                    # a switch needs at least one label to be accepted by the grammar
            if skind == "str":
                labs = [("str", q) for q in rng.shuffle(strs)[:nlab]]
            elif skind == "range" and nlab:
                pts = sorted(rng.shuffle(ints)[:nlab + 1])
                labs = [("range", pts[0], pts[1])] + [("num", q) for q in pts[2:]]
            else:
                labs = [("num", q) for q in rng.shuffle(ints)[:nlab]]

            def body():
                if depth < 2 and rng.chance(2, 5):
                    inner = [sw(depth + 1, var_i + 1)]
                    if rng.chance(1, 3):
                        inner.append(sw(depth + 1, var_i + 2))          # sibling switches in one arm
                    return inner + leaf()
                return leaf()
            arms = [(lab, body()) for lab in labs]
            if dpos != "none":
                pos = {"first": 0, "mid": len(arms) // 2, "last": len(arms)}[dpos]
                arms.insert(pos, ("default", body()))
            return ("switch", var, arms)
        tree = sw(0, 0)
        fns = []
        for _ in range(rng.range(4, 7)):
            vals = [("expr", ("asg", L(A), I(rng.choice(ints + [4, 6])))), ("expr", ("asg", L(B), I(rng.choice(ints + [4, 6])))),
                    ("expr", ("asg", L(C), rng.choice([S(q) for q in strs] + [S(b"nope"), I(0)])))]
            fns.append(vals + [tree, ("ret", ("bin", "sub", I(0), L(LN)))])
        return make_case(cid, fns, same=[], meta={"origin": "generated", "family": "swshape"})

    def fam_evalorder(self, rng, cid):
        """EVALUATION ORDER of the two operands of every comparison operator in every condition context (while, for, do-while, if,
        ?:, plain value): both operands have interacting side effects (k++ on a shared index, an assignment inside an operand, an
        accumulating global), so the order is observable; the reference evaluates left to right."""
        q = [rng.range(-3, 9) for _ in range(14)]
        cmpops = ["lt", "le", "gt", "ge", "eq", "ne"]
        init = [("expr", ("asg", L(A), Arr([I(v) for v in q]))), ("expr", ("asg", L(LI), I(0))), ("expr", ("asg", G(3), I(1)))]

        def operands():
            k = rng.weighted([("postinc", 4), ("asgidx", 3), ("accum", 3), ("mixed", 2), ("preinc", 2)])
            if k == "postinc":
                return ("idx", L(A), ("inc", "postinc", L(LI))), ("idx", L(A), ("inc", "postinc", L(LI)))
            if k == "preinc":
                return ("idx", L(A), ("inc", "preinc", L(LI))), ("idx", L(A), L(LI))
            if k == "asgidx":
                x, y = ("idx", L(A), L(LI)), ("idx", L(A), ("asg", L(LI), ("bin", "add", L(LI), I(1))))
                return (x, y) if rng.chance(1, 2) else (y, x)
            if k == "accum":
                f = lambda d: ("asg", G(3), ("bin", "add", ("bin", "mul", G(3), I(3)), I(d)))
                return ("bin", "mod", f(1), I(7)), ("bin", "mod", f(2), I(5))
            return ("idx", L(A), ("inc", "postinc", L(LI))), ("bin", "add", L(LI), I(rng.range(-2, 3)))
        guard = ("if", ("bin", "ge", L(LI), I(10)), "break", "nop")
        bump = ("if", ("bin", "gt", ("inc", "preinc", L(LN)), I(6)), "break", "nop")
        fin = [("ret", Arr([L(LN), L(LI), G(3)]))]
        fns = []
        for op in rng.shuffle(cmpops)[:rng.range(3, 6)]:
            x, y = operands()
            c = ("bin", op, x, y)
            ctx = rng.weighted([("while", 4), ("for", 3), ("do", 3), ("if", 2), ("cond", 1), ("value", 1)])
            body = ("block", [bump, guard])
            if ctx == "while":
                fns.append(init + [("while", c, body)] + fin)
            elif ctx == "for":
                fns.append(init + [("for", "nop", c, ("expr", ("aop", "add", L(LN), I(0))), body)] + fin)
            elif ctx == "do":
                fns.append(init + [("do", body, c)] + fin)
            elif ctx == "if":
                fns.append(init + [("if", c, ("expr", ("asg", L(LN), I(1))), ("expr", ("asg", L(LN), I(2))))] + fin)
            elif ctx == "cond":
                fns.append(init + [("expr", ("asg", L(LN), ("cond", c, I(1), I(2))))] + fin)
            else:
                fns.append(init + [("expr", ("asg", L(LN), c))] + fin)
            # the same condition under ! and inside && (other branch opcodes)
            if rng.chance(1, 2):
                fns.append(init + [("while", ("and", c, ("bin", "lt", L(LN), I(5))), body)] + fin)
        return make_case(cid, fns, same=[], meta={"origin": "generated", "family": "evalorder"})

    FAMS = [("fam_binop", 9), ("fam_unop", 2), ("fam_incdec", 3), ("fam_index", 5), ("fam_range", 5), ("fam_lvalue", 6),
            ("fam_switch", 6), ("fam_loop", 6), ("fam_assignop", 5), ("fam_literal", 3), ("fam_rewrite", 4), ("fam_macro", 3), ("fam_calls", 5), ("fam_mapalg", 7), ("fam_maptrace", 5), ("fam_macrosubst", 7), ("fam_mdef", 4), ("fam_strswitch", 6), ("fam_selfop", 8), ("fam_funp", 8), ("fam_arrtrace", 3), ("fam_fresh", 7), ("fam_swshape", 7), ("fam_evalorder", 7)]

    def generate(self, rng, n, tier):
        out = []
        focus = [f for site in self.broken_sites for f in self.SITE_FAMS.get(site, [])] if tier == "search" else []
        for k in range(n):
            fam = rng.choice(focus) if focus and rng.chance(2, 3) else rng.weighted(self.FAMS)
            out.append(getattr(self, fam)(rng, "g%d" % k))
        return out

    def mutate_around(self, case, rng, n):
        fam = case.meta.get("family")
        name = "fam_" + fam if fam and hasattr(self, "fam_" + fam) else None
        return [getattr(self, name)(rng, "m%d" % k) if name else getattr(self, rng.weighted(self.FAMS))(rng, "m%d" % k)
                for k in range(n)]

    # ---- deterministic boundary cases: one per confirmed defect + extremes -----------------------------
    def boundary(self):
        Bc = []

        def mk(name, fns, same=None, defines=()):
            Bc.append(make_case("b-" + name, fns, same=same, defines=defines, meta={"origin": "boundary", "family": name}))
        two32 = 2 ** 32
        arr3 = Arr([I(10), I(20), I(30)])
        # a zero byte goes into a buffer element but never into a string - also right after a buffer store (the char lvalue of
        # strings and buffers is one shared object in interpret.c)
        mk("lvbyte-buf-then-str", [[("expr", ("asg", L(A), Buf([65, 66]))), ("expr", ("asg", ("idx", L(A), I(0)), I(0))), ("ret", L(A))],
                                   [("expr", ("asg", L(A), Buf([65, 66]))), ("expr", ("asg", ("idx", L(A), I(0)), I(0))),
                                    ("expr", ("asg", L(C), ("bin", "add", S(b"abc"), S(b"")))), ("expr", ("asg", ("idx", L(C), I(1)), I(256))), ("ret", L(C))],
                                   [("expr", ("asg", L(A), Buf([65, 66]))), ("expr", ("inc", "predec", ("idx", L(A), I(0)))),
                                    ("expr", ("asg", L(C), ("bin", "add", S(b"abc"), S(b"")))), ("expr", ("aop", "add", ("idx", L(C), I(1)), I(158))), ("ret", L(C))],
                                   [("expr", ("asg", L(C), ("bin", "add", S(b"abc"), S(b"")))), ("expr", ("asg", ("idx", L(C), I(1)), I(0))), ("ret", L(C))]], same=[])
        # (1) x == 0 on a real
        mk("eq0-real", [[("expr", ("asg", L(LX), Fl(0.0))), ("ret", ("bin", "eq", L(LX), I(0)))],
                        [("expr", ("asg", L(A), Fl(0.0))), ("expr", ("asg", L(B), I(0))), ("ret", ("bin", "eq", L(A), L(B)))],
                        [("expr", ("asg", L(LX), Fl(0.0))), ("if", ("bin", "ne", L(LX), I(0)), ("ret", I(0)), "nop"), ("ret", I(1))]])
        # (2) while (x--) with x = 2^32
        g = ("if", ("bin", "gt", L(LN), I(5)), "break", "nop")
        mk("whiledec-2p32", [[("expr", ("asg", L(LI), I(two32))), ("while", ("inc", "postdec", L(LI)), ("block", [("expr", ("inc", "postinc", L(LN))), g])), ("ret", L(LN))],
                             [("expr", ("asg", G(3), I(two32))), ("while", ("inc", "postdec", G(3)), ("block", [("expr", ("inc", "postinc", L(LN))), g])), ("ret", L(LN))]])
        # (3) a[2^32], (4) a[0..2^32]
        mk("index-2p32", [[("expr", ("asg", L(A), arr3)), ("expr", ("asg", L(B), I(two32))), ("ret", ("idx", L(A), L(B)))],
                          [("expr", ("asg", L(A), S(b"abc"))), ("expr", ("asg", L(B), I(two32 + 1))), ("ret", ("idx", L(A), L(B)))],
                          [("expr", ("asg", L(A), arr3)), ("expr", ("asg", L(B), I(two32 + 1))), ("ret", ("ridx", L(A), L(B)))]], same=[])
        mk("range-2p32", [[("expr", ("asg", L(A), arr3)), ("expr", ("asg", L(B), I(two32))), ("ret", ("efun", "sizeof", [("rng", False, False, L(A), I(0), L(B))]))],
                          [("expr", ("asg", L(A), arr3)), ("expr", ("asg", L(B), I(two32 + 1))), ("ret", ("rnge", False, L(A), L(B)))],
                          [("expr", ("asg", L(A), arr3)), ("expr", ("asg", L(B), I(two32 + 1))),
                           ("expr", ("asg", ("rng", False, False, L(A), L(B), L(B)), Arr([I(7)]))), ("ret", L(A))]], same=[])
        # (5) switch (INT64_MAX) over -1..2 ; int64 labels
        arms = [(("num", q), [("ret", I(q + 10))]) for q in (-1, 0, 1, 2)]
        mk("switch-direct-max", [[("expr", ("asg", L(A), I(I64MAX))), ("switch", L(A), arms), ("ret", I(0))],
                                 [("expr", ("asg", L(A), I(I64MAX))), ("if", ("bin", "eq", L(A), I(-1)), ("ret", I(9)), "nop"), ("ret", I(0))]])
        arms2 = [(("num", 0), [("ret", I(1))]), (("num", two32 + 1), [("ret", I(2))])]
        mk("switch-big-labels", [[("expr", ("asg", L(A), I(1))), ("switch", L(A), arms2), ("ret", I(0))],
                                 [("expr", ("asg", L(A), I(two32 + 1))), ("switch", L(A), arms2), ("ret", I(0))]], same=[])
        arms3 = [(("num", q), [("ret", I(k + 1))]) for k, q in enumerate((5, two32, 2 ** 31, 7, -3))]
        mk("switch-big-sorted", [[("expr", ("asg", L(A), I(q))), ("switch", L(A), arms3), ("ret", I(0))] for q in (5, two32, 2 ** 31, 7, -3, 0)], same=[])
        # (6) real += int
        mk("real-addeq-int", [[("expr", ("asg", L(A), Fl(1.5))), ("expr", ("aop", "add", L(A), I(2))), ("ret", L(A))],
                              [("expr", ("asg", L(A), Fl(1.5))), ("expr", ("asg", L(A), ("bin", "add", L(A), I(2)))), ("ret", L(A))]])
        # (7) buffer range lvalue that resizes
        mk("buf-range-resize", [[("expr", ("asg", L(A), ("efun", "allocate_buffer", [I(6)]))), ("expr", ("asg", ("rng", False, False, L(A), I(2), I(3)), Buf([65, 66, 67]))), ("ret", L(A))]])
        # (8) 0 and 0.0 as mapping keys
        mk("map-key-0-0.0", [[("ret", ("bin", "add", Map([(I(0), S(b"a"))]), Map([(Fl(0.0), S(b"b"))])))],
                             [("expr", ("asg", L(A), Map([]))), ("expr", ("asg", ("idx", L(A), I(0)), I(1))), ("expr", ("asg", ("idx", L(A), Fl(0.0)), I(2))), ("ret", L(A))]], same=[])
        # (9) buffer index == size
        mk("buf-index-size", [[("expr", ("asg", L(A), ("efun", "allocate_buffer", [I(3)]))), ("expr", ("asg", L(B), I(3))), ("ret", ("idx", L(A), L(B)))],
                              [("expr", ("asg", L(A), ("efun", "allocate_buffer", [I(3)]))), ("expr", ("asg", L(B), I(0))), ("ret", ("ridx", L(A), L(B)))]])
        # new ones
        mk("preinc-real", [[("expr", ("asg", L(A), Fl(1.5))), ("ret", ("inc", "preinc", L(A)))],
                           [("expr", ("asg", L(A), Fl(1.5))), ("ret", ("asg", L(A), ("bin", "add", L(A), I(1))))]])
        mk("loopcond-2p32", [[("for", ("expr", ("asg", L(LI), I(two32 - 3))), ("bin", "lt", L(LI), I(two32)), ("expr", ("inc", "postinc", L(LI))), ("expr", ("inc", "postinc", L(LN)))), ("ret", L(LN))],
                             [("expr", ("asg", L(A), I(two32))),
                              ("for", ("expr", ("asg", L(LI), I(two32 - 3))), ("bin", "lt", L(LI), L(A)), ("expr", ("inc", "postinc", L(LI))), ("expr", ("inc", "postinc", L(LN)))), ("ret", L(LN))]])
        mk("div-min-m1", [[("expr", ("asg", L(A), I(I64MIN))), ("expr", ("asg", L(B), I(-1))), ("ret", Arr([("bin", "div", L(A), L(B)), ("bin", "mod", L(A), L(B))]))],
                          [("ret", Arr([("bin", "div", I(I64MIN), I(-1)), ("bin", "mod", I(I64MIN), I(-1))]))],
                          [("expr", ("asg", L(A), I(I64MIN))), ("expr", ("asg", L(B), I(I64MIN))), ("expr", ("aop", "div", L(A), I(-1))), ("expr", ("aop", "mod", L(B), I(-1))), ("ret", Arr([L(A), L(B)]))]])
        col = lambda v: ("expr", ("aop", "add", L(C), Arr([v])))
        mk("foreach-invalid-utf8", [[("expr", ("asg", L(A), S(b"a\xffb"))), ("expr", ("asg", L(C), Arr([]))), ("foreach", L(B), L(A), col(L(B))), ("ret", L(C))],
                                    [("expr", ("asg", L(A), S(b"a\xffb"))), ("expr", ("asg", L(C), Arr([]))),
                                     ("for", ("expr", ("asg", L(LI), I(0))), ("bin", "lt", L(LI), ("efun", "strlen", [L(A)])), ("expr", ("inc", "postinc", L(LI))), col(("idx", L(A), L(LI)))), ("ret", L(C))]])
        mk("array-sub-2p32", [[("ret", ("bin", "sub", Arr([I(0)]), Arr([I(two32)])))],
                              [("expr", ("asg", L(A), Arr([Fl(0.5)]))), ("expr", ("asg", L(B), Arr([I(1), I(two32)]))), ("ret", ("bin", "sub", L(A), L(B)))]], same=[])
        mm1, mm2 = Map([(I(1), I(2)), (I(7), I(8))]), Map([(I(2), I(3)), (I(4), I(5))])
        mk("map-muleq", [[("expr", ("asg", L(A), mm1)), ("expr", ("asg", L(B), mm2)), ("expr", ("aop", "mul", L(A), L(B))), ("ret", L(A))],
                         [("expr", ("asg", L(A), mm1)), ("expr", ("asg", L(B), mm2)), ("ret", ("bin", "mul", L(A), L(B)))]])
        mk("macro-prefix-param", [[("expr", ("asg", L(A), I(3))), ("ret", Arr([("macro", "PICK", [I(10), I(20)], I(20)), ("macro", "SCALE", [I(5)], ("bin", "mul", L(A), I(5)))]))],
                                  [("expr", ("asg", L(A), I(3))), ("ret", Arr([I(20), ("bin", "mul", L(A), I(5))]))]],
           defines=["#define PICK(ab, a) (a)", "#define SCALE(a1) (a * (a1))"])
        sarms = [(("str", b"a"), [("ret", I(1))]), (("num", 0), [("ret", I(2))]), ("default", [("ret", I(-1))])]
        mk("strswitch-case0-runtime-key", [[("expr", ("asg", L(LI), I(7))), ("expr", ("asg", L(A), ("bin", "add", S(b"rt_"), L(LI)))), ("switch", L(A), sarms), ("ret", I(0))],
                                           [("expr", ("asg", L(LI), I(7))), ("expr", ("asg", L(A), ("bin", "add", S(b"rt_"), L(LI)))),
                                            ("if", ("bin", "eq", L(A), S(b"a")), ("ret", I(1)), ("if", ("bin", "eq", L(A), I(0)), ("ret", I(2)), "nop")), ("ret", I(-1))],
                                           [("expr", ("asg", L(A), I(0))), ("switch", L(A), sarms), ("ret", I(0))]], same=[[0, 1]])
        mk("diveq-int-real-big", [[("expr", ("asg", L(A), I(2 ** 40))), ("expr", ("aop", "div", L(A), Fl(1.0))), ("ret", L(A))]])
        return Bc


PROP = C03()
PROP.theorems = ["NV.C03." + t for t in (
    "unop_agrees", "binop_agrees", "truthy_agrees", "assignop_eq_binop", "assignop_agrees_partial", "assignop_agrees_repaired",
    "incdec_agrees", "index_agrees", "rindex_agrees", "lvget_agrees", "fold_sound", "fold_sound_spec", "fold_un_sound",
    "rewrite_eq_zero_sound", "rewrite_add_zero_sound", "rewrite_not_cond_sound", "rewrite_ne_zero_sound", "literal_roundtrip",
    "while_dec_agrees", "loop_cond_num_agrees", "loop_cond_local_agrees", "switch_direct_agrees",
    "lvset_agrees_partial", "lvset_agrees_repaired", "range_lvalue_agrees", "storeRange_agrees", "cut_eq_slice",
    "sliceArray_eq_slice", "lvset_agrees", "rangeFromEnd_spec", "rangeFromEnd_cases", "rangeWith_exact_agrees", "cut_sat",
    "rangeWith_sat", "range_agrees", "range_agrees_repaired", "extractWith_exact_agrees", "extractWith_sat", "extract_agrees",
    "extract_agrees_repaired",
    "fixup_spec", "bsearch_good", "log2floor_spec", "switch_sorted_agrees", "good_unique",
    "for_eq_while", "loop_forms_agree",
    "HT.grow_lookup", "HT.grow_wf", "HT.insert_lookup_same", "HT.insert_lookup_other", "HT.insert_wf",
    "HT.delete_lookup_same", "HT.delete_lookup_other", "HT.delete_wf", "HT.insert_refines", "HT.merge_refines",
    "HT.mapping_lookup_after_insert", "HT.empty_refines",
    "Macro.macroParamMatch_iff", "Macro.matchParam_eq_paramOf", "Macro.specGo_eq", "Macro.scan_eq", "Macro.goRaw_blank",
    "Macro.macro_definition_agrees", "Macro.macro_expansion_agrees",
    "index_guard_buf", "index_guard_str", "index_guard_arr", "Heap.addArray_refines", "Heap.addArray_value", "Heap.sliceArray_refines", "Heap.sliceItems_eq", "rw_guards_int", "tyCode_int",
    "mem_sortEntries", "pairwise_sortEntries", "sortedT_of_pairwise", "mem_strEntries", "string_switch_agrees",
    "wrap_id", "wrap_range", "tdiv_range", "tmod_range", "idiv_eq", "imod_eq")]
PROP.witness_theorems = ["NV.C03." + t for t in (
    "witness_num_opeq_real", "witness_addeq_num_str", "assignop_agrees_Full_false", "witness_buf_store_zero",
    "witness_eq_zero_real", "witness_optimistic_rewrite", "witness_rev_range_wrap")]
