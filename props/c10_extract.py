"""Translator part T4 for C10 (DESIGN.md 2.3): the arithmetic of the call_out timing wheel is *recovered from
lib/efuns/call_out.c* (clang-14 JSON AST) and emitted as Lean definitions into NV/Gen/C10.lean.  The model
(NV/C10/Model.lean) evaluates these generated definitions; NV/C10/LemmasTie.lean proves, as named obligations, that
they equal the `dueOf`-based formulas the theorems are about.  A change of a formula in the C source therefore
changes the model (so the correspondence run still agrees with the driver) and breaks the obligation.

Sites:
  new_call_out        the `delay < 1` clamp, the `!call_out_time` initialisation, `tm = ...` (slot),
                      `delay = ...` (rotation count), `tm += CALLOUT_CYCLE_SIZE * ++unique` (handle, both copies),
                      and the order of these statements
  time_left           `current_slot`, the branch condition and both returned expressions
  call_out            the `while` condition, `tm = ...`, and the position of `call_out_time++` relative to the
                      slot computation and to the visit of the slot
  get_all_call_outs   the inline copy of time_left (`tm = ...`, condition, both assigned expressions)

Expression grammar: integer variables from a per-site list, integer literals (the literal produced by the macro
CALLOUT_CYCLE_SIZE is emitted as `calloutCycleSize`), parentheses, + - * / % &, comparisons, `!`, integral casts
(widening = identity, narrowing to int = `trunc32`).  Arithmetic nodes are not wrapped to their C width: signed
overflow is undefined behaviour in C and outside the model.  `&` is emitted as `cAnd` (defined for non-negative
operands, which is all the model evaluates it on).  Anything else raises nvlib.extract.TieBroken.
"""
import os
import re

from nvlib import engine as E
from nvlib.extract import TieBroken
from props.c01_extract import ast_function

SRC = "lib/efuns/call_out.c"
WIDE = ("long", "long long", "time_t", "unsigned long", "unsigned long long")
NARROW = ("int", "short", "char", "signed char", "unsigned char", "unsigned short", "_Bool")

PRELUDE = r'''
/-! ### translator T4: expressions recovered from lib/efuns/call_out.c (props/c10_extract.py) -/

/-- C conversion to `int` (value-preserving when the operand is in range) -/
def trunc32 (x : Int) : Int := (x + 2147483648) % 4294967296 - 2147483648
/-- C `&`; meaningful for non-negative operands only (all the model evaluates it on) -/
def cAnd (a b : Int) : Int := ((a.toNat &&& b.toNat : Nat) : Int)
'''


class OutOfGrammar(Exception):
    pass


def ctype(n):
    t = n.get("type", {})
    q = t.get("desugaredQualType") or t.get("qualType") or ""
    return q.replace("const ", "").replace("volatile ", "").strip()


def strip(n):
    while True:
        k = n.get("kind")
        if k in ("ParenExpr", "ConstantExpr"):
            n = n["inner"][0]
        elif k == "ImplicitCastExpr" and n.get("castKind") in ("LValueToRValue", "NoOp"):
            n = n["inner"][0]
        else:
            return n


def ref_name(n):
    n = strip(n)
    if n.get("kind") == "DeclRefExpr":
        return n["referencedDecl"]["name"]
    return None


def kids(n):
    return [c for c in n.get("inner", []) if isinstance(c, dict) and c.get("kind")]


def walk(n):
    yield n
    for c in kids(n):
        for x in walk(c):
            yield x


class Tr:
    def __init__(self, site, allowed, text):
        self.site = site
        self.allowed = allowed
        self.text = text

    def macro_at(self, n):
        b = n.get("range", {}).get("begin", {})
        loc = b.get("expansionLoc")
        if not loc or "offset" not in loc:
            return None
        off, ln = loc["offset"], loc.get("tokLen", 0)
        tok = self.text[off:off + ln]
        return tok if re.fullmatch(r"[A-Za-z_]\w*", tok) else None

    def e(self, n):
        k = n.get("kind")
        if k in ("ParenExpr", "ConstantExpr"):
            return self.e(n["inner"][0])
        if k in ("ImplicitCastExpr", "CStyleCastExpr"):
            ck = n.get("castKind")
            inner = n["inner"][0]
            if ck in ("LValueToRValue", "NoOp"):
                return self.e(inner)
            if ck == "IntegralCast":
                to, frm = ctype(n), ctype(inner)
                if to in WIDE or (to in NARROW and frm in NARROW and to == "int"):
                    return self.e(inner)
                if to == "int":
                    return "trunc32 (%s)" % self.e(inner)
                raise OutOfGrammar("cast to %s" % to)
            raise OutOfGrammar("cast %s" % ck)
        if k == "IntegerLiteral":
            if self.macro_at(n) == "CALLOUT_CYCLE_SIZE":
                return "(calloutCycleSize : Int)"
            return n["value"]
        if k == "DeclRefExpr":
            name = n["referencedDecl"]["name"]
            if name not in self.allowed:
                raise OutOfGrammar("variable %s" % name)
            return name
        if k == "MemberExpr":
            # a struct field named like an allowed variable (`(*copp)->delta`)
            name = n.get("name")
            if name not in self.allowed:
                raise OutOfGrammar("field %s" % name)
            return name
        if k == "UnaryOperator":
            op = n.get("opcode")
            if op == "-":
                return "(- %s)" % self.e(n["inner"][0])
            if op == "++" and not n.get("isPostfix"):
                return "(%s + 1)" % self.e(n["inner"][0])
            if op == "--" and not n.get("isPostfix"):
                return "(%s - 1)" % self.e(n["inner"][0])
            raise OutOfGrammar("unary %s" % op)
        if k == "BinaryOperator":
            op = n.get("opcode")
            a, b = n["inner"]
            if op in ("+", "-", "*"):
                return "(%s %s %s)" % (self.e(a), op, self.e(b))
            if op == "/":
                return "(Int.tdiv %s %s)" % (self.e(a), self.e(b))
            if op == "%":
                return "(Int.tmod %s %s)" % (self.e(a), self.e(b))
            if op == "&":
                return "(cAnd %s %s)" % (self.e(a), self.e(b))
            raise OutOfGrammar("binary %s" % op)
        raise OutOfGrammar("node %s" % k)

    def p(self, n):
        """condition -> Lean Prop (decidable)"""
        n = strip(n)
        k = n.get("kind")
        if k == "BinaryOperator" and n.get("opcode") in ("<", ">", "<=", ">=", "==", "!="):
            lop = {"==": "=", "!=": "≠", "<=": "≤", ">=": "≥"}.get(n["opcode"], n["opcode"])
            return "%s %s %s" % (self.e(n["inner"][0]), lop, self.e(n["inner"][1]))
        if k == "UnaryOperator" and n.get("opcode") == "!":
            return "%s = 0" % self.e(n["inner"][0])
        raise OutOfGrammar("condition %s" % k)


def src_of(n, text):
    r = n.get("range", {})

    def off(loc, end=False):
        l2 = loc.get("expansionLoc", loc)
        o = l2.get("offset")
        return None if o is None else o + (l2.get("tokLen", 0) if end else 0)
    a, b = off(r.get("begin", {})), off(r.get("end", {}), True)
    if a is None or b is None or b <= a or b - a > 300:
        return "?"
    return re.sub(r"\s+", " ", text[a:b]).replace("-/", "- /")


def need(site, cond, msg):
    if not cond:
        raise TieBroken("c10:" + site, "%s: %s" % (site, msg))


def body_of(fn):
    for c in kids(fn):
        if c.get("kind") == "CompoundStmt":
            return c
    return None


def is_assign_to(n, var):
    return n.get("kind") == "BinaryOperator" and n.get("opcode") == "=" and ref_name(n["inner"][0]) == var


def single_stmt(n):
    """the statement of an if-branch (a CompoundStmt with one statement is unwrapped)"""
    if n.get("kind") == "CompoundStmt":
        ks = kids(n)
        return ks[0] if len(ks) == 1 else None
    return n


def extract(bdir):
    """returns Lean text for NV/Gen/C10.lean; raises TieBroken"""
    text = open(os.path.join(E.REPO, SRC), encoding="latin-1").read()
    out = [PRELUDE]

    def emit(site, name, params, ty, rhs, node, what):
        out.append("/-- %s: `%s` -/\ndef %s %s: %s :=\n  %s\n" % (
            what, src_of(node, text), name, "".join("(%s : Int) " % p for p in params), ty, rhs))

    def tr(site, allowed, fn):
        t = Tr(site, allowed, text)

        def wrap(f):
            def g(n):
                try:
                    return f(n)
                except OutOfGrammar as ex:
                    raise TieBroken("c10:" + site, "%s: expression leaves the grammar (%s): %s" % (site, ex, src_of(n, text)))
            return g
        return wrap(t.e), wrap(t.p)

    # ---- new_call_out ----------------------------------------------------------------------------
    fn = ast_function(bdir, SRC, "new_call_out")
    stmts = kids(body_of(fn))
    idx = {}
    for i, s in enumerate(stmts):
        if s.get("kind") == "IfStmt":
            ks = kids(s)
            then = single_stmt(ks[1]) if len(ks) == 2 else None
            if then is not None and is_assign_to(then, "delay") and "clamp" not in idx:
                idx["clamp"] = (i, ks[0], then)
            elif then is not None and is_assign_to(then, "call_out_time") and "init" not in idx:
                idx["init"] = (i, ks[0], then)
        elif is_assign_to(s, "tm") and "slot" not in idx:
            idx["slot"] = (i, s)
        elif is_assign_to(s, "delay") and "rot" not in idx:
            idx["rot"] = (i, s)
    for k in ("clamp", "init", "slot", "rot"):
        need("new_call_out." + k, k in idx, "statement not found")
    need("new_call_out.order", idx["clamp"][0] < idx["slot"][0] < idx["rot"][0] and idx["init"][0] < idx["rot"][0],
         "the clamp / call_out_time initialisation / slot / rotation statements are no longer in the modelled order")
    e, p = tr("new_call_out.clamp", ("delay",), fn)
    _, c, a = idx["clamp"]
    emit("clamp", "clampDelay", ["delay"], "Int", "if %s then %s else delay" % (p(c), e(a["inner"][1])), stmts[idx["clamp"][0]],
         "new_call_out")
    e, p = tr("new_call_out.init", ("call_out_time", "current_time"), fn)
    _, c, a = idx["init"]
    emit("init", "initCot", ["call_out_time", "current_time"], "Int",
         "if %s then %s else call_out_time" % (p(c), e(a["inner"][1])), stmts[idx["init"][0]], "new_call_out")
    e, p = tr("new_call_out.slot", ("delay", "current_time"), fn)
    emit("slot", "slotExpr", ["delay", "current_time"], "Int", e(idx["slot"][1]["inner"][1]), idx["slot"][1], "new_call_out")
    e, p = tr("new_call_out.rot", ("delay", "current_time", "call_out_time"), fn)
    emit("rot", "rotExpr", ["delay", "current_time", "call_out_time"], "Int", e(idx["rot"][1]["inner"][1]), idx["rot"][1],
         "new_call_out")
    hs = [n for n in walk(body_of(fn)) if n.get("kind") == "CompoundAssignOperator" and n.get("opcode") == "+="
          and ref_name(n["inner"][0]) == "tm"]
    need("new_call_out.handle", len(hs) >= 1, "`tm += CALLOUT_CYCLE_SIZE * ++unique` not found")
    e, p = tr("new_call_out.handle", ("tm", "unique"), fn)
    hexprs = set("(tm + %s)" % e(h["inner"][1]) for h in hs)
    need("new_call_out.handle", len(hexprs) == 1, "the copies of the handle computation differ: %s" % sorted(hexprs))
    emit("handle", "handleExpr", ["tm", "unique"], "Int", hexprs.pop(), hs[0], "new_call_out (`++unique` = unique + 1)")

    # ---- time_left ---------------------------------------------------------------------------------
    fn = ast_function(bdir, SRC, "time_left")
    stmts = kids(body_of(fn))
    cur = [v for s in stmts if s.get("kind") == "DeclStmt" for v in kids(s)
           if v.get("kind") == "VarDecl" and v.get("name") == "current_slot" and kids(v)]
    need("time_left.current_slot", len(cur) == 1, "declaration with initialiser not found")
    e, p = tr("time_left.current_slot", ("call_out_time",), fn)
    emit("cur", "curSlotExpr", ["call_out_time"], "Int", e(kids(cur[0])[0]), cur[0], "time_left")
    ifs = [s for s in stmts if s.get("kind") == "IfStmt"]
    need("time_left.if", len(ifs) == 1 and len(kids(ifs[0])) == 3 and stmts[-1] is ifs[0], "if/else with two returns not found")
    c, th, el = kids(ifs[0])
    th, el = single_stmt(th), single_stmt(el)
    need("time_left.if", th is not None and el is not None and th.get("kind") == "ReturnStmt" and el.get("kind") == "ReturnStmt",
         "branches are not single return statements")
    tlv = ("delay", "slot", "current_slot", "call_out_time", "current_time")
    e, p = tr("time_left.cond", ("slot", "current_slot"), fn)
    emit("tlc", "timeLeftCond", ["slot", "current_slot"], "Bool", "decide (%s)" % p(c), c, "time_left")
    e, p = tr("time_left.then", tlv, fn)
    emit("tlt", "timeLeftThen", list(tlv), "Int", e(kids(th)[0]), th, "time_left")
    e, p = tr("time_left.else", tlv, fn)
    emit("tle", "timeLeftElse", list(tlv), "Int", e(kids(el)[0]), el, "time_left")

    # ---- call_out ----------------------------------------------------------------------------------
    fn = ast_function(bdir, SRC, "call_out")
    whiles = [n for n in walk(body_of(fn)) if n.get("kind") == "WhileStmt"
              and any(ref_name(x) == "call_out_time" for x in walk(kids(n)[0]))]
    need("call_out.while", len(whiles) == 1, "the `while (call_out_time < current_time)` loop not found")
    wc, wb = kids(whiles[0])
    e, p = tr("call_out.while", ("call_out_time", "current_time"), fn)
    emit("wc", "sweepCond", ["call_out_time", "current_time"], "Bool", "decide (%s)" % p(wc), wc, "call_out: loop condition")
    need("call_out.body", wb.get("kind") == "CompoundStmt", "loop body is not a block")
    bs = kids(wb)
    inc = [i for i, s in enumerate(bs) if s.get("kind") == "UnaryOperator" and s.get("opcode") == "++"
           and ref_name(s["inner"][0]) == "call_out_time"]
    tms = [i for i, s in enumerate(bs) if is_assign_to(s, "tm")]
    vis = [i for i, s in enumerate(bs) if s.get("kind") == "IfStmt" and any(x.get("kind") == "DoStmt" for x in walk(s))]
    need("call_out.inc", len(inc) == 1, "exactly one `call_out_time++` statement expected in the loop body, found %d" % len(inc))
    need("call_out.tm", len(tms) == 1, "exactly one `tm = ...` statement expected in the loop body")
    need("call_out.visit", len(vis) == 1, "the `if (call_list[tm] && --...) do ... while` statement not found")
    need("call_out.order", tms[0] < vis[0], "`tm` is computed after the slot visit")
    others = [s.get("kind") for i, s in enumerate(bs) if i not in (inc[0], tms[0], vis[0])]
    need("call_out.body", not others, "unmodelled statements in the loop body: %s" % others)
    all_inc = [n for n in walk(wb) if n.get("kind") in ("UnaryOperator", "CompoundAssignOperator", "BinaryOperator")
               and n.get("opcode") in ("++", "--", "+=", "-=", "=") and ref_name(n["inner"][0]) == "call_out_time"]
    need("call_out.inc", len(all_inc) == 1, "call_out_time is modified elsewhere in the loop")
    e, p = tr("call_out.tm", ("call_out_time",), fn)
    emit("ws", "sweepSlotExpr", ["call_out_time"], "Int", e(bs[tms[0]]["inner"][1]), bs[tms[0]], "call_out")
    out.append("/-- call_out: `call_out_time++` stands before `tm = ...` in the loop body -/\ndef sweepIncBeforeSlot : Bool := %s\n"
               % ("true" if inc[0] < tms[0] else "false"))
    out.append("/-- call_out: `call_out_time++` stands before the visit of the slot (the callbacks) -/\n"
               "def sweepIncBeforeVisit : Bool := %s\n" % ("true" if inc[0] < vis[0] else "false"))

    # the two "is the head due" tests: `--call_list[tm]->delta == 0` and `call_list[tm]->delta == 0`
    vcond = kids(bs[vis[0]])[0]
    need("call_out.head", strip(vcond).get("kind") == "BinaryOperator" and strip(vcond).get("opcode") == "&&",
         "`call_list[tm] && --call_list[tm]->delta == 0` not found")
    e, p = tr("call_out.head", ("delta",), fn)
    emit("hd", "headDue", ["delta"], "Bool", "decide (%s)" % p(strip(vcond)["inner"][1]), strip(vcond)["inner"][1],
         "call_out: the head is decremented and is due when (`delta` = value before the decrement)")
    dos = [x for x in kids(bs[vis[0]])[1:2] if x.get("kind") == "DoStmt"]
    need("call_out.do", len(dos) == 1, "the do/while is not the body of the `if`")
    dcond = strip(kids(dos[0])[1])
    need("call_out.do", dcond.get("kind") == "BinaryOperator" and dcond.get("opcode") == "&&",
         "`while (call_list[tm] && call_list[tm]->delta == 0)` not found")
    emit("nd", "nextDue", ["delta"], "Bool", "decide (%s)" % p(dcond["inner"][1]), dcond["inner"][1],
         "call_out: the do/while continues while the new head has")

    # ---- get_all_call_outs (inline copy of time_left) ----------------------------------------------------
    fn = ast_function(bdir, SRC, "get_all_call_outs")
    stmts = kids(body_of(fn))
    tma = [s for s in stmts if is_assign_to(s, "tm")]
    need("get_all_call_outs.tm", len(tma) == 1, "`tm = ...` not found")
    e, p = tr("get_all_call_outs.tm", ("call_out_time",), fn)
    emit("is", "infoSlotExpr", ["call_out_time"], "Int", e(tma[0]["inner"][1]), tma[0], "get_all_call_outs")
    ifs = [n for n in walk(body_of(fn)) if n.get("kind") == "IfStmt" and len(kids(n)) == 3
           and {"j", "tm"} <= set(ref_name(x) for x in walk(kids(n)[0]) if x.get("kind") == "DeclRefExpr")]
    need("get_all_call_outs.if", len(ifs) == 1, "the `if (j > tm)` statement not found")
    c, th, el = kids(ifs[0])
    th, el = single_stmt(th), single_stmt(el)

    def is_number_assign(s):
        return s is not None and s.get("kind") == "BinaryOperator" and s.get("opcode") == "=" and \
            strip(s["inner"][0]).get("kind") == "MemberExpr" and strip(s["inner"][0]).get("name") == "number"
    need("get_all_call_outs.if", is_number_assign(th) and is_number_assign(el), "branches are not single assignments to .u.number")
    iv = ("delay", "j", "tm", "call_out_time", "current_time")
    e, p = tr("get_all_call_outs.cond", ("j", "tm"), fn)
    emit("ic", "infoCond", ["j", "tm"], "Bool", "decide (%s)" % p(c), c, "get_all_call_outs")
    e, p = tr("get_all_call_outs.then", iv, fn)
    emit("it", "infoThen", list(iv), "Int", e(th["inner"][1]), th, "get_all_call_outs")
    e, p = tr("get_all_call_outs.else", iv, fn)
    emit("ie", "infoElse", list(iv), "Int", e(el["inner"][1]), el, "get_all_call_outs")

    # ---- new_call_out: ordered insert comparison ------------------------------------------------------
    fn = ast_function(bdir, SRC, "new_call_out")
    fors = [n for n in walk(body_of(fn)) if n.get("kind") == "ForStmt"
            and any(x.get("kind") == "MemberExpr" and x.get("name") == "delta" for x in walk(n))]
    need("new_call_out.insert", len(fors) == 1, "the insertion loop not found")
    ifs = [n for n in walk(fors[0]) if n.get("kind") == "IfStmt"]
    need("new_call_out.insert", len(ifs) == 1, "the `if ((*copp)->delta >= delay)` test not found")
    e, p = tr("new_call_out.insert", ("delta", "delay"), fn)
    emit("ins", "insertBefore", ["delta", "delay"], "Bool", "decide (%s)" % p(kids(ifs[0])[0]), kids(ifs[0])[0],
         "new_call_out: insert before the first entry with")

    # ---- by-handle efuns: slot of a handle --------------------------------------------------------------
    hexprs = {}
    for f in ("remove_call_out_by_handle", "find_call_out_by_handle"):
        fn = ast_function(bdir, SRC, f)
        ands = [n for n in walk(body_of(fn)) if n.get("kind") == "BinaryOperator" and n.get("opcode") == "&"
                and ref_name(n["inner"][0]) == "handle"]
        need(f + ".slot", len(ands) >= 2, "`handle & (CALLOUT_CYCLE_SIZE - 1)` (list head and time_left argument) not found")
        e, p = tr(f + ".slot", ("handle",), fn)
        for a in ands:
            hexprs.setdefault(e(a), a)
    need("by_handle.slot", len(hexprs) == 1, "the copies of the handle->slot expression differ: %s" % sorted(hexprs))
    hx, hn = list(hexprs.items())[0]
    emit("hs", "handleSlotExpr", ["handle"], "Int", hx, hn, "remove/find_call_out_by_handle")

    # ---- `return (int) time_left (...)` in the four efun helpers --------------------------------------------
    casts = {}
    for f in ("remove_call_out", "remove_call_out_by_handle", "find_call_out_by_handle", "find_call_out"):
        fn = ast_function(bdir, SRC, f)
        rets = [n for n in walk(body_of(fn)) if n.get("kind") == "ReturnStmt"
                and any(x.get("kind") == "CallExpr" and ref_name(x["inner"][0]) is None
                        and any(ref_name(y) == "time_left" for y in walk(x["inner"][0])) for x in walk(n))]
        need(f + ".return", len(rets) == 1, "`return (int) time_left (...)` not found")
        v = strip(kids(rets[0])[0])
        if v.get("kind") == "CStyleCastExpr" and ctype(v) == "int":
            casts[f] = "trunc32 x"
        elif v.get("kind") == "CallExpr":
            casts[f] = "trunc32 x" if ctype(rets[0]) == "int" else "x"
        elif v.get("kind") == "ImplicitCastExpr" and v.get("castKind") == "IntegralCast" and ctype(v) == "int":
            casts[f] = "trunc32 x"
        else:
            raise TieBroken("c10:%s.return" % f, "returned expression is not (a cast of) the time_left call")
    need("efuns.return", len(set(casts.values())) == 1, "the four efun helpers convert time_left differently: %s" % casts)
    out.append("/-- remove/find_call_out[_by_handle]: `return (int) time_left (...)` -/\ndef efunResult (x : Int) : Int :=\n  %s\n"
               % list(casts.values())[0])

    # ---- list surgery: the delta arithmetic of unlinking and of the ordered insert ---------------------------------
    def chain(n):
        """access path of an lvalue: cop->next->delta = ('cop','next','delta'); (*copp)->delta = ('*copp','delta')"""
        n = strip(n)
        k = n.get("kind")
        if k == "MemberExpr":
            return chain(n["inner"][0]) + (n.get("name"),)
        if k == "DeclRefExpr":
            return (n["referencedDecl"]["name"],)
        if k == "UnaryOperator" and n.get("opcode") == "*":
            c = chain(n["inner"][0])
            return ("*" + c[0],) + c[1:]
        if k == "ImplicitCastExpr":
            return chain(n["inner"][0])
        return ("?",)

    def compound(fnode):
        return [n for n in walk(fnode) if n.get("kind") == "CompoundAssignOperator"]

    def callee_names(fnode):
        out_ = []
        for x in walk(fnode):
            if x.get("kind") == "CallExpr":
                for y in walk(x["inner"][0]):
                    nm = ref_name(y)
                    if nm and nm not in out_:
                        out_.append(nm)
        return out_

    def bodies(f):
        """the function itself and the helpers of this file it calls directly (a harmless `extract helper`
        refactoring keeps the tie: the statement is looked for there too)"""
        res = [(f, ast_function(bdir, SRC, f))]
        for nm in callee_names(body_of(res[0][1])):
            if nm in ("free_call", "free_called_call", "time_left") or not re.search(r"^%s\s*\(" % re.escape(nm), text, re.M):
                continue
            try:
                res.append((nm, ast_function(bdir, SRC, nm)))
            except TieBroken:
                pass
        return res

    unl = {}
    unl_home = {}
    for f in ("remove_call_out", "remove_call_out_by_handle", "remove_all_call_out"):
        cs = []
        for nm, fnode in bodies(f):
            for n in compound(body_of(fnode)):
                if chain(n["inner"][0])[-1] == "delta":
                    cs.append((nm, fnode, n))
        need(f + ".unlink", len(cs) == 1, "exactly one update of a `delta` field expected (`cop->next->delta += cop->delta`, "
             "in the function or in a helper it calls), found %d" % len(cs))
        home, hnode, c = cs[0]
        need(f + ".unlink", chain(c["inner"][0]) == ("cop", "next", "delta") and chain(c["inner"][1]) == ("cop", "delta")
             and c.get("opcode") in ("+=", "-="), "not of the form `cop->next->delta += cop->delta`: %s" % src_of(c, text))
        unl[f] = (c.get("opcode")[0], c)
        unl_home[f] = hnode
    need("unlink", len(set(v[0] for v in unl.values())) == 1, "the three copies of the successor update differ")
    uop, un = list(unl.values())[0]
    out.append("/-- remove_call_out[_by_handle], remove_all_call_out: `%s` (the removed entry's delta is folded into its "
               "successor) -/\ndef unlinkDelta (nextDelta delta : Int) : Int :=\n  (nextDelta %s delta)\n" % (src_of(un, text), uop))

    fn = ast_function(bdir, SRC, "new_call_out")
    fors = [n for n in walk(body_of(fn)) if n.get("kind") == "ForStmt"
            and any(x.get("kind") == "MemberExpr" and x.get("name") == "delta" for x in walk(n))]
    need("new_call_out.insert", len(fors) == 1, "the insertion loop not found")
    fbody = kids(fors[0])[-1]
    need("new_call_out.insert", fbody.get("kind") == "CompoundStmt" and len(kids(fbody)) == 2
         and kids(fbody)[0].get("kind") == "IfStmt", "loop body is not `if (...) {...} delay -= (*copp)->delta;`")
    ifn, walkn = kids(fbody)
    splits = [n for n in compound(kids(ifn)[1]) if chain(n["inner"][0]) == ("*copp", "delta")]
    need("new_call_out.split", len(splits) == 1 and splits[0].get("opcode") in ("-=", "+=")
         and chain(splits[0]["inner"][1]) == ("delay",), "`(*copp)->delta -= delay` not found in the insert branch")
    out.append("/-- new_call_out: `%s` (the entry behind the new one keeps the difference) -/\n"
               "def insertSplit (delta delay : Int) : Int :=\n  (delta %s delay)\n" % (src_of(splits[0], text), splits[0]["opcode"][0]))
    need("new_call_out.walk", walkn.get("kind") == "CompoundAssignOperator" and walkn.get("opcode") in ("-=", "+=")
         and chain(walkn["inner"][0]) == ("delay",) and chain(walkn["inner"][1]) == ("*copp", "delta"),
         "`delay -= (*copp)->delta` not found after the insert test")
    out.append("/-- new_call_out: `%s` (walking past an entry) -/\ndef insertWalk (delay delta : Int) : Int :=\n  (delay %s delta)\n"
               % (src_of(walkn, text), walkn["opcode"][0]))

    # the head decrement of call_out(): the value stored by `--call_list[tm]->delta`
    fn = ast_function(bdir, SRC, "call_out")
    decs = [n for n in walk(body_of(fn)) if n.get("kind") == "UnaryOperator" and n.get("opcode") in ("--", "++")
            and chain(n["inner"][0])[-1] == "delta"]
    need("call_out.dec", len(decs) == 1 and not decs[0].get("isPostfix"), "exactly one `--call_list[tm]->delta` expected")
    out.append("/-- call_out: the value `%s` stores in the head -/\ndef headDec (delta : Int) : Int :=\n  (delta %s 1)\n"
               % (src_of(decs[0], text), "-" if decs[0]["opcode"] == "--" else "+"))

    # ---- boolean tests on the owner: dropped in call_out(), skipped / counted in get_all_call_outs ------------------
    def macro_tok(n):
        b = n.get("range", {}).get("begin", {})
        loc = b.get("expansionLoc")
        if not loc or "offset" not in loc:
            return None
        return text[loc["offset"]:loc["offset"] + loc.get("tokLen", 0)]

    def bexp(site, n):
        """condition over the atoms `X->ob` (obNonNull) and `X->ob->flags & O_DESTRUCTED` (obDead) -> Lean Bool"""
        n = strip(n)
        k = n.get("kind")
        if k == "ImplicitCastExpr":
            return bexp(site, n["inner"][0])
        if k == "BinaryOperator" and n.get("opcode") in ("&&", "||"):
            return "(%s %s %s)" % (bexp(site, n["inner"][0]), n["opcode"], bexp(site, n["inner"][1]))
        if k == "UnaryOperator" and n.get("opcode") == "!":
            return "(!%s)" % bexp(site, n["inner"][0])
        if k == "BinaryOperator" and n.get("opcode") == "&":
            c = chain(n["inner"][0])
            if len(c) >= 3 and c[-2:] == ("ob", "flags") and macro_tok(strip(n["inner"][1])) == "O_DESTRUCTED":
                return "obDead"
        if k == "BinaryOperator" and n.get("opcode") == "&":
            c = chain(n["inner"][0])
            if len(c) >= 3 and c[-2:] == ("owner", "flags") and "function" in c and macro_tok(strip(n["inner"][1])) == "O_DESTRUCTED":
                return "fpDead"
        if k == "BinaryOperator" and n.get("opcode") == "==":
            c, r = chain(n["inner"][0]), chain(n["inner"][1])
            if len(c) == 2 and c[-1] == "ob" and r in (("obj",), ("ob",)):
                return "obIsObj"
            if c[-1] == "owner" and "function" in c and r in (("obj",), ("ob",)):
                return "fpIsObj"
            l = strip(n["inner"][0])
            if l.get("kind") == "CallExpr" and any(ref_name(y) == "strcmp" for y in walk(l["inner"][0])) \
                    and strip(n["inner"][1]).get("kind") == "IntegerLiteral" and strip(n["inner"][1]).get("value") == "0":
                return "nameEq"
        if k == "MemberExpr" and chain(n)[-1] == "ob" and len(chain(n)) == 2:
            return "obNonNull"
        raise TieBroken("c10:" + site, "%s: condition leaves the grammar: %s" % (site, src_of(n, text)))

    _frees_cache = {}

    def helper_frees(nm):
        if nm not in _frees_cache:
            _frees_cache[nm] = False
            if nm == "free_call":
                _frees_cache[nm] = True
            elif re.search(r"^%s\s*\(" % re.escape(nm), text, re.M):
                try:
                    hb = body_of(ast_function(bdir, SRC, nm))
                    _frees_cache[nm] = any(ref_name(y) == "free_call" for x in walk(hb) if x.get("kind") == "CallExpr"
                                           for y in walk(x["inner"][0]))
                except TieBroken:
                    pass
        return _frees_cache[nm]

    def frees(x):
        """x contains a call of free_call, directly or through a helper of this file"""
        return any(helper_frees(ref_name(z)) for y in walk(x) if y.get("kind") == "CallExpr" for z in walk(y["inner"][0])
                   if ref_name(z))

    fn = ast_function(bdir, SRC, "call_out")
    drops = [n for n in walk(body_of(fn)) if n.get("kind") == "IfStmt" and len(kids(n)) == 3 and frees(kids(n)[1])]
    need("call_out.drop", len(drops) == 1, "the `if (cop->ob && (cop->ob->flags & O_DESTRUCTED))` drop test not found")
    out.append("/-- call_out: the entry is dropped without a call when `%s` -/\ndef dropCond (obNonNull obDead : Bool) : Bool :=\n  %s\n"
               % (src_of(kids(drops[0])[0], text), bexp("call_out.drop", kids(drops[0])[0])))
    fn = ast_function(bdir, SRC, "get_all_call_outs")
    skips = [n for n in walk(body_of(fn)) if n.get("kind") == "IfStmt" and len(kids(n)) == 2
             and kids(n)[1].get("kind") == "ContinueStmt"]
    need("get_all_call_outs.skip", len(skips) == 1, "the `if (...) continue;` of the row loop not found")
    out.append("/-- get_all_call_outs: no row when `%s` -/\ndef infoSkip (obNonNull obDead : Bool) : Bool :=\n  %s\n"
               % (src_of(kids(skips[0])[0], text), bexp("get_all_call_outs.skip", kids(skips[0])[0])))
    counts = [n for n in walk(body_of(fn)) if n.get("kind") == "IfStmt" and len(kids(n)) == 2
              and kids(n)[1].get("kind") == "UnaryOperator" and kids(n)[1].get("opcode") == "++" and ref_name(kids(n)[1]["inner"][0]) == "i"]
    need("get_all_call_outs.count", len(counts) == 1, "the `if (...) i++;` of the counting loop not found")
    out.append("/-- get_all_call_outs: the counting loop counts an entry when `%s` (must be the complement of the skip test) -/\n"
               "def infoCount (obNonNull obDead : Bool) : Bool :=\n  %s\n"
               % (src_of(kids(counts[0])[0], text), bexp("get_all_call_outs.count", kids(counts[0])[0])))

    # ---- ownership tests: remove_all_call_out, remove_call_out / find_call_out by name ---------------------------
    fn = ast_function(bdir, SRC, "remove_all_call_out")
    ifs = [n for n in walk(body_of(fn)) if n.get("kind") == "IfStmt" and len(kids(n)) == 3 and frees(kids(n)[1])]
    need("remove_all_call_out.owner", len(ifs) == 1, "the ownership test `if (... ob == obj || destructed ...) unlink else advance` not found")
    need("remove_all_call_out.owner", not frees(kids(ifs[0])[2]), "the else branch frees an entry")
    out.append("/-- remove_all_call_out: an entry is removed when `%s` -/\n"
               "def removeAllCond (obNonNull obIsObj obDead fpIsObj fpDead : Bool) : Bool :=\n  %s\n"
               % (src_of(kids(ifs[0])[0], text)[:280], bexp("remove_all_call_out.owner", kids(ifs[0])[0])))
    bn = {}
    for f in ("remove_call_out", "find_call_out"):
        fn = ast_function(bdir, SRC, f)
        cands = [n for n in walk(body_of(fn)) if n.get("kind") == "IfStmt"
                 and any(x.get("kind") == "CallExpr" and any(ref_name(y) == "strcmp" for y in walk(x["inner"][0])) for x in walk(kids(n)[0]))]
        need(f + ".match", len(cands) == 1, "the `ob == ob && strcmp (...) == 0` test not found")
        bn[f] = (bexp(f + ".match", kids(cands[0])[0]), kids(cands[0])[0])
    need("by_name.match", len(set(v[0] for v in bn.values())) == 1, "remove_call_out and find_call_out match entries differently: %s"
         % sorted(v[0] for v in bn.values()))
    out.append("/-- remove_call_out / find_call_out (by name): an entry matches when `%s` -/\n"
               "def byNameCond (obIsObj nameEq : Bool) : Bool :=\n  %s\n" % (src_of(bn["find_call_out"][1], text), bn["find_call_out"][0]))

    # ---- statement orders of the list surgery --------------------------------------------------------------------
    def is_free_call(x):
        return any(y.get("kind") == "CallExpr" and any(ref_name(z) == "free_call" for z in walk(y["inner"][0])) for y in walk(x))

    def is_unlink(x):       # `*copp = cop->next`
        return x.get("kind") == "BinaryOperator" and x.get("opcode") == "=" and chain(x["inner"][0]) == ("*copp",) \
            and chain(x["inner"][1]) == ("cop", "next")
    for f in ("remove_call_out", "remove_call_out_by_handle", "remove_all_call_out"):
        fn = unl_home[f]
        blocks = [b for b in walk(body_of(fn)) if b.get("kind") == "CompoundStmt" and any(is_unlink(x) for x in kids(b))]
        need(f + ".order", len(blocks) == 1, "the block with `*copp = cop->next` not found")
        ks = kids(blocks[0])
        iu = [i for i, x in enumerate(ks) if is_unlink(x)][0]
        ifold = [i for i, x in enumerate(ks) if x.get("kind") == "IfStmt" and any(c is unl[f][1] for c in walk(x))]
        ifree = [i for i, x in enumerate(ks) if is_free_call(x)]
        need(f + ".order", len(ifold) == 1 and len(ifree) == 1 and ifold[0] < iu < ifree[0],
             "the modelled order `if (cop->next) cop->next->delta += cop->delta; *copp = cop->next; free_call (cop);` changed")
        cn = strip(kids(ks[ifold[0]])[0])
        need(f + ".order", chain(cn) == ("cop", "next"), "the successor update is no longer guarded by `if (cop->next)`")
    # call_out(): the entry is taken out of the chain before anything is called
    fn = ast_function(bdir, SRC, "call_out")
    dos = [n for n in walk(body_of(fn)) if n.get("kind") == "DoStmt"
           and any(x.get("kind") == "MemberExpr" and x.get("name") == "delta" for x in walk(kids(n)[1]))]
    need("call_out.pop", len(dos) == 1 and kids(dos[0])[0].get("kind") == "CompoundStmt", "do/while body not found")
    dk = kids(kids(dos[0])[0])

    def is_pop(x):          # `call_list[tm] = call_list[tm]->next`
        return x.get("kind") == "BinaryOperator" and x.get("opcode") == "=" and chain(x["inner"][1])[-1:] == ("next",) \
            and strip(x["inner"][0]).get("kind") == "ArraySubscriptExpr"

    def is_take(x):         # `cop = call_list[tm]`
        return is_assign_to(x, "cop") and strip(x["inner"][1]).get("kind") == "ArraySubscriptExpr"
    it = [i for i, x in enumerate(dk) if is_take(x)]
    ip = [i for i, x in enumerate(dk) if is_pop(x)]
    ic = [i for i, x in enumerate(dk) if x.get("kind") == "IfStmt"]
    need("call_out.pop", len(it) == 1 and len(ip) == 1 and len(ic) == 1 and it[0] < ip[0] < ic[0] and len(dk) == 3,
         "the do/while body is no longer `cop = call_list[tm]; call_list[tm] = call_list[tm]->next; if (destructed) drop else call`")

    # ---- loops over the wheel: every slot, from 0, one at a time -------------------------------------------------
    for f, var in (("remove_call_out", "i"), ("find_call_out", "i"), ("remove_all_call_out", "i"), ("print_call_out_usage", "j"),
                   ("get_all_call_outs", "j")):
        fn = ast_function(bdir, SRC, f)
        loops = [n for n in walk(body_of(fn)) if n.get("kind") == "ForStmt" and len(kids(n)) >= 3
                 and any(ref_name(x) == var for x in walk(kids(n)[-3])) and kids(n)[-3].get("kind") == "BinaryOperator"
                 and kids(n)[-3].get("opcode") in ("<", "<=", "!=", ">", ">=")]
        need(f + ".slots", len(loops) >= 1, "the loop over the wheel slots not found")
        for lp in loops:
            cond, inc = kids(lp)[-3], kids(lp)[-2]
            e, pp = tr(f + ".slots", (var,), fn)
            # from 0 in steps of one, `<` and `!=` visit the same slots
            need(f + ".slots", pp(cond) in ("%s < (calloutCycleSize : Int)" % var, "%s ≠ (calloutCycleSize : Int)" % var),
                 "a loop over the slots no longer runs while `%s < CALLOUT_CYCLE_SIZE`: %s" % (var, src_of(cond, text)))
            need(f + ".slots", inc.get("kind") == "UnaryOperator" and inc.get("opcode") == "++" and ref_name(inc["inner"][0]) == var,
                 "a loop over the slots no longer advances by `%s++`" % var)
            init = [x for x in walk(lp["inner"][0]) if isinstance(x, dict) and is_assign_to(x, var)] if isinstance(lp["inner"][0], dict) else []
            need(f + ".slots", len(init) == 1 and strip(init[0]["inner"][1]).get("kind") == "IntegerLiteral"
                 and strip(init[0]["inner"][1]).get("value") == "0", "a loop over the slots no longer starts at 0")

    # ---- free list refill: only when empty, one chunk ---------------------------------------------------------------
    fn = ast_function(bdir, SRC, "new_call_out")
    refills = [n for n in walk(body_of(fn)) if n.get("kind") == "IfStmt"
               and any(c.get("kind") == "CompoundAssignOperator" and ref_name(c["inner"][0]) == "num_call" for c in walk(n))]
    need("new_call_out.refill", len(refills) == 1, "the refill `if (!call_list_free) { ...; num_call += CHUNK_SIZE; }` not found")
    rc = strip(kids(refills[0])[0])
    need("new_call_out.refill", rc.get("kind") == "UnaryOperator" and rc.get("opcode") == "!" and ref_name(rc["inner"][0]) == "call_list_free",
         "the free list is no longer refilled exactly when it is empty: `%s`" % src_of(rc, text))
    adds = [c for c in walk(refills[0]) if c.get("kind") == "CompoundAssignOperator" and ref_name(c["inner"][0]) == "num_call"]
    need("new_call_out.refill", len(adds) == 1 and adds[0].get("opcode") == "+=" and macro_tok(strip(adds[0]["inner"][1])) == "CHUNK_SIZE",
         "num_call no longer grows by CHUNK_SIZE per refill")

    # ---- allocation chunk -----------------------------------------------------------------------------------
    m = re.search(r"^#define\s+CHUNK_SIZE\s+(\d+)\s*$", text, re.M)
    need("CHUNK_SIZE", m is not None, "#define CHUNK_SIZE not found")
    out.append("/-- `#define CHUNK_SIZE` (pending_call_t structures are allocated in chunks) -/\ndef chunkSize : Nat := %s\n" % m.group(1))
    return "\n".join(out)
