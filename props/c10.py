"""C10 - call_out fires exactly once, on time, and can be cancelled."""
import os
import re

from nvlib import engine as E
from nvlib.check import Prop

BIG = 4294967296
DELAYS = [(1099511627779, 1), (2147483647, 1), (2147483648, 1), (BIG - 1, 1), (BIG + 5, 1), (3 * BIG + 37, 1),
          (-5, 1), (0, 2), (1, 8), (2, 6), (3, 4), (5, 3), (7, 2), (30, 2), (31, 4), (32, 8), (33, 4), (34, 1),
          (63, 2), (64, 5), (65, 2), (96, 2), (100, 1), (1000, 1)]
ADV = [(0, 2), (1, 10), (2, 5), (3, 3), (5, 2), (31, 2), (32, 3), (33, 2), (64, 2), (70, 1), (200, 1)]


class C10(Prop):
    id = "C10"
    title = "call_out fires exactly once, on time, and can be cancelled"
    lean_modules = ["NV.C10.Props", "NV.C10.PropsNeg"]
    theorems = ["NV.C10.N_pow2",
                "NV.C10.tie_clampDelay",
                "NV.C10.tie_initCot",
                "NV.C10.tie_slotExpr",
                "NV.C10.tie_rotExpr",
                "NV.C10.tie_handleExpr",
                "NV.C10.tie_curSlot",
                "NV.C10.tie_timeLeft",
                "NV.C10.tie_infoTimeLeft",
                "NV.C10.tie_sweepOrder",
                "NV.C10.tie_sweepSlot",
                "NV.C10.tie_sweepCond",
                "NV.C10.tie_insertBefore",
                "NV.C10.tie_headDue",
                "NV.C10.tie_nextDue",
                "NV.C10.tie_handleSlot",
                "NV.C10.tie_efunResult",
                "NV.C10.tie_unlinkDelta",
                "NV.C10.tie_insertSplit",
                "NV.C10.tie_insertWalk",
                "NV.C10.tie_headDec",
                "NV.C10.tie_headDue_dec",
                "NV.C10.tie_chunkPos",
                "NV.C10.tie_byNameCond",
                "NV.C10.tie_removeAllCond",
                "NV.C10.removeAll_eq_spec",
                "NV.C10.tie_dropCond",
                "NV.C10.tie_infoSkip",
                "NV.C10.tie_infoCount",
                "NV.C10.fireOne_eq_spec",
                "NV.C10.reloadObj_ok",
                "NV.C10.sim_reload",
                "NV.C10.first_is_earliest",
                "NV.C10.efun_pend",
                "NV.C10.newCallOut_fst",
                "NV.C10.newCallOut_snd",
                "NV.C10.sweepSecond_eq",
                "NV.C10.slotOf_eq_mod",
                "NV.C10.dueOf_spec",
                "NV.C10.dueOf_lt_iff",
                "NV.C10.dueOf_inj",
                "NV.C10.dueOf_gt_iff",
                "NV.C10.dueOf_succ_other",
                "NV.C10.dueOf_succ_cur",
                "NV.C10.newCallOut_rot_due",
                "NV.C10.newCallOut_rot_pos",
                "NV.C10.coRot_due",
                "NV.C10.inWheel_newCallOut",
                "NV.C10.timeLeft_eq",
                "NV.C10.cum_insertDelta",
                "NV.C10.cum_removeFirst",
                "NV.C10.cum_removeAllList",
                "NV.C10.cum_dec_head",
                "NV.C10.findFirst_eq",
                "NV.C10.newCallOut_ok",
                "NV.C10.removeByHandle_ok",
                "NV.C10.removeByName_ok",
                "NV.C10.removeAll_ok",
                "NV.C10.stepOp_ok",
                "NV.C10.runOps_ok",
                "NV.C10.fireOne_ok",
                "NV.C10.visit_ok",
                "NV.C10.decHead_inv",
                "NV.C10.sweepSecond_ok",
                "NV.C10.sweepLoop_ok",
                "NV.C10.sweep_ok",
                "NV.C10.sweepCore_ok",
                "NV.C10.applyOp_rest",
                "NV.C10.applyOp_sim",
                "NV.C10.sweepCore_sim",
                "NV.C10.stepCmd_rest",
                "NV.C10.runCmds_rest",
                "NV.C10.wheel_unique",
                "NV.C10.toPend_inj",
                "NV.C10.first_has_largest_handle",
                "NV.C10.info_perm",
                "NV.C10.sim_co",
                "NV.C10.sim_rmh",
                "NV.C10.sim_fh",
                "NV.C10.sim_rmn",
                "NV.C10.sim_fnm",
                "NV.C10.sim_rmall",
                "NV.C10.sim_dest",
                "NV.C10.sim_info",
                "NV.C10.stepOp_sim",
                "NV.C10.runOps_sim",
                "NV.C10.fireOne_sim",
                "NV.C10.visit_sim",
                "NV.C10.sweepSecond_sim",
                "NV.C10.sweepLoop_sim",
                "NV.C10.sweep_sim",
                "NV.C10.tickend_sim",
                "NV.C10.stepCmd_sim",
                "NV.C10.runCmds_sim",
                "NV.C10.fire_emit_sim",
                "NV.C10.wheelSize_setSlot",
                "NV.C10.wheelSize_le_pend",
                "NV.C10.lo_le_wheelSize",
                "NV.C10.newCallOut_size",
                "NV.C10.stepOp_u",
                "NV.C10.runOps_u",
                "NV.C10.fireOne_u",
                "NV.C10.visit_u",
                "NV.C10.sweepSecond_u",
                "NV.C10.sweepLoop_u",
                "NV.C10.sweep_u",
                "NV.C10.stepCmd_u",
                "NV.C10.runCmds_u",
                "NV.C10.usage_exact",
                "NV.C10.model_satisfies_spec",
                "NV.C10.wheelInv_always",
                "NV.C10.sweep_catches_up",
                "NV.C10.time_left_exact",
                "NV.C10.handle_unique",
                "NV.C10.deltas_ok",
                "NV.C10.handles_fit_int",
                "NV.C10.handleC_exact",
                "NV.C10.handleC_collision_witness",
                "NV.C10.cutAtOverflow_id",
                "NV.C10.model_satisfies_spec_int",
                "NV.C10.stepOp_hb",
                "NV.C10.runOps_hb",
                "NV.C10.fireOne_hb",
                "NV.C10.visit_hb",
                "NV.C10.sweep_hb",
                "NV.C10.stepCmd_hb",
                "NV.C10.runCmds_hb",
                "NV.C10.handlesFit_of_bound",
                "NV.C10.model_satisfies_spec_int_bound",
                "NV.C10.time_left_fits_int"]
    witness_theorems = ["NV.C10.ovf_witness", "NV.C10.C10_int_Full_false", "NV.C10.handleC_overflow_witness",
                        "NV.C10.C10_handles_Full_false"]
    consts = [("calloutCycleSize", "CALLOUT_CYCLE_SIZE")]
    const_headers = ["lib/efuns/options.h"]
    quick_n = 300
    thorough_n = 6000
    search_n = 1500
    design_ref = "5/C10"
    technique = ("Lean 4 proof (wheel invariant, simulation relation with the oracle, bookkeeping invariant; induction over "
                 "histories) + expressions regenerated from the clang AST with bridging lemmas + model/implementation correspondence")
    level_text = ("Lean 4 theorems about an executable model of lib/efuns/call_out.c (wheel arithmetic, delta-encoded "
                  "ordered insert, sweep, remove/find/time_left) for all delays, tick spacings and callback scripts; the "
                  "model is tied to the source by ~35 expressions regenerated from the clang AST on every run (slot, rotation, "
                  "handle, time_left, sweep order, insert comparison and delta updates, unlink update and its statement order, "
                  "head decrement, owner tests of call_out()/get_all_call_outs/remove_all_call_out/by-name match, (int) casts, "
                  "CHUNK_SIZE) each with a bridging lemma, and by running the real call_out code and the model on the "
                  "same generated histories; the Lean specification oracle (firing, answers, call_out_info, this_player, "
                  "print_call_out_usage bookkeeping) judges every implementation trace")
    level_note = ("trusted: Lean kernel; extract.py / props/c10_extract.py (clang AST -> NV/Gen/C10.lean); the correspondence "
                  "harness (differential, only the generated histories); callbacks are oracle scripts.  Top theorem "
                  "NV.C10.model_satisfies_spec, no hypotheses: the oracle (all clauses, incl. the print_call_out_usage / "
                  "num_call / free-list clause) accepts every history of the model, for all scripts and commands.  C int width: "
                  "time left modelled ((int) cast regenerated); handles: the history with int handles (eventsC, what the model "
                  "driver prints) is accepted for every history that uses fewer than 2^31/N handle serials "
                  "(NV.C10.model_satisfies_spec_int_bound; NV.C10.handlesFit_of_bound), "
                  "the unconditional statement is refuted by a Lean-checked witness (NV.C10.C10_int_Full_false) that is replayed "
                  "on the real driver through the verif hook verif_call_out_set_unique (open known finding C10-handle-overflow).  Observed only (checked by the LPC callback, no model): call_outs with 4 arguments incl. an object "
                  "that is destructed meanwhile; f_call_out refusing a destructed current_object")
    rule = ("cases = corpus + known-finding inputs + boundary list + seeded random histories of "
            "call_out (string and function pointer, with and without this_player)/remove/find (by name and handle)/"
            "remove-all/reload_object/call_out_info/mud_status usage/destruct/error at top level and inside call_out "
            "callbacks, delays < 1, on both sides of the wheel size, = wheel size, >= 2^31 and >= 2^32, tick spacings "
            "0..200 incl. backlog; the branch histogram of the run is in coverage.histogram; a case is "
            "non-trivial when its trace has >= 2 lines; distinct = distinct canonical implementation trace")
    not_covered = ["the O_LISTENER branch of call_out() (the flag is never set in this driver: dead code)",
                   "int overflow of the handle after 2^26 call_outs: OPEN known finding C10-handle-overflow (not repaired; the "
                   "int-faithful statement is proved exactly up to the bound, NV.C10.model_satisfies_spec_int_bound)",
                   "call_out during shutdown, call_out by the master object (no separate path in call_out.c)",
                   "argument vectors: one string argument in the model; 4-argument call_outs (string, object, number) are "
                   "checked by the LPC callback only (observed, no theorem); refcounts of arguments are not observable",
                   "f_call_out by a destructed current_object: probed by the harness (destco), the model has the branch but the "
                   "probe is outside the model",
                   "the static `cop` cleanup at the entry of call_out() (unreachable: every error is caught inside the loop), "
                   "current_interactive = 0, eval_cost across the callbacks of one sweep, shutdown's remove_all_call_out",
                   "hand-copied: allocCall's free-list test (`!call_list_free` as wheelSize + busy = numCall), the scan order of "
                   "the by-name loops (correspondence only)",
                   "see notes/C10-coverage.md for the full map"]

    def gen_extra(self, ctx, bdir):
        from props import c10_extract
        return c10_extract.extract(bdir)

    def func_at(self, lineno):
        """name of the function of lib/efuns/call_out.c that contains the given line ("?" if none)"""
        try:
            src = open(os.path.join(E.REPO, "lib/efuns/call_out.c"), encoding="latin-1").read().split("\n")
        except OSError:
            return "?"
        for i in range(min(lineno, len(src)) - 1, -1, -1):
            m = re.match(r"(?:[A-Za-z_][\w \t\*]*?[ \t\*])?([A-Za-z_]\w*)[ \t]*\([^;]*$", src[i])
            if m and not src[i][0].isspace() and m.group(1) not in ("if", "while", "for", "switch", "return", "sizeof"):
                return m.group(1)
        return "?"

    def canon(self, lines):
        out = []
        for l in lines:
            l = l.rstrip()
            if l.strip() == "":
                continue
            # call_function_pointer's message names the clone ("/c10/obj#3"): reduced to a stable text
            if l.startswith("err *Owner (") and "of function pointer is destructed" in l:
                l = "err *fp-owner-destructed"
            # UBSan report of int arithmetic in call_out.c: path, line and column replaced by the enclosing function
            m = re.match(r"sanitizer .*call_out\.c:(\d+):\d+: runtime error: (signed integer overflow: .*)$", l)
            if m:
                l = "sanitizer call_out.c(%s): %s" % (self.func_at(int(m.group(1))), m.group(2))
            # the order in which UBSan names the two factors is the compiler's choice: smaller one first
            m = re.match(r"(sanitizer call_out\.c\(\w+\): signed integer overflow: )(\d+) \* (\d+)( cannot .*)$", l)
            if m and int(m.group(2)) > int(m.group(3)):
                l = m.group(1) + m.group(3) + " * " + m.group(2) + m.group(4)
            out.append(l)
        return out

    def prepare(self, ctx):
        self.exe = E.compile_harness("c10", [os.path.join(E.VERIF, "harness/c10/c10.c")])
        self.conf = E.make_mudlib(ctx.rundir)

    def run_impl(self, ctx, cases):
        return E.run_harness(self.exe, self.conf, cases, ctx.rundir)

    # ---- generators ------------------------------------------------------
    def wheel(self):
        """the regenerated CALLOUT_CYCLE_SIZE (cases that aim at the end of the int range are stated relative to it)"""
        try:
            m = re.search(r"def calloutCycleSize : \w+ := (\d+)", open(os.path.join(E.LEAN, "NV/Gen/C10.lean")).read())
            return int(m.group(1))
        except Exception:
            return 32

    CHURN = ["rmh", "rmh2", "rmn", "rmall", "reload", "fire", "errfire", "fpfire", "deaddrop", "deadfp", "rmall-dead"]

    def churn(self, kind, n):
        """the same way of ending a call_out `n` times with at most three ever in use: a structure that is not given
        back to the free list on that path shows up as a second chunk in the final usage line (oracle: usage-allocated)"""
        L = []
        nobj = 2
        for i in range(n):
            t = "c%d" % i
            if kind == "rmh":
                L += ["vapply o1 do_op co,0,50,%s" % t, "vapply o1 do_op rmh,%s" % t]
            elif kind == "rmh2":
                L += ["vapply o1 do_op co,0,50,%s" % t, "vapply o1 do_op cofp,1,82,%sb" % t, "vapply o1 do_op rmh,%s" % t,
                      "vapply o1 do_op rmh,%sb" % t]
            elif kind == "rmn":
                L += ["vapply o1 do_op co,1,50,%s" % t, "vapply o1 do_op coa,2,18,A%s" % t, "vapply o1 do_op rmn,1", "vapply o1 do_op rmn,2"]
            elif kind == "rmall":
                L += ["vapply o1 do_op co,0,50,%s" % t, "vapply o1 do_op cofp,1,50,%sb" % t, "vapply o1 do_op rmall"]
            elif kind == "reload":
                L += ["vapply o1 do_op coa,0,50,A%s" % t, "vapply o1 do_op cofpb,1,7,%sb" % t, "vapply o1 do_op reload"]
            elif kind == "fire":
                L += ["gop o2 o1 coa,0,1,A%s" % t, "adv 1", "sweep"]
            elif kind == "errfire":
                L += ["vapply o1 set_script co:%s err" % t, "vapply o1 do_op co,0,1,%s" % t, "adv 1", "sweep"]
            elif kind == "fpfire":
                L += ["vapply o1 do_op cofpb,0,1,%s" % t, "adv 1", "sweep"]
            elif kind in ("deaddrop", "deadfp", "rmall-dead"):
                nobj += 1
                op = {"deaddrop": "coa,0,1,A%s", "deadfp": "cofp,0,1,%s", "rmall-dead": "co,0,9,%s"}[kind] % t
                L += ["gop o2 o%d %s" % (nobj, op), "vapply o1 do_op dest,o%d" % nobj]
                L += ["vapply o1 do_op rmall"] if kind == "rmall-dead" else ["adv 1", "sweep"]
            if i % 8 == 7:
                L.append("vapply o1 do_op usage")
        L += ["vapply o1 do_op usage", "vapply o1 do_op info"]
        return nobj, L

    def chunk(self):
        """the regenerated CHUNK_SIZE"""
        try:
            m = re.search(r"def chunkSize : \w+ := (\d+)", open(os.path.join(E.LEAN, "NV/Gen/C10.lean")).read())
            return int(m.group(1))
        except Exception:
            return 20

    def boundary(self):
        B = []
        last = 2 ** 31 // self.wheel() - 1          # the largest serial whose handle is still an int

        def mk(name, lines, nobj=2):
            head = ["clone o%d /c10/obj" % i for i in range(1, nobj + 1)]
            B.append(E.Case("b-" + name, head + lines, {"origin": "boundary"}))
        # the repaired defect: schedule from inside a callback into the slot being swept
        mk("inswept32", ["vapply o1 set_script co:t1 co,1,32,t2;fh,t2", "vapply o1 do_op co,0,1,t1", "adv 1", "sweep",
                          "vapply o1 do_op fh,t2", "adv 32", "sweep", "adv 32", "sweep"])
        mk("inswept64-backlog", ["vapply o1 set_script co:t1 co,1,61,t2;fh,t2;info", "vapply o1 do_op co,0,1,t1",
                                  "adv 4", "sweep", "adv 60", "sweep", "adv 1", "sweep", "adv 64", "sweep"])
        mk("find-in-swept-slot", ["vapply o1 do_op co,0,1,a", "vapply o1 do_op co,1,33,b",
                                   "vapply o1 set_script co:a fh,b;fn,1;info", "adv 1", "sweep", "adv 32", "sweep"])
        mk("same-second-lifo", ["vapply o1 do_op co,0,5,a", "vapply o1 do_op co,1,5,b", "vapply o2 do_op co,0,5,c",
                                 "vapply o1 do_op info", "adv 5", "sweep"])
        mk("remove-middle", ["vapply o1 do_op co,0,3,a", "vapply o1 do_op co,1,35,b", "vapply o1 do_op co,2,67,c",
                              "vapply o1 do_op rmh,b", "vapply o1 do_op fh,c", "vapply o1 do_op fh,b", "adv 3", "sweep",
                              "adv 64", "sweep"])
        mk("error-isolates", ["vapply o1 set_script co:a err", "vapply o1 do_op co,0,2,a", "vapply o1 do_op co,1,2,b",
                               "vapply o2 do_op co,0,2,c", "adv 2", "sweep"])
        mk("destructed-dropped", ["vapply o1 do_op co,0,2,a", "vapply o2 do_op co,0,2,b", "vapply o2 do_op dest,o1",
                                   "vapply o2 do_op info", "adv 2", "sweep", "vapply o1 do_op co,0,1,z"])
        mk("self-destruct-in-callback", ["vapply o1 set_script co:a dest,o1;co,0,1,zz", "vapply o1 do_op co,0,1,a",
                                          "vapply o1 do_op co,1,1,b", "adv 1", "sweep", "adv 1", "sweep"])
        mk("remove-due-sibling-in-callback", ["vapply o1 set_script co:b rmh,a;rmn,2", "vapply o1 do_op co,0,2,a",
                                               "vapply o1 do_op co,2,2,c", "vapply o1 do_op co,1,2,b", "adv 2", "sweep"])
        mk("rmall", ["vapply o1 do_op co,0,2,a", "vapply o1 do_op co,1,40,b", "vapply o2 do_op co,0,2,c",
                     "vapply o1 do_op rmall", "vapply o1 do_op info", "adv 2", "sweep"])
        mk("delay-min1", ["vapply o1 do_op co,0,0,a", "vapply o1 do_op co,1,-7,b", "vapply o1 do_op fh,a", "sweep",
                          "adv 1", "sweep"])
        mk("long-stall", ["vapply o1 do_op co,0,1,a", "vapply o1 do_op co,1,100,b", "vapply o1 do_op co,2,250,c",
                          "adv 300", "sweep"])
        # function-pointer call_outs (cop->ob == 0)
        mk("fp-basic", ["vapply o1 do_op cofp,0,3,a", "vapply o1 do_op co,1,3,b", "vapply o1 do_op info",
                        "vapply o1 do_op fn,0", "vapply o1 do_op rmn,0", "vapply o1 do_op fh,a", "adv 3", "sweep"])
        mk("fp-owner-destructed", ["vapply o1 do_op cofp,0,2,a", "vapply o1 do_op co,1,2,b", "vapply o2 do_op co,0,2,c",
                                    "vapply o2 do_op dest,o1", "vapply o2 do_op info", "adv 2", "sweep", "adv 1", "sweep"])
        mk("fp-rmall", ["vapply o1 do_op cofp,0,2,a", "vapply o1 do_op cofp,1,40,b", "vapply o2 do_op cofp,0,2,c",
                        "vapply o1 do_op rmall", "vapply o2 do_op info", "adv 2", "sweep"])
        mk("fp-rmall-drops-dead", ["vapply o1 do_op cofp,0,5,a", "vapply o2 do_op dest,o1", "vapply o2 do_op rmall",
                                    "vapply o2 do_op cofp,1,5,b", "vapply o2 do_op info", "adv 5", "sweep"])
        mk("fp-in-callback", ["vapply o1 set_script co:a cofp,1,32,b;fh,b;rmh,b;cofp,2,1,c", "vapply o1 do_op cofp,0,1,a",
                              "adv 1", "sweep", "adv 1", "sweep", "adv 40", "sweep"])
        # THIS_PLAYER_IN_CALL_OUT: command_giver saved by new_call_out, restored for the callback
        mk("giver-basic", ["gop o2 o1 co,0,2,a", "vapply o1 do_op co,1,2,b", "gop o1 o1 cofp,2,3,c", "adv 3", "sweep"])
        mk("giver-destructed", ["gop o2 o1 co,0,2,a", "vapply o1 do_op dest,o2", "gop o2 o1 co,1,2,b", "adv 2", "sweep"])
        mk("giver-inherited-in-callback", ["vapply o1 set_script co:a co,1,1,b;dest,o2;co,2,1,c", "gop o2 o1 co,0,1,a",
                                           "adv 1", "sweep", "adv 1", "sweep"], nobj=3)
        mk("giver-restored-after-sweep", ["gop o2 o1 co,0,1,a", "adv 1", "sweep", "vapply o1 do_op co,1,1,b",
                                          "gop o3 o1 co,2,1,c", "adv 1", "sweep"], nobj=3)
        # reload_object: call_outs dropped, handles forgotten, scripts survive (they live in /c10/reg)
        mk("reload", ["vapply o1 set_script co:c co,0,1,d", "vapply o1 do_op co,0,2,a", "vapply o1 do_op cofp,1,40,b",
                      "vapply o2 do_op co,0,2,x", "vapply o1 do_op usage", "vapply o1 do_op reload", "vapply o1 do_op usage",
                      "vapply o1 do_op fh,a", "vapply o1 do_op info", "vapply o1 do_op co,2,1,c", "adv 2", "sweep", "adv 1", "sweep"])
        mk("reload-in-callback", ["vapply o1 set_script co:a reload;fh,b;co,3,1,z", "vapply o1 do_op co,1,1,b",
                                  "vapply o1 do_op co,0,1,a", "vapply o1 do_op co,2,5,c", "adv 1", "sweep", "adv 5", "sweep"])
        # print_call_out_usage: chunks of CHUNK_SIZE structures, one more chunk when the 21st is needed, also from a callback
        mk("usage-chunks", ["vapply o1 do_op usage"] + ["vapply o1 do_op co,0,%d,t%d" % (i % 7 + 1, i) for i in range(20)] +
           ["vapply o1 do_op usage", "vapply o1 set_script co:t0 usage;co,1,3,n1;usage;co,1,3,n2;usage", "adv 1", "sweep",
            "vapply o1 do_op usage", "adv 9", "sweep", "vapply o1 do_op usage"])
        mk("usage-second-chunk", ["vapply o1 do_op co,%d,%d,u%d" % (i % 4, 40 + i, i) for i in range(25)] +
           ["vapply o1 do_op usage", "vapply o1 do_op rmall", "vapply o1 do_op usage", "vapply o1 do_op co,0,1,z",
            "vapply o1 do_op usage"])
        # 20 structures, all pending; in the first callback 19 are pending and one is being executed (not yet freed):
        # the next new_call_out must allocate a second chunk
        mk("usage-busy-structure", ["vapply o1 set_script co:v19 usage;co,1,5,w1;usage;co,1,5,w2;usage"] +
           ["vapply o1 do_op co,0,1,v%d" % i for i in range(20)] + ["vapply o1 do_op usage", "adv 1", "sweep",
                                                                    "vapply o1 do_op usage"])
        # a structure must come back to the free list also when the callback raises an error / the owner is destructed
        mk("usage-after-errors", ["vapply o1 set_script co:e%d err" % i for i in range(12)] +
           ["vapply o1 do_op co,0,1,e%d" % i for i in range(12)] + ["vapply o2 do_op co,1,1,x%d" % i for i in range(6)] +
           ["vapply o1 do_op dest,o2", "vapply o1 do_op usage", "adv 1", "sweep", "vapply o1 do_op usage"] +
           ["vapply o1 do_op cofp,2,9,y%d" % i for i in range(20)] + ["vapply o1 do_op usage"])
        # remove_all_call_out also sweeps the call_outs of destructed objects (visible in the current length only)
        mk("rmall-sweeps-destructed", ["vapply o2 do_op co,0,9,a", "vapply o2 do_op cofp,1,9,b", "vapply o1 do_op co,0,9,c",
                                       "vapply o1 do_op dest,o2", "vapply o1 do_op usage", "vapply o3 do_op rmall",
                                       "vapply o1 do_op usage", "vapply o1 do_op info"], nobj=3)
        # (int) conversion of the time left: delays of 2^31 seconds and more
        mk("int-conversion", ["vapply o1 do_op co,0,2147483647,a", "vapply o1 do_op co,1,2147483648,b",
                              "vapply o1 do_op co,2,4294967301,c", "vapply o1 do_op fh,a", "vapply o1 do_op fh,b",
                              "vapply o1 do_op fh,c", "vapply o1 do_op fn,2", "vapply o1 do_op info", "vapply o1 do_op rmn,1",
                              "vapply o1 do_op rmh,c", "adv 5", "sweep"])
        mk("int-conversion-same-answer", ["vapply o1 do_op co,1,7,a", "vapply o1 do_op co,1,4294967303,b", "vapply o1 do_op fn,1",
                                          "vapply o1 do_op rmn,1", "vapply o1 do_op fh,a", "vapply o1 do_op fh,b",
                                          "vapply o1 do_op rmn,1", "vapply o1 do_op info"])
        # more than one argument: string, object (zeroed when destructed before the call), number
        mk("args", ["vapply o1 do_op coa,0,2,Aa", "vapply o1 do_op coafp,1,2,Ab", "vapply o2 do_op coa,2,3,Ac",
                    "vapply o1 do_op co,3,2,d", "vapply o1 set_script co:Aa coa,0,1,Ae;dest,o2", "adv 2", "sweep",
                    "adv 1", "sweep", "vapply o1 do_op coafp,1,40,Af", "vapply o1 do_op rmh,Af", "vapply o1 do_op coa,1,1,Ag",
                    "vapply o1 do_op reload", "adv 1", "sweep"], nobj=3)
        mk("call_out-by-destructed", ["vapply o1 do_op co,0,2,a", "vapply o1 do_op destco,o1", "vapply o2 set_script co:b destco,o2",
                                      "vapply o2 do_op co,1,1,b", "adv 1", "sweep", "adv 1", "sweep"])
        # handles right below the end of the int range (the call_out after these is the open known finding)
        mk("handle-last-int", ["setuniq %d" % (last - 2), "vapply o1 do_op co,0,5,a", "vapply o1 do_op cofp,1,37,b", "vapply o1 do_op fh,a",
                               "vapply o1 do_op fh,b", "vapply o1 do_op rmh,a", "vapply o1 do_op info", "setuniq 5", "adv 37", "sweep"])
        mk("fp-bound-arg", ["vapply o1 do_op cofpb,2,3,a", "vapply o1 do_op co,2,3,b", "vapply o1 do_op fn,2", "vapply o1 do_op info",
                            "vapply o1 do_op rmn,2", "vapply o1 do_op fh,a", "vapply o2 do_op cofpb,1,3,c", "vapply o1 do_op dest,o2",
                            "vapply o1 do_op cofpb,0,40,d", "vapply o1 do_op reload", "adv 3", "sweep"])
        mk("huge-delay", ["vapply o1 do_op co,0,1099511627779,a", "vapply o1 do_op cofp,1,1099511627811,b", "vapply o1 do_op fh,a",
                          "vapply o1 do_op fn,0", "vapply o1 do_op info", "adv 3", "sweep", "vapply o1 do_op fh,b",
                          "vapply o1 do_op rmh,b", "vapply o1 do_op rmn,0"])
        mk("reschedule-chain", ["vapply o1 set_script co:a co,0,1,b", "vapply o1 set_script co:b co,0,32,c",
                                "vapply o1 set_script co:c co,0,31,d", "vapply o1 do_op co,0,1,a", "adv 1", "sweep",
                                "adv 1", "sweep", "adv 32", "sweep", "adv 31", "sweep"])
        # every way a call_out can end, repeated more often than a chunk has structures (leak detection per path)
        for kind in self.CHURN:
            nobj, lines = self.churn(kind, self.chunk() + 6)
            mk("churn-" + kind, lines, nobj=nobj)
        return B

    def gen_ops(self, rng, st, self_obj, depth, n):
        """ops performed by `self_obj`; st tracks tags; returns list of op strings and registers scripts"""
        ops = []
        for _ in range(n):
            k = rng.weighted([("co", 8), ("cofp", 4), ("reload", 1), ("usage", 2), ("rmh", 3), ("rmn", 2), ("fh", 3), ("fn", 2), ("rmall", 1),
                              ("dest", 1), ("err", 1), ("info", 2)])
            if k in ("co", "cofp"):
                st["tag"] += 1
                tag = "t%d" % st["tag"]
                if rng.chance(1, 3):
                    # four arguments instead of one (checked by the LPC callback itself)
                    k = "coa" if k == "co" else "coafp"
                    tag = "A%d" % st["tag"]
                elif k == "cofp" and rng.chance(1, 3):
                    k = "cofpb"                               # function pointer with a bound argument
                st["tags"].setdefault(self_obj, []).append(tag)
                d = rng.weighted(DELAYS)
                f = rng.below(4)
                st["fns"].setdefault(self_obj, []).append(f)
                ops.append("%s,%d,%d,%s" % (k, f, d, tag))
                if depth < 3 and rng.chance(2, 5):
                    sub = self.gen_ops(rng, st, self_obj, depth + 1, rng.range(1, 3))
                    st["scripts"].append("vapply o%d set_script co:%s %s" % (self_obj, tag, ";".join(sub)))
            elif k in ("rmh", "fh"):
                tags = st["tags"].get(self_obj, [])
                tag = rng.choice(tags) if tags and rng.chance(9, 10) else "nosuch"
                ops.append("%s,%s" % (k, tag))
            elif k in ("rmn", "fn"):
                fns = st["fns"].get(self_obj, [])
                ops.append("%s,%d" % (k, rng.choice(fns) if fns and rng.chance(3, 4) else rng.below(4)))
            elif k == "dest":
                if rng.chance(1, 3):
                    ops.append("destco,o%d" % self_obj)       # self-destruct + a call_out that must be refused
                else:
                    ops.append("dest,o%d" % rng.range(1, st["nobj"]))
            else:
                ops.append(k)
        return ops

    def gen_case(self, rng, cid):
        nobj = rng.range(1, 4)
        st = {"tag": 0, "tags": {}, "fns": {}, "scripts": [], "nobj": nobj}
        body = []
        for _ in range(rng.range(4, 30)):
            k = rng.weighted([("op", 10), ("adv", 5), ("sweep", 5), ("tick", 4)])
            if k == "op":
                o = rng.range(1, nobj)
                for op in self.gen_ops(rng, st, o, 0, 1):
                    # scripts registered by gen_ops must precede the op that schedules the tag
                    body += st["scripts"]
                    st["scripts"] = []
                    if rng.chance(1, 4):
                        body.append("gop o%d o%d %s" % (rng.range(1, nobj), o, op))
                    else:
                        body.append("vapply o%d do_op %s" % (o, op))
            elif k == "adv":
                body.append("adv %d" % rng.weighted(ADV))
            elif k == "sweep":
                body.append("sweep")
            else:
                body.append("adv %d" % rng.weighted(ADV))
                body.append("sweep")
        body += ["adv 40", "sweep"]
        head = ["clone o%d /c10/obj" % i for i in range(1, nobj + 1)]
        if rng.chance(1, 4):
            # large handle serials (verif hook); the last one leaves room for a few hundred call_outs below 2^31 / 32
            top = 2 ** 31 // self.wheel() - 1
            head.append("setuniq %d" % rng.choice([1000, top // 64, top // 2, top - 800]))
        return E.Case(cid, head + body, {"origin": "generated"})

    def generate(self, rng, n, tier):
        cases = []
        for i in range(n):
            if rng.chance(1, 15):
                nobj, lines = self.churn(rng.choice(self.CHURN), self.chunk() + rng.range(2, 25))
                head = ["clone o%d /c10/obj" % k for k in range(1, nobj + 1)]
                cases.append(E.Case("g%d" % i, head + lines, {"origin": "generated-churn"}))
            else:
                cases.append(self.gen_case(rng, "g%d" % i))
        return cases

    def histogram(self, cases, impl):
        """branch histogram of a run (generator audit): which mechanisms of call_out.c the cases reached"""
        keys = ["co", "cofp", "co_by_destructed", "co_with_player", "co_with_4_args", "destco_refusal_probes", "delay_lt1", "delay_lt_wheel", "delay_eq_wheel",
                "delay_gt_wheel", "delay_ge_2^31", "setuniq", "fp_bound_arg", "fires", "fires_with_player", "fp_owner_destructed",
                "rmh_hit", "rmh_miss", "rmn_hit", "rmn_miss", "fh_hit", "fh_miss", "fn_hit", "fn_miss",
                "answer_negative_overdue", "answer_int_converted", "rmall", "reload", "usage", "usage_second_chunk",
                "info", "info_rows", "info_fp_rows", "dest", "errors", "ticks", "ticks_spacing0", "ticks_backlog",
                "ticks_firing_2plus", "in_callback_co", "in_callback_co_into_swept_slot", "in_callback_remove_hit",
                "in_callback_reload_or_rmall", "in_callback_dest", "op_on_destructed", "gop"]
        h = dict((k, 0) for k in keys)
        for c in cases:
            h["gop"] += sum(1 for l in c.lines if l.startswith("gop "))
            h["setuniq"] += sum(1 for l in c.lines if l.startswith("setuniq "))
            h["fp_bound_arg"] += sum(l.count("cofpb,") for l in c.lines)
            h["destco_refusal_probes"] += sum(l.count("destco,") for l in c.lines)
            last_tick = None
            in_cb = False
            fires_this_tick = 0
            tick_t = 0
            for l in impl.get(c.id, []):
                t = l.split()
                if not t:
                    continue
                if l.startswith("err *fp-owner"):
                    h["fp_owner_destructed"] += 1
                    continue
                if t[0] == "err":
                    h["errors"] += 1
                    continue
                if len(t) > 2 and t[0] == "r" and t[-1] == "!destructed":
                    h["op_on_destructed"] += 1
                    continue
                if len(t) < 2:
                    continue
                if t[1] == "tickbegin":
                    h["ticks"] += 1
                    now = int(t[0])
                    if last_tick is not None:
                        if now == last_tick:
                            h["ticks_spacing0"] += 1
                        elif now - last_tick > 1:
                            h["ticks_backlog"] += 1
                    last_tick = now
                    tick_t = now
                    fires_this_tick = 0
                    in_cb = False
                elif t[1] == "tickend":
                    if fires_this_tick >= 2:
                        h["ticks_firing_2plus"] += 1
                    in_cb = False
                elif t[1] == "fire":
                    h["fires"] += 1
                    fires_this_tick += 1
                    in_cb = True
                    if t[-1] != "-":
                        h["fires_with_player"] += 1
                elif t[1] == "r" and len(t) > 2:
                    k = t[2]
                    if k in ("co", "cofp"):
                        h[k] += 1
                        d = int(t[5])
                        hd = int(t[7])
                        if hd == 0:
                            h["co_by_destructed"] += 1
                        if t[8] != "-":
                            h["co_with_player"] += 1
                        if t[6].startswith("A"):
                            h["co_with_4_args"] += 1
                        if d < 1:
                            h["delay_lt1"] += 1
                        elif d < 32:
                            h["delay_lt_wheel"] += 1
                        elif d == 32:
                            h["delay_eq_wheel"] += 1
                        elif d < 2 ** 31:
                            h["delay_gt_wheel"] += 1
                        else:
                            h["delay_ge_2^31"] += 1
                        if in_cb:
                            h["in_callback_co"] += 1
                            if hd and max(d, 1) % 32 == 0:
                                h["in_callback_co_into_swept_slot"] += 1
                    elif k in ("rmh", "rmn", "fh", "fn"):
                        r = int(t[-1])
                        hit = r != -1
                        h["%s_%s" % (k, "hit" if hit else "miss")] += 1
                        if r < -1 and r > -2 ** 30:
                            h["answer_negative_overdue"] += 1
                        if abs(r) >= 2 ** 30:
                            h["answer_int_converted"] += 1
                        if in_cb and hit and k in ("rmh", "rmn"):
                            h["in_callback_remove_hit"] += 1
                    elif k in ("rmall", "reload"):
                        h[k] += 1
                        if in_cb:
                            h["in_callback_reload_or_rmall"] += 1
                    elif k == "usage":
                        h["usage"] += 1
                        if int(t[3]) > 20:
                            h["usage_second_chunk"] += 1
                    elif k == "info":
                        h["info"] += 1
                        h["info_rows"] += len(t) - 3
                        h["info_fp_rows"] += sum(1 for x in t[3:] if "<function>" in x)
                    elif k == "dest":
                        h["dest"] += 1
                        if in_cb:
                            h["in_callback_dest"] += 1
        return h


PROP = C10()
