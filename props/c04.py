"""C04 - every evaluation is bounded by the configured limits."""
import os

from nvlib import engine as E
from nvlib.check import Prop

# config_int indices (regenerated into NV/Gen/C04.lean; the python side reads them from ctx.gen_vals)
CONSTS = [
    ("esStackFull", "ES_STACK_FULL"),
    ("esMaxEvalCost", "ES_MAX_EVAL_COST"),
    ("cfgEvalCost", "__MAX_EVAL_COST__ - BASE_CONFIG_INT"),
    ("cfgCallDepth", "__MAX_CALL_DEPTH__ - BASE_CONFIG_INT"),
    ("cfgStackSize", "__EVALUATOR_STACK_SIZE__ - BASE_CONFIG_INT"),
    ("cfgMaxArray", "__MAX_ARRAY_SIZE__ - BASE_CONFIG_INT"),
    ("cfgMaxBuffer", "__MAX_BUFFER_SIZE__ - BASE_CONFIG_INT"),
    ("cfgMaxMapping", "__MAX_MAPPING_SIZE__ - BASE_CONFIG_INT"),
    ("cfgMaxString", "__MAX_STRING_LENGTH__ - BASE_CONFIG_INT"),
    ("arraySizeBits", "8 * sizeof (((array_t *) 0)->size)"),
    ("bufferSizeBits", "8 * sizeof (((buffer_t *) 0)->size)"),
    ("bufferCastBits", "8 * sizeof (unsigned short)"),
    ("mappingCountBits", "8 * sizeof (((mapping_t *) 0)->count)"),
    ("mstrSizeBits", "8 * sizeof (((malloc_block_t *) 0)->size)"),
    ("ushrtMax", "USHRT_MAX"),
    ("evalCostBits", "8 * sizeof (eval_cost)"),
    ("frameCatch", "FRAME_CATCH"),
    ("frameMask", "FRAME_MASK"),
    ("intBits", "8 * sizeof (int)"),                        # set_eval_limit: `(int) sp->u.number` (site setLimitCast)
    ("aggregateCountBits", "8 * sizeof (unsigned short)"),  # F_AGGREGATE: `unsigned short offset` (site aggregateAlloc)
    ("maxSaveDepth", "MAX_SAVE_SVALUE_DEPTH"),
    ("composeDeletedBits", "8 * sizeof (unsigned int)"),   # the type of `deleted` in compose_mapping: site composeDeletedWidth
]

# ---------------------------------------------------------------------------
# inventory tie: every efun of lib/efuns/func_spec.c whose return type can carry a sized value (string, array,
# mapping, buffer, mixed) is either decided by a constructor of NV/C04/Sizes.lean or excluded here with a reason.
# An efun that is in neither table breaks the tie (the check fails until it is classified).

EFUN_COVERED = {
    "explode": "explodeArray", "implode": "implodeString", "replace_string": "replaceRun/replaceFinish (pattern of 2+ characters: skip-table scan; one character pattern: replace1)",
    "allocate": "allocateArray", "allocate_buffer": "allocateBuffer", "allocate_mapping": "allocateMapping",
    "keys": "mapKeys", "values": "mapKeys", "repeat_string": "repeatString", "sprintf": "sprintfAdd/sprintfFinish (incl. %*s field widths: sprintf_pad)",
    "copy": "sameSize", "sort_array": "sameSize", "map": "sameSize", "map_array": "sameSize", "map_mapping": "sameSize",
    "lower_case": "sameSize", "upper_case": "sameSize", "capitalize": "sameSize",
    "filter": "partOf", "filter_array": "partOf", "filter_mapping": "partOf", "unique_array": "partOf",
    "unique_mapping": "uniqueMapping (one key per distinct callback result; `numkeys > MAX` test before the mapping is built - fix 115d78e; the mapping is filled without find_for_insert)",
    "save_variable": "saveVariable (Save.lean: svalue_save_size over the value tree, then the MaxStringLength test)",
    "restore_variable": "restoreArray / restoreMapping (allocate_array (size) and the ++count test of restore_mapping; strings are pieces of the text)",
    "regexp": "matchRegexp (allocate_empty_array (num_match << flag))",
    "reg_assoc": "regAssoc (allocate_empty_array (2 * num_match + 1), twice)",
}
_LIST = "listing of driver state: one element per object / frame / entry, clamped to MAX_ARRAY_SIZE or allocated through allocate_empty_array (errors above the limit)"
_SMALL = "result of a fixed small size (a name, a date, a status word), or bounded by a buffer of the C code"
_EXIST = "returns a value that exists already (no construction)"
EFUN_EXCLUDED = {
    **{e: _LIST for e in ("all_previous_objects", "call_stack", "all_inventory", "deep_inventory", "commands", "livings", "users",
                          "get_dir", "call_out_info", "objects", "deep_inherit_list", "shallow_inherit_list", "inherit_list",
                          "children", "function_profile", "named_livings", "functions", "variables", "heart_beats",
                          "heart_beat_info", "localtime", "stat")},
    **{e: _SMALL for e in ("file_name", "query_verb", "typeof", "crypt", "oldcrypt", "ctime", "function_exists", "query_host_name",
                           "query_ip_name", "query_ip_number", "in_edit", "rusage", "cache_stats", "malloc_status", "mud_status",
                           "dump_file_descriptors", "query_load_average", "origin", "program_info", "memory_summary",
                           "socket_error", "socket_address", "dump_socket_status", "geteuid", "getuid")},
    **{e: _EXIST for e in ("evaluate", "previous_object", "match_path", "get_config", "query_notify_fail", "fetch_variable",
                           "debug_info", "member_array")},
    "clear_bit": "bit strings: bounded by MaxBitFieldBits (own limit, not a C04 limit)",
    "set_bit": "bit strings: bounded by MaxBitFieldBits (own limit, not a C04 limit)",
    "read_buffer": "file / buffer input: bounded by MaxByteTransfer (own limit); file access is C15/C16",
    "read_bytes": "file input: bounded by MaxByteTransfer (own limit); file access is C15/C16",
    "read_file": "file input: bounded by MaxReadFileSize (own limit); file access is C15/C16",
    "strwrap": "not implemented by the driver (returns its argument)",
}
SIZED_RETURN = ("string", "mixed", "mapping", "buffer")


def efun_inventory(repo):
    """efuns of func_spec.c that return a sized value: [(name, return type text)]"""
    import re
    text = open(os.path.join(repo, "lib/efuns/func_spec.c"), errors="replace").read()
    text = re.sub(r"/\*.*?\*/", " ", text, flags=re.S)
    text = "\n".join(l for l in text.splitlines() if not l.lstrip().startswith("#") and not l.lstrip().startswith("//"))
    out = []
    for stmt in text.split(";"):
        m = re.match(r"\s*(?:unsigned\s+)?(\w+)\s*(\*?)\s*(\w+)(?:\s+\w+)?\s*\(", stmt.replace("\n", " "))
        if not m:
            continue
        typ, star, name = m.group(1), m.group(2), m.group(3)
        if star or typ in SIZED_RETURN:
            out.append((name, typ + star))
    return out


# ---------------------------------------------------------------------------
# translator, part 2 (gen_extra): the guard lines of the C code that the model mirrors.  Each site is located in the
# current source by a regular expression that fixes the operator, the operands and the order of the statements; the
# number of matches must be the expected one, captured constants go to NV/Gen/C04.lean (the model uses them, the
# bridging lemmas of NV/C04/Props.lean are obligations).  A site that no longer matches breaks the tie.
W = r"\s*"
SITES = [
    # name, file, regex, expected matches, name of the captured constant (or None)
    ("stackSlackSrc", "src/stack.c", r"end_of_stack = start_of_stack \+ size - (\d+);", 1, "stackSlackSrc"),
    ("stackCheck", "src/interpret.h", r"if \(sp \+ n >= end_of_stack\)" + W + r"\\?" + W + r"\{ set_error_state\(ES_STACK_FULL\); error", 1, None),
    ("checkAndPush", "src/stack.c", r"if \(\(sp \+= n\) >= end_of_stack\)" + W + r"\\?" + W + r"\{ sp -= n; set_error_state\(ES_STACK_FULL\); error", 1, None),
    ("depthTestFrame", "src/frame.c", r"if \(csp == &control_stack\[CONFIG_INT \(__MAX_CALL_DEPTH__\) - (\d+)\]\)" + W + r"\{" + W + r"error_state \|= ES_STACK_FULL;" + W + r"error", 1, "depthTestOffset"),
    ("depthTestFake", "lib/lpc/functional.c", r"if \(csp == &control_stack\[CONFIG_INT \(__MAX_CALL_DEPTH__\) - (\d+)\]\)" + W + r"\{" + W + r"set_error_state\(ES_STACK_FULL\);" + W + r"error", 1, "depthTestOffsetFake"),
    ("depthTestContext", "src/error_context.c", r"if \(csp == &control_stack\[CONFIG_INT \(__MAX_CALL_DEPTH__\) - (\d+)\]\)" + W + r"\{[^}]*return 0;", 1, "depthTestOffsetContext"),
    ("cspIncrements", "src/frame.c", r"csp\+\+;", 1, None),
    ("evalTick", "src/interpret.c", r"if \(!--eval_cost\)" + W + r"\{.{0,400}?set_error_state \(ES_MAX_EVAL_COST\);" + W + r"eval_cost = CONFIG_INT \(__MAX_EVAL_COST__\);" + W + r"error \(\"\*Too long evaluation", 2, None),
    ("popContextClears", "src/error_context.c", r"current_error_context = econ->save_context;" + W + r"clear_error_state \(\);", 1, None),
    ("catchKeepsCostBit", "src/frame.c", r"if \(get_error_state \(ES_MAX_EVAL_COST\)\)" + W + r"\{" + W + r"pop_context \(&econ\);" + W + r"(?:/\*.*?\*/)?" + W + r"set_error_state \(ES_MAX_EVAL_COST\);" + W + r"error", 1, None),
    ("catchKeepsFullBit", "src/frame.c", r"if \(get_error_state \(ES_STACK_FULL\)\)" + W + r"\{" + W + r"pop_context \(&econ\);" + W + r"set_error_state \(ES_STACK_FULL\);" + W + r"error", 1, None),
    ("catchPushesValue", "src/frame.c", r"restore_context \(&econ\);" + W + r"sp\+\+;" + W + r"\*sp = catch_value;", 1, None),
    ("throwNeedsCatchFrame", "src/error_context.c", r"void throw_error \(\) \{" + W + r"if \(current_error_context && \(\(current_error_context->save_csp \+ 1\)->framekind & FRAME_MASK\) == FRAME_CATCH\)", 1, None),
    ("handlerKeepsState", "src/error_context.c", r"int limit_state = get_error_state \(ES_STACK_FULL \| ES_MAX_EVAL_COST\);.{0,300}?mudlib_error_handler \(err, [01]\);.{0,120}?set_error_state \(limit_state\);", 2, None),
    ("safeApplyOneTick", "src/apply.c", r"restore_context \(&econ\);.{0,400}?if \(get_error_state \(ES_MAX_EVAL_COST\)\)" + W + r"eval_cost = (\d+);", 1, "safeTickLeft"),
    ("safeFunpOneTick", "lib/lpc/functional.c", r"restore_context \(&econ\);.{0,400}?if \(get_error_state \(ES_MAX_EVAL_COST\)\)" + W + r"eval_cost = (\d+);", 1, "safeTickLeftFunp"),
    ("clampConfig", "lib/rc/rc.cpp", r"if \(CONFIG_INT \(__MAX_EVAL_COST__\) < (\d+)\)" + W + r"CONFIG_INT \(__MAX_EVAL_COST__\) = \1;", 1, "clampMin"),
    ("clampEfun", "lib/efuns/unsorted.c", r"if \(CONFIG_INT \(__MAX_EVAL_COST__\) < (\d+)\)" + W + r"CONFIG_INT \(__MAX_EVAL_COST__\) = \1;", 1, "clampMinEfun"),
    ("backendResets", "src/backend.c", r"eval_cost = CONFIG_INT \(__MAX_EVAL_COST__\);", 5, None),
    ("callbackTick", "src/interpret.c", r"svalue_t\* call_efun_callback \(function_to_call_t \* ftc, int n\) \{.{0,700}?if \(!--eval_cost\)", 1, None),
    ("allocArrayGuard", "lib/lpc/array.c", r"if \(n > \(size_t\)CONFIG_INT \(__MAX_ARRAY_SIZE__\)\)" + W + r"error \(\"Illegal array size", 2, None),
    ("arraySizeCast", "lib/lpc/array.c", r"p->size = \(unsigned short\)n;", 2, None),
    ("addArrayGuard", "lib/lpc/array.c", r"res = p->size \+ r->size;" + W + r"if \(res < 0 \|\| res > CONFIG_INT \(__MAX_ARRAY_SIZE__\)\)" + W + r"error", 1, None),
    ("explodeClamp", "lib/lpc/array.c", r"if \(num > CONFIG_INT \(__MAX_ARRAY_SIZE__\)\)" + W + r"\{" + W + r"num = CONFIG_INT \(__MAX_ARRAY_SIZE__\);", 1, None),
    ("implodeGuard", "lib/lpc/array.c", r"if \(size \+ \(num - 1\) \* del_len > \(size_t\)CONFIG_INT \(__MAX_STRING_LENGTH__\)\)" + W + r"error", 1, None),
    ("bufferGuard", "lib/lpc/buffer.c", r"if \(size > \(size_t\)CONFIG_INT \(__MAX_BUFFER_SIZE__\)\)" + W + r"\{" + W + r"error", 1, None),
    ("bufferSizeCast", "lib/lpc/buffer.c", r"buf->size = \(unsigned short\)size;", 1, None),
    ("mapInsertGuard", "lib/lpc/mapping.c", r"if \(\+\+m->count > CONFIG_INT \(__MAX_MAPPING_SIZE__\)\)" + W + r"\{" + W + r"m->count--;" + W + r"mapping_too_large \(\);", 1, None),
    ("mapCountGuards", "lib/lpc/mapping.c", r"if \(\+\+count > CONFIG_INT \(__MAX_MAPPING_SIZE__\)\)", 4, None),
    ("mapAbsorbErrorPath", "lib/lpc/mapping.c", r"if \(count -= m1->count \+ 1\)" + W + r"\{[^}]*\}" + W + r"m1->count \+= count;" + W + r"mapping_too_large \(\);", 2, None),
    ("mapAbsorbEnd", "lib/lpc/mapping.c", r"if \(count -= m1->count\)" + W + r"\{[^}]*\}" + W + r"m1->count \+= count;" + W + r"\}", 2, None),
    ("joinGuardDef", "src/interpret.h", r"if \(\(len\) > \(size_t\)CONFIG_INT \(__MAX_STRING_LENGTH__\)\)" + W + r"\\" + W + r"error", 1, None),
    ("joinGuardUses", "src/interpret.h", r"CHECK_STRING_JOIN_LENGTH\((?:ess|pss|ssj)_len\);", 3, None),
    ("repeatGuard", "lib/efuns/string.c", r"if \(count <= 0\).{0,600}?if \(len == 0\)" + W + r"return;.{0,200}?if \(repeat > \(size_t\)CONFIG_INT \(__MAX_STRING_LENGTH__\) / len\)" + W + r"error", 1, None),
    ("replaceSkipGuard", "lib/efuns/string.c", r"if \(\(size_t\)CONFIG_INT \(__MAX_STRING_LENGTH__\) - dlen <= skip\).{0,400}?dlen \+= skip;", 1, None),
    ("sprintfFinalGuard", "lib/efuns/sprintf.c", r"if \(obuff.real_size > \(size_t\)CONFIG_INT \(__MAX_STRING_LENGTH__\)\)" + W + r"sprintf_error \(ERR_BUFF_OVERFLOW\);", 1, None),
    ("composeDeletedWidth", "lib/lpc/mapping.c", r"mapping_t\* compose_mapping \(mapping_t \* m1, mapping_t \* m2, unsigned short flag\) \{.{0,200}?unsigned int deleted = 0;.{0,1800}?deleted\+\+;.{0,900}?m1->count -= deleted;", 1, None),
    ("saveVariableGuard", "lib/lpc/object.c", r"theSize = svalue_save_size \(var\);" + W + r"if \(theSize - 1 > \(size_t\)CONFIG_INT \(__MAX_STRING_LENGTH__\)\)" + W + r"error \(.{0,100}?\);" + W + r"new_str = new_string \(theSize - 1,", 1, None),
    ("saveDepthGuard", "lib/lpc/object.c", r"if \(\+\+save_svalue_depth > MAX_SAVE_SVALUE_DEPTH\)" + W + r"\{" + W + r"too_deep_save_error \(\);", 3, None),
    ("saveDepthLeave", "lib/lpc/object.c", r"save_svalue_depth--;" + W + r"return size \+ (\d+);", 3, "saveBoxOverhead"),
    ("copyDepthGuard", "lib/efuns/unsorted.c", r"depth\+\+;" + W + r"if \(depth > MAX_SAVE_SVALUE_DEPTH\)" + W + r"\{" + W + r"depth = 0;" + W + r"error", 2, None),
    ("restoreDepthGuard", "lib/lpc/object.c", r"static int restore_internal_size \(char \*\*str, int is_mapping, int depth, int nesting\) \{.{0,200}?if \(nesting > MAX_SAVE_SVALUE_DEPTH\)" + W + r"return 0;", 1, None),
    ("restoreDepthDescends", "lib/lpc/object.c", r"restore_internal_size \(str, [01], save_svalue_depth\+\+, nesting \+ 1\)", 3, None),
    ("restoreDepthTop", "lib/lpc/object.c", r"restore_internal_size \(str, [01], save_svalue_depth\+\+, (\d+)\)", 3, "restoreTopNesting"),
    ("uniqueMappingGuard", "lib/lpc/mapping.c", r"if \(numkeys > CONFIG_INT \(__MAX_MAPPING_SIZE__\)\)" + W + r"mapping_too_large \(\);" + W + r"m = allocate_mapping \(nmask = numkeys << 1\);", 1, None),
    ("regexpAlloc", "lib/lpc/array.c", r"flag &= 1;" + W + r"ret = allocate_empty_array \(num_match << flag\);", 1, None),
    ("regAssocAlloc", "lib/lpc/array.c", r"allocate_empty_array \(2 \* num_match \+ 1\)", 2, None),
    ("restoreArrayAlloc", "lib/lpc/object.c", r"size = restore_size \(str, 0\)\) < 0\)" + W + r"return ROB_ARRAY_ERROR;" + W + r"v = allocate_array \(size\);", 1, None),
    ("restoreMappingGuard", "lib/lpc/object.c", r"if \(\+\+count > CONFIG_INT \(__MAX_MAPPING_SIZE__\)\)" + W + r"\{.{0,400}?mapping_too_large \(\);", 1, None),
    ("handlerNestedKeepsState", "src/error_context.c", r"if \(current_error_context == mudlib_error_handler_context\)" + W + r"\{" + W + r"in_mudlib_error_handler = 0;" + W + r"set_error_state \(handler_limit_state\);" + W + r"\}", 2, None),
    ("handlerSavesState", "src/error_context.c", r"handler_limit_state = limit_state;" + W + r"in_mudlib_error_handler = 1;" + W + r"mudlib_error_handler_context = current_error_context;", 2, None),
    ("handlerTraceBeforeRestore", "src/error_context.c", r"mret = apply_master_ob \(APPLY_ERROR_HANDLER, 1\);" + W + r"\}" + W + r"if \(\(svalue_t \*\) - 1 == mret \|\| NULL == mret\)" + W + r"\{" + W + r"debug_message_with_location \(err\);" + W + r"dump_trace \(g_trace_flag\);", 1, None),
    ("regexpStepCharge", "lib/efuns/regexp.c", r"#define REGEXP_STEPS_PER_TICK (\d+)", 1, "regexpStepsPerTick"),
    ("regexpStepTest", "lib/efuns/regexp.c", r"while \(scan != \(char \*\) NULL\)" + W + r"\{" + W + r"if \(--regsteps < 0\)" + W + r"return \(0\);", 1, None),
    ("regexpChargeBack", "lib/efuns/regexp.c", r"regsteps = budget;" + W + r"ret = regexec_steps \(prog, string\);" + W + r"used = \(budget - \(regsteps > 0 \? regsteps : 0\)\) / REGEXP_STEPS_PER_TICK;" + W + r"if \(eval_cost > 1\)" + W + r"eval_cost = \(used >= eval_cost - 1\) \? 1 : eval_cost - used;", 1, None),
    ("catchAtDepthMarked", "src/frame.c", r"if \(!save_context \(&econ\)\)" + W + r"\{" + W + r"(?:/\*.*?\*/)?" + W + r"set_error_state \(ES_STACK_FULL\);" + W + r"error \(\"\*Can't catch too deep recursion error", 1, None),
    ("traceInTraceWithoutArgs", "src/error_context.c", r"if \(in_error\)" + W + r"\{.{0,200}?debug_message_with_location \(err\);" + W + r"(?:/\*.*?\*/)?" + W + r"dump_trace \(0\);", 1, None),
    ("setLimitCast", "lib/efuns/unsorted.c", r"default:" + W + r"CONFIG_INT \(__MAX_EVAL_COST__\) = \(int\)sp->u.number;" + W + r"if \(CONFIG_INT \(__MAX_EVAL_COST__\) < 1\)", 1, None),
    ("aggregateAlloc", "src/interpret.c", r"unsigned short offset;.{0,60000}?case F_AGGREGATE:" + W + r"\{" + W + r"array_t \*v;" + W + r"LOAD_SHORT \(offset, pc\);" + W + r"offset \+= \(unsigned short\)num_varargs;" + W + r"num_varargs = 0;" + W + r"v = allocate_empty_array \(\(int\) offset\);", 1, None),
    ("callbackTickBlock", "src/interpret.c", r"svalue_t\* call_efun_callback \(function_to_call_t \* ftc, int n\) \{" + W + r"svalue_t \*v;" + W + r"(?:/\*.*?\*/)?" + W + r"if \(!--eval_cost\)" + W + r"\{" + W + r"set_error_state \(ES_MAX_EVAL_COST\);" + W + r"eval_cost = CONFIG_INT \(__MAX_EVAL_COST__\);" + W + r"error", 1, None),
    ("pushSomeChecked", "src/stack.c", r"void push_some_svalues \(svalue_t \* v, int num\) \{" + W + r"STACK_CHECK \(num\);", 1, None),
    ("transferPushChecked", "src/stack.c", r"void transfer_push_some_svalues \(svalue_t \* v, int num\) \{" + W + r"STACK_CHECK \(num\);", 1, None),
    ("replaceOneGuards", "lib/efuns/string.c", r"/\* Beek: plen == 1 \*/.{0,400}?if \(rlen != 0\)" + W + r"\{" + W + r"if \(CONFIG_INT \(__MAX_STRING_LENGTH__\) - dlen <=" + W + r"rlen\).{0,500}?dlen \+= rlen;.{0,300}?if \(CONFIG_INT \(__MAX_STRING_LENGTH__\) - dlen <= 1\).{0,300}?\*dst2\+\+ = \*src\+\+;" + W + r"dlen\+\+;", 1, None),
    ("rangeClamp", "lib/lpc/operator.c", r"if \(from < 0\)" + W + r"from = 0;" + W + r"if \(to >= v->size\)" + W + r"to = v->size - 1;" + W + r"if \(to < -1\)" + W + r"to = -1;" + W + r"if \(from > v->size\)" + W + r"from = v->size;", 1, None),
]


def gen_sites(repo):
    """locate every site; returns (lean text, {constant: value}, report); raises TieBroken"""
    import re
    from nvlib import extract as X
    consts, report, lines = {}, [], ["", "/-! guard sites located in the source by props/c04.py (SITES): name, file, matches -/"]
    for name, rel, rx, want, cname in SITES:
        text = open(os.path.join(repo, rel), errors="replace").read()
        ms = list(re.finditer(rx, text, flags=re.S))
        if len(ms) != want:
            raise X.TieBroken("site:" + name, "guard site `%s` of %s: expected %d match(es) of /%s/, found %d - the line the model mirrors was changed" % (name, rel, want, rx, len(ms)))
        report.append((name, rel, want))
        lines.append("/-- %s: %d site(s) -/\ndef site_%s : Nat := %d" % (rel, want, name, want))
        if cname:
            vals = set(m.group(1) for m in ms)
            if len(vals) != 1:
                raise X.TieBroken("site:" + name, "guard site `%s`: the captured constants differ: %s" % (name, sorted(vals)))
            consts[cname] = int(vals.pop())
            lines.append("/-- constant of the guard `%s` in %s -/\ndef %s : Nat := %d" % (name, rel, cname, consts[cname]))
    return "\n".join(lines) + "\n", consts, report



# ---------------------------------------------------------------------------
# translator, part 3 (gen_loop): where eval_instruction charges the evaluation cost.  Regenerated into NV/Gen/C04.lean:
#   tickBeforeDispatch   the `if (!--eval_cost)` test stands between the fetch and `switch (instruction)` of the main loop
#   evalLoopGotos        number of goto statements / labels in eval_instruction (a jump behind the test would skip it)
#   backwardOps          opcodes whose case moves pc backwards (`pc -= ...`, directly or through a static helper)
#   backwardOpsLooping   those of them that do it inside a loop of their own (would iterate without a fetch)
#   localCallOps         opcodes that enter a function by `pc = current_prog->program + funp->address`
# NV/C04/Loop.lean builds the charge of a fetch from these (`fetchCharge`); `bridge_backwardOps` compares the list
# with the one the model knows.

def _strip_c(text):
    """comments, string and character literals removed (same length is not kept; braces inside them vanish)"""
    import re
    text = re.sub(r"/\*.*?\*/", " ", text, flags=re.S)
    text = re.sub(r"//[^\n]*", " ", text)
    text = re.sub(r'"(?:\\.|[^"\\\n])*"', '""', text)
    text = re.sub(r"'(?:\\.|[^'\\\n])'", "' '", text)
    return text


def _drop_hooks(text):
    """the add-only verification hooks (#ifdef NEOLITH_VERIF ... #endif) and all other preprocessor lines"""
    out, skip = [], 0
    for l in text.splitlines():
        t = l.strip()
        if t.startswith("#ifdef NEOLITH_VERIF"):
            skip = 1
            continue
        if skip:
            if t.startswith("#if"):
                skip += 1
            elif t.startswith("#endif"):
                skip -= 1
            elif t.startswith("#else") and skip == 1:
                skip = 0
            continue
        if t.startswith("#"):
            continue
        out.append(l)
    return "\n".join(out)


def _block(text, start):
    """text[start] == '{' : index just behind the matching '}'"""
    d = 0
    for i in range(start, len(text)):
        if text[i] == "{":
            d += 1
        elif text[i] == "}":
            d -= 1
            if d == 0:
                return i + 1
    return len(text)


def _functions(text):
    """{name: body} of the functions defined at column 0"""
    import re
    fns = {}
    for m in re.finditer(r"^(?:static\s+)?[A-Za-z_][\w \t\*]*?\b(\w+)\s*\([^;{}]*\)\s*\{", text, flags=re.M):
        if m.group(1) in ("if", "while", "for", "switch"):
            continue
        b = m.end() - 1
        fns[m.group(1)] = text[b:_block(text, b)]
    return fns


def _in_own_loop(body, pos):
    """is body[pos] inside a while / for / do block of `body`?"""
    import re
    stack, last = [], 0
    for i in range(pos):
        c = body[i]
        if c == "{":
            head = body[last:i]
            stack.append(bool(re.search(r"\b(while|for|do)\b[^;{}]*$", head)))
            last = i + 1
        elif c == "}":
            if stack:
                stack.pop()
            last = i + 1
        elif c == ";":
            last = i + 1
    # a loop without braces: `while (...) pc -= ...;`
    head = body[last:pos]
    return any(stack) or bool(re.search(r"\b(while|for|do)\b", head))


def gen_loop(repo):
    import re
    from nvlib import extract as X
    raw = open(os.path.join(repo, "src/interpret.c"), errors="replace").read()
    text = _drop_hooks(_strip_c(raw))
    fns = _functions(text)
    if "eval_instruction" not in fns:
        raise X.TieBroken("loop:eval_instruction", "eval_instruction () not found in src/interpret.c")
    body = fns["eval_instruction"]
    helpers = sorted(n for n, b in fns.items() if n != "eval_instruction" and re.search(r"\bpc\s*-=", b))
    m = re.search(r"\bwhile\s*\(\s*1\s*\)\s*\{", body)
    if not m:
        raise X.TieBroken("loop:main-loop", "the `while (1)` loop of eval_instruction () was not found")
    lstart = m.end() - 1
    loop = body[lstart:_block(body, lstart)]
    fetch = re.search(r"instruction\s*=\s*EXTRACT_UCHAR\s*\(\s*pc\+\+\s*\)\s*;", loop)
    tick = re.search(r"if\s*\(\s*!\s*--\s*eval_cost\s*\)", loop)
    sw = re.search(r"\bswitch\s*\(\s*instruction\s*\)\s*\{", loop)
    ok = bool(fetch and tick and sw and fetch.start() < tick.start() < sw.start())
    if ok:
        between = loop[fetch.end():tick.start()]
        # nothing but whitespace between the fetch and the test; the test is a statement of the loop body itself
        ok = between.strip() == "" and loop[:tick.start()].count("{") - loop[:tick.start()].count("}") == 1
        # and the block of the test ends in error (): control never falls out of it with eval_cost == 0
        tb = loop.find("{", tick.end())
        tblock = loop[tb:_block(loop, tb)]
        ok = ok and bool(re.search(r"\berror\s*\(", tblock)) and loop[_block(loop, tb):sw.start()].strip() == ""
    gotos = len(re.findall(r"\bgoto\b", body)) + len(re.findall(r"^\s*(?!default\b)[A-Za-z_]\w*\s*:\s*$", body, flags=re.M))
    back, looping, calls = [], [], []
    if sw:
        sb = sw.end() - 1
        sbody = loop[sb:_block(loop, sb)]
        # case labels that are statements of the switch itself (brace depth 1)
        labels, d = [], 0
        for mm in re.finditer(r"[{}]|\bcase\s+(\w+)\s*:|\bdefault\s*:", sbody):
            t = mm.group(0)
            if t == "{":
                d += 1
            elif t == "}":
                d -= 1
            elif d == 1:
                labels.append((mm.start(), mm.end(), mm.group(1) or "default"))
        for i, (a, b, name) in enumerate(labels):
            # the body of a label reaches to the next label that has statements of its own before it
            j = i
            while j + 1 < len(labels) and sbody[labels[j][1]:labels[j + 1][0]].strip() == "":
                j += 1
            end = labels[j + 1][0] if j + 1 < len(labels) else len(sbody)
            cb = sbody[labels[j][1]:end]
            hits = [x.start() for x in re.finditer(r"\bpc\s*-=", cb)]
            via = [h for h in helpers if re.search(r"\b%s\s*\(" % h, cb)]
            if hits or via:
                back.append(name)
                if any(_in_own_loop(cb, h) for h in hits) or any(
                        _in_own_loop(cb, x.start()) for h in via for x in re.finditer(r"\b%s\s*\(" % h, cb)) or any(
                        _in_own_loop(fns[h], x.start()) for h in via for x in re.finditer(r"\bpc\s*-=", fns[h])):
                    looping.append(name)
            if re.search(r"\bpc\s*=\s*current_prog->program\s*\+\s*funp->address", cb):
                calls.append(name)
    back, looping, calls = sorted(set(back)), sorted(set(looping)), sorted(set(calls))

    def lst(xs):
        return "[" + ", ".join('"%s"' % x for x in xs) + "]"
    lean = "\n".join([
        "", "/-! where eval_instruction charges the evaluation cost (props/c04.py: gen_loop, from src/interpret.c) -/",
        "/-- the `if (!--eval_cost)` test is the statement between the fetch and `switch (instruction)` of the main loop -/",
        "def tickBeforeDispatch : Bool := %s" % ("true" if ok else "false"),
        "/-- goto statements and labels in eval_instruction -/", "def evalLoopGotos : Nat := %d" % gotos,
        "/-- opcodes whose case moves pc backwards (helpers that do: %s) -/" % ", ".join(helpers),
        "def backwardOps : List String := %s" % lst(back),
        "/-- ... inside a loop of their own -/", "def backwardOpsLooping : List String := %s" % lst(looping),
        "/-- opcodes that enter a function of the same program by setting pc -/",
        "def localCallOps : List String := %s" % lst(calls),
        "/-- ticks call_efun_callback charges per callback (site callbackTick) -/", "def callbackCharge : Nat := 1", ""])
    return lean, {"tickBeforeDispatch": ok, "evalLoopGotos": gotos, "backwardOps": back, "backwardOpsLooping": looping,
                  "localCallOps": calls, "helpers": helpers}



# ---------------------------------------------------------------------------
# translator, part 4 (gen_refills): every statement of the driver that WRITES eval_cost or the configured budget
# (CONFIG_INT (__MAX_EVAL_COST__)).  Regenerated into NV/Gen/C04.lean as `evalCostWrites : List (file, function, statement)`;
# NV/C04/Refill.lean holds the table of rules (`refillRules`) that justifies each of them, `bridge_refills` compares the two:
# a new place that refills or lowers the budget breaks the obligation until it is given a rule.

REFILL_FILES_SKIP = ("lib/efuns/func_spec.c",)


def gen_refills(repo):
    import re
    rx = re.compile(r"\beval_cost\s*(?:=(?!=)|\+=|-=|\+\+|--)|(?:--|\+\+)\s*eval_cost\b|CONFIG_INT\s*\(\s*__MAX_EVAL_COST__\s*\)\s*=(?!=)")
    rows = []
    for top in ("src", "lib"):
        for d, _, files in sorted(os.walk(os.path.join(repo, top))):
            for fn in sorted(files):
                if not fn.endswith((".c", ".cpp")):
                    continue
                rel = os.path.relpath(os.path.join(d, fn), repo)
                if rel in REFILL_FILES_SKIP or "/tests/" in rel:
                    continue
                raw = open(os.path.join(repo, rel), errors="replace").read()
                if "eval_cost" not in raw and "__MAX_EVAL_COST__" not in raw:
                    continue
                text = _drop_hooks(_strip_c(raw))
                heads = [(m.start(), m.group(1)) for m in re.finditer(
                    r"^(?:[A-Za-z_][\w \t\*\"]*?[ \t\*])?(\w+)[ \t]*\([^;{}]*\)[ \t]*\{?[ \t]*$", text, flags=re.M)
                    if m.group(1) not in ("if", "while", "for", "switch", "return", "sizeof", "defined")]
                for m in rx.finditer(text):
                    depth = text.count("{", 0, m.start()) - text.count("}", 0, m.start())
                    name = "<file scope>"
                    if depth > 0:
                        before = [h for h in heads if h[0] < m.start()]
                        name = before[-1][1] if before else "<unknown>"
                    a = text.rfind("\n", 0, m.start()) + 1
                    b = text.find("\n", m.end())
                    stmt = " ".join(text[a:b if b >= 0 else len(text)].split())
                    stmt = re.sub(r"\b\d{2,}\b", "N", stmt)      # (a default value is not part of the rule; `1` and `0` are)
                    rows.append((rel, name, stmt))
    rows = sorted(rows)
    q = lambda t: '"' + t.replace("\\", "\\\\").replace('"', '\\"') + '"'
    lean = "\n".join(["", "/-! every statement that writes eval_cost or the configured budget (props/c04.py: gen_refills) -/",
                      "def evalCostWrites : List (String × String × String) := ["] +
                     [",\n".join("  (%s, %s, %s)" % (q(a), q(b), q(c)) for a, b, c in rows)] + ["]", ""])
    return lean, rows


# every limit the cases rely on is written into the config file (not left to the defaults of lib/rc/rc.cpp: the `Limits`
# defaults of NV/C04/Spec.lean and the loop forms / local counts of the generator are the same numbers)
BASE_CONF = ("MaxCallDepth 200\nStackSize 2000\nMaxEvaluationCost 1000000\nMaxArraySize 15000\nMaxBufferSize 4000000\n"
             "MaxMappingSize 15000\nMaxStringLength 200000\nMaxLocalVariables 25\n")


# ---------------------------------------------------------------------------
# shapes: python mirror of the term language of NV/C04/Drive.lean and the LPC that realises each node

class Node:
    def __init__(self, kind, n=0, kids=(), form=0):
        self.kind, self.n, self.kids, self.form = kind, n, list(kids), form

    def term(self):
        k = self.kind
        if k in ("K", "S", "X", "E", "T"):
            return k
        if k in ("W", "R", "N"):
            return "%s%d" % (k, self.n)
        if k in ("F", "B"):
            return "%s%d(%s)" % (k, self.n, self.kids[0].term())
        if k in ("C", "A"):
            return "%s(%s)" % (k, self.kids[0].term())
        if k == "Q":
            return "Q(%s,%s)" % (self.kids[0].term(), self.kids[1].term())
        raise ValueError(k)

    def cost_bound(self):
        """upper bound of the real instructions of the terminating parts (spin / recursion excluded)"""
        k = self.kind
        own = 30
        if k == "W":
            return own + 8 * self.n
        if k == "N":
            return own + 2 * (self.n + 1) * (self.n + 1)
        if k == "B":
            return own + self.n * (20 + self.kids[0].cost_bound())
        return own + sum(c.cost_bound() for c in self.kids)

    def frames_bound(self):
        """upper bound of the frames a terminating run of this node needs"""
        k = self.kind
        if k in ("S", "R", "X"):
            return 1
        base = {"C": 3, "B": 4, "A": 5, "F": 2}.get(k, 2)
        return base + max([c.frames_bound() for c in self.kids] or [0])

    def has(self, kinds):
        return self.kind in kinds or any(c.has(kinds) for c in self.kids)


HEADER = '''// GENERATED by props/c04.py for shape %s
#include "/include/vcommon.h"
void create () { seteuid (getuid ()); }
void set_oid (string s) { }
string kind (mixed e) {
  if (!stringp (e)) return "thrown";
  if (strsrch (e, "Too long evaluation") >= 0) return "cost";
  if (strsrch (e, "Can't catch eval cost") >= 0) return "cc-cost";
  if (strsrch (e, "Can't catch too deep") >= 0) return "cc-deep";
  if (strsrch (e, "Too deep recursion") >= 0) return "deep";
  if (strsrch (e, "Stack overflow") >= 0) return "stack";
  return "plain";
}
// sprintf ("%%O", this_object ()) makes the driver apply master::object_name through safe_apply_master_ob;
// the verification master calls safe_body () of the object from there
string safe_fn = "";
mixed safe_body () { return call_other (this_object (), safe_fn); }
'''


# loops that never end under the budgets the generator uses (<= 8000): one per backward-branch opcode of
# eval_instruction (which opcode a form compiles to is measured on every run: `#ops` lines, extra_checks)
SPIN_FORMS = [
    "while (1) ;", "for (;;) ;", "do { } while (1);", "int i = 0; while (i >= 0) { i = i & 1023; i++; }",
    "int i; for (i = 0; i < 5; ) ;",                                  # F_LOOP_COND_NUMBER
    "int i, n = 5; for (i = 0; i < n; ) ;",                           # F_LOOP_COND_LOCAL
    "int i = 5; while (i--) i = 5;",                                  # F_WHILE_DEC
    "mixed *a = ({ }); while (sizeof (a) < 5) ;",                      # F_BBRANCH_LT (`<` between expressions)
    "int i = 0; do { } while (!i);",                                  # F_BBRANCH_WHEN_ZERO
    "int i; for (i = 0; i < 5; i++) i = 0;",                          # F_LOOP_INCR (+ the loop condition run inline)
    "int i, j = 0; foreach (i in allocate (15000)) j++;",             # F_NEXT_FOREACH: 15000 iterations > any budget used
    "int i; for (i = 0; i < 2147483647; i++) ;",                      # F_LOOP_INCR jumping back to itself (empty body): 2^31 iterations
]
# a loop through each of these opcodes must have been stopped by the budget in some evaluation of the run
SPIN_MIN_ITERATIONS = 100


# configuration / master variants a machine case can run under (one harness process per variant; `conf <name>` line)
CONF_VARIANTS = {
    "eh-args": ("/c04/master.c", "ArgumentsInTrace Yes\n"),
    "eh-locals": ("/c04/master.c", "LocalVariablesInTrace Yes\n"),
    "noeh": ("/c04/master_noeh.c", ""),
    "noeh-args": ("/c04/master_noeh.c", "ArgumentsInTrace Yes\n"),
    "noeh-locals": ("/c04/master_noeh.c", "LocalVariablesInTrace Yes\n"),
    "noeh-both": ("/c04/master_noeh.c", "ArgumentsInTrace Yes\nLocalVariablesInTrace Yes\n"),
}
# what every function of the program is handed as its argument and keeps in a local (the frames of the trace hold it)
ARG_KINDS = {
    "obj": "this_object ()", "arr": "({ this_object (), 1 })", "map": "([ \"k\" : this_object () ])", "str": "\"s\"", "int": "7",
}


def with_arguments(src, argkind):
    """every node function takes one argument and keeps it in a local; every call passes a value of the given kind"""
    import re
    head, sep, rest = src.partition("string safe_fn")
    rest = re.sub(r"\bmixed (f\d+(?:_b)?) \(\)( \{ )?", lambda m: "mixed %s (mixed arg0)%s" % (m.group(1), " { mixed lv0 = arg0; " if m.group(2) else ""), rest)
    rest = re.sub(r"\b(f\d+(?:_b)?) \(\)", lambda m: "%s (%s)" % (m.group(1), ARG_KINDS[argkind]), rest)
    return head + sep + rest


def lpc_of(root, argkind=None):
    """one LPC function per node; returns the source text"""
    if argkind:
        return with_arguments(lpc_of(root), argkind)
    out = [HEADER % root.term()]
    cnt = [0]

    def locals_decl(n):
        return ("int " + ", ".join("l%d" % i for i in range(n)) + "; ") if n > 0 else ""

    def emit(node):
        cnt[0] += 1
        name = "f%d" % cnt[0]
        k = node.kind
        protos.append("mixed %s ();" % name)
        if k == "K":
            body.append("mixed %s () { return 0; }" % name)
        elif k == "W":
            forms = [
                "int i; for (i = 0; i < %d; i++) ; return 0;",
                "int i = %d; while (i-- > 0) ; return 0;",
                "int i = 0; if (%d > 0) do { i++; } while (i < %d); return 0;",
                "int i, j = 0; foreach (i in allocate (%d < 90 ? %d : 90)) j++; return 0;",
            ]
            f = forms[node.form % len(forms)]
            body.append("mixed %s () { %s }" % (name, f.replace("%d", str(node.n))))
        elif k == "N":
            # sort_array of k + 1 elements makes at least k comparison callbacks (map/filter stop at the first failure)
            body.append('mixed %s () { sort_array (allocate (%d), "nosuch_function", this_object ()); return 0; }' % (name, node.n + 1))
        elif k == "S":
            body.append("mixed %s () { %s return 0; }" % (name, SPIN_FORMS[node.form % len(SPIN_FORMS)]))
        elif k == "R":
            form = node.form % 5
            if form == 4:      # through an efun callback that carries 8 extra arguments (push_some_svalues: STACK_CHECK)
                # (the function declares the 13 parameters, so the pushed arguments are still on the stack when its
                # first instruction is fetched and the high-water mark of the hook sees them)
                params = ", ".join(["mixed e"] + ["mixed a%d" % i for i in range(8)])     # (MaxLocalVariables: 9 + 12 <= 25)
                protos.append("mixed %s_r (%s);" % (name, params))
                body.append("mixed %s_r (%s) { %smap_array (({ 1 }), (: %s_r :), 1, 2, 3, 4, 5, 6, 7, 8); return 0; }"
                            % (name, params, locals_decl(min(node.n, 12)), name))
                body.append("mixed %s () { %s_r (0, 1, 2, 3, 4, 5, 6, 7, 8); return 0; }" % (name, name))
            elif form == 0:      # direct
                body.append("mixed %s () { %s%s (); return 0; }" % (name, locals_decl(node.n), name))
            elif form == 1:    # mutual
                protos.append("mixed %s_b ();" % name)
                body.append("mixed %s () { %s%s_b (); return 0; }" % (name, locals_decl(node.n), name))
                body.append("mixed %s_b () { %s%s (); return 0; }" % (name, locals_decl(node.n), name))
            elif form == 2:    # through a function pointer
                body.append("mixed %s () { %sfunction g = (: %s :); evaluate (g); return 0; }" % (name, locals_decl(node.n), name))
            else:              # through an efun callback
                body.append("mixed %s () { %smap_array (({ 1 }), (: %s :)); return 0; }" % (name, locals_decl(node.n), name))
        elif k == "X":
            body.append('mixed %s () { mixed e = catch (%s ()); if (e) VL ("after-catch " + kind (e)); return 0; }' % (name, name))
        elif k == "F":
            c = emit(node.kids[0])
            body.append("mixed %s () { %s%s (); return 0; }" % (name, locals_decl(node.n), c))
        elif k == "C":
            c = emit(node.kids[0])
            body.append('mixed %s () { mixed e = catch (%s ()); if (e) VL ("after-catch " + kind (e)); return 0; }' % (name, c))
        elif k == "B":
            c = emit(node.kids[0])
            forms = ["map_array (allocate (%d), (: %s :));", "filter_array (allocate (%d), (: %s :));",
                     "sort_array (allocate (%d + 1), (: %s :));"]
            form = node.form % 2 if node.n != 1 else node.form % 3   # sort_array: k+1 elements -> >= k comparisons, exact for k = 1
            body.append("mixed %s () { %s return 0; }" % (name, forms[form] % (node.n, c)))
        elif k == "A":
            c = emit(node.kids[0])
            # the master's object_name (ob) calls ob->safe_body (): sprintf ("%O") applies it through safe_apply_master_ob
            body.append('mixed %s () { safe_fn = "%s"; sprintf ("%%O", this_object ()); return 0; }' % (name, c))
        elif k == "Q":
            a = emit(node.kids[0])
            b = emit(node.kids[1])
            body.append("mixed %s () { %s (); %s (); return 0; }" % (name, a, b))
        elif k == "E":
            body.append('mixed %s () { error ("boom\\n"); return 0; }' % name)
        elif k == "T":
            body.append('mixed %s () { throw (({ "x" })); return 0; }' % name)
        return name

    protos, body = [], []
    top = emit(root)
    out += protos + body
    out.append("mixed main () { %s (); return 0; }" % top)
    return "\n".join(out) + "\n"


def machine_case(cid, root, cost, depth, stack, hc=0, meta=None, idx=None, via="cfgint", conf=None, argkind=None):
    idx = idx or {}
    name = "/c04/g_%s" % "".join(ch if ch.isalnum() else "_" for ch in cid)
    src = lpc_of(root, argkind)
    if via == "reconf":      # through init_config () of lib/rc/rc.cpp (resets the other limits: must come first)
        first = ["reconf MaxEvaluationCost %d" % cost]
    elif via == "setlimit":  # through the efun set_eval_limit ()
        first = ["load sizes /c04/sizes", "ev sizes set_limit %d" % cost]
    else:
        first = ["cfgint %d %d" % (idx.get("cfgEvalCost", 8), cost)]
    # (objects are loaded before the budget is lowered: create () runs under the budget, too)
    lines = (["conf %s" % conf] if conf else []) + ["lpc %s.c %s" % (name, src.encode().hex()), "load p %s" % name] + first + ["depth %d" % depth, "stack %d" % stack]
    if hc:
        lines.append("mset set_handler_catches %d" % hc)
    lines += ["shape %s" % root.term(), "ev p main"]
    m = {"origin": "generated", "kind": "machine"}
    m.update(meta or {})
    return E.Case(cid, lines, m)


class C04(Prop):
    id = "C04"
    title = "Every evaluation is bounded by the configured limits"
    lean_modules = ["NV.C04.Props", "NV.C04.Top", "NV.C04.TopSizes", "NV.C04.Handler", "NV.C04.Witness", "NV.C04.SpecTests"]
    theorems = ["NV.C04.handler_keeps_limit_state", "NV.C04.handler_keeps_limit_state_each", "NV.C04.model_satisfies_spec", "NV.C04.eval_completes_below_budget", "NV.C04.exec_NE", "NV.C04.szCmd_satisfies_spec", "NV.C04.szCmdC_satisfies_spec", "NV.C04.exec_call_ok_unwound", "NV.C04.limit_error_not_swallowed", "NV.C04.limit_error_reaches_next_frame",
                "NV.C04.catch_reraises_limit_error", "NV.C04.eval_bounded", "NV.C04.eval_bounded_exact",
                "NV.C04.eval_bounded_of_pos", "NV.C04.depth_bounded", "NV.C04.stack_checked_pushes_bounded",
                "NV.C04.sizes_bounded", "NV.C04.replace_scan_in_bounds", "NV.C04.sprintf_bounded",
                "NV.C04.array_size_exact", "NV.C04.sizes_bounded_derived", "NV.C04.map_count_exact",
                "NV.C04.bridge_stackSlack", "NV.C04.bridge_depthTest", "NV.C04.bridge_clamp", "NV.C04.bridge_safeTick",
                "NV.C04.bridge_esBits", "NV.C04.bridge_widths",
                "NV.C04.sizes_bounded_round4", "NV.C04.compose_count_exact", "NV.C04.save_depth_bounded", "NV.C04.restore_depth_bounded",
                "NV.C04.loop_iterations_charged", "NV.C04.loop_ends_within_budget", "NV.C04.bridge_backwardOps", "NV.C04.bridge_saveWalk", "NV.C04.bridge_casts",
                "NV.C04.bridge_refills", "NV.C04.refill_rules_sound", "NV.C04.regex_charge_bounded"]
    witness_theorems = ["NV.C04.eval_unbounded_at_zero_budget", "NV.C04.eval_bound_attained_through_safe_apply",
                        "NV.C04.sprintf_exceeds_small_limit", "NV.C04.array_size_wraps",
                        "NV.C04.buffer_size_wraps", "NV.C04.repeat_string_old_wraps",
                        "NV.C04.compose_count_wraps_16", "NV.C04.save_variable_old_exceeds",
                        "NV.C04.handler_lost_limit_state_before_fix", "NV.C04.handler_early_restore_loses_state",
                        "NV.C04.unique_mapping_old_exceeds"]
    consts = CONSTS
    const_headers = ["src/interpret.h", "lib/rc/rc.h", "lib/lpc/include/runtime_config.h", "lpc/array.h", "lpc/buffer.h",
                     "lpc/mapping.h", "src/stralloc.h", "src/backend.h"]
    quick_n = 600
    thorough_n = 3000
    search_n = 600
    design_ref = "5/C04"
    technique = ("Lean 4 proof (limits machine, interpreter-loop charge machine, size decisions, depth-limited value walks, mapping count "
                 "bookkeeping; top theorems: the oracle applied to every model run is empty) + translator-generated constants, guard sites and "
                 "opcode lists + model/implementation correspondence")
    level_text = ("Lean 4 theorems about executable models of the C code, for all inputs: (1) the limits machine (eval_cost tick, "
                  "control-stack depth tests, checked pushes, error_state bits, do_catch re-raise, pop_context, safe_apply, the master's "
                  "error handler by its effect on error_state) for all program shapes, catch nestings, configurations and fuels - "
                  "model_satisfies_spec: every clause the oracle applies to one evaluation (no limit error swallowed, instructions <= "
                  "budget + allowance, depth, stack incl. slots written between fetches, both stacks unwound, nothing completes after an "
                  "expiry) is empty on every model run; (2) a byte-code level machine of eval_instruction's loop: backward jumps + calls + "
                  "callbacks <= ticks <= budget for every program and branch oracle, and no run stays running for `budget` turns, with the charge of a fetch built from facts regenerated "
                  "from src/interpret.c (test before the dispatch, no goto, list of backward-branch opcodes); (3) the size decision of every "
                  "array / buffer / mapping / string constructor incl. mapping * mapping, save_variable / restore_variable, regexp, "
                  "reg_assoc for all operand sizes and int64 arguments - szCmd_satisfies_spec: the size clause never fires on the model's "
                  "answer to any constructor command; (4) the depth-limited value walks (svalue_save_size, copy) for every value; "
                  "(5) mapping count = nodes across inserts, partially applied `+=` and in-place `*=`; (6) every statement that writes eval_cost "
                  "or the configured budget, regenerated as an inventory and justified by a rule table; regexp matching charged against the budget.  Tied to the source by regenerated "
                  "constants, 64 guard sites, the opcode lists, the refill inventory, and by running generated LPC programs and constructor calls on the real "
                  "driver under small limits; the Lean oracle judges every implementation trace")
    level_note = ("trusted: Lean kernel; extract.py; props/c04.py as the translator from a shape term to LPC source and as the "
                  "(regex / brace-matching) reader of the guard sites and of eval_instruction's switch; the correspondence harness "
                  "(differential, generated cases only; instruction counts are bounded by the oracle, not predicted by the model); the "
                  "master's error handler is modelled only by its effect on error_state (its instructions are bounded by an allowance "
                  "of 100 per invocation in the oracle, side condition of model_satisfies_spec)")
    rule = ("cases = corpus + fixed-finding inputs + boundary list + seeded random cases, alternating (a) a random shape tree "
            "(work loops of 4 forms, spin loops of 12 forms - one per backward-branch opcode of eval_instruction, measured on every run "
            "through the opcode histogram hook: a loop through each opcode must have been stopped by the budget -, unbounded recursion "
            "direct / mutual / function-pointer / efun-callback / callback with 8 extra arguments with 0..20 locals, recursion through "
            "catch, calls, catch frames, map/filter callbacks, safe applies via sprintf(%O), error, throw, sort_array callbacks to a "
            "missing function) under MaxEvaluationCost 2000..8000 (1 in 12 a value the driver clamps, set through init_config or "
            "set_eval_limit), MaxCallDepth 16..60, StackSize 150..1000, master handler plain / with catch / with catch and then an "
            "error of its own, and (b) 3..8 constructor calls (49 constructors) with arguments around the limit, 0, negative, 2^31, "
            "2^32+k, 2^62, INT64 extremes under MaxArraySize/MaxBufferSize/MaxMappingSize/MaxStringLength 10..1000 (1 in 8 with limits "
            "around 65536); and (c) 1 in 8 a sequence of inserts, in-place `m += m2` and in-place `m *= m2` on one mapping around "
            "MaxMappingSize, each inside catch; the histogram in the evidence lists every branch of the model's machine, every "
            "constructor with its ok/err counts and the loop opcodes executed in budget-stopped runs; a case is non-trivial when its "
            "trace has >= 2 lines; distinct = distinct canonical implementation trace")
    not_covered = ["work done inside one efun call that makes no callback (hashing, copying, `%*s` padding, unique_array's group search) is bounded by the size limits, not by the evaluation cost",
                   "instructions executed for an error delivery (master error_handler, or the driver's trace): counted per delivery and bounded by an allowance of 250 per measured delivery, not executed by the machine; fatal-error paths of error_handler",
                   "C recursion depth of walks that have no limit of their own: sprintf(\"%O\") through nested function-pointer arguments, free_svalue on values nested tens of thousands deep (observations in notes/C04.md: stack overflow of the driver reachable with the default budget; C01 material)",
                   "wall-clock time and memory of a single efun call",
                   "unchecked value-stack pushes by the interpreter itself (F_PUSH, argument pushes, merge_arg_lists): confirmed defect that belongs to C01; the slots above StackSize are watched for the generated programs only",
                   "efuns excluded from the size decisions: see EFUN_EXCLUDED in props/c04.py (each with its reason; the check fails when an efun returning a sized value is in neither table); classes rebuilt by restore_variable are not limited by MaxArraySize",
                   "set_eval_limit(): the statements are in the refill inventory as privileged rules; that only privileged code reaches the efun (simul_efun wrapper, valid_override) is not checked",
                   "time of single efuns is polynomial in the size limits (sprintf field width up to 2^31 iterations, unique_array quadratic in MaxArraySize): measured, not modelled; only regexp backtracking is charged",
                   "the real backend loop (eval_cost reset before each task is located as a site, the harness makes the same assignment)"]
    trusted = ["props/c04.py: shape term -> LPC source translator", "props/c04.py: gen_loop (reader of eval_instruction's loop and switch)"]

    def prepare(self, ctx):
        if not getattr(self, "loop_info", None):      # (gen_extra did not get that far: the tie is already reported)
            try:
                self.loop_info = gen_loop(E.REPO)[1]
            except Exception:
                self.loop_info = {"backwardOps": []}
        backops = "".join('{"%s",%s},' % (o, o) for o in self.loop_info.get("backwardOps", []))
        # (the harness lowers end_of_stack with the formula of reset_interpreter: the slack is the regenerated one)
        slack = (getattr(self, "site_consts", None) or {}).get("stackSlackSrc", 5)
        self.exe = E.compile_harness("c04", [os.path.join(E.VERIF, "harness/c04/c04.c")],
                                     extra=["-DC04_BACKOPS=" + backops, "-DC04_STACK_SLACK=%d" % slack])
        self.conf = E.make_mudlib(ctx.rundir, master="/c04/master.c", extra_conf=BASE_CONF)
        self.confs = {}
        base = open(self.conf).read()
        for vname, (master, extra) in CONF_VARIANTS.items():
            text = "".join(("MasterFile\t    %s\n" % master) if l.startswith("MasterFile") else l for l in base.splitlines(True))
            path = os.path.join(ctx.rundir, "verif-%s.conf" % vname)
            with open(path, "w") as f:
                f.write(text + extra)
            self.confs[vname] = path
        self.idx = dict(getattr(ctx, "gen_vals", {}) or {})
        self.raw = {}

    def gen_extra(self, ctx, bdir):
        text, consts, report = gen_sites(E.REPO)
        self.site_report = report
        self.site_consts = consts
        loop_text, self.loop_info = gen_loop(E.REPO)
        refill_text, self.refill_rows = gen_refills(E.REPO)
        return text + loop_text + refill_text

    def extra_checks(self, ctx, tier, rng):
        inv = efun_inventory(E.REPO)
        self.inventory = inv
        problems = []
        if len(inv) < 60:
            problems.append({"kind": "tie-broken", "name": "efun-inventory", "detail": "func_spec.c could not be parsed (%d efuns found)" % len(inv)})
        unknown = sorted(set(n for n, _ in inv if n not in EFUN_COVERED and n not in EFUN_EXCLUDED))
        if unknown:
            problems.append({"kind": "tie-broken", "name": "efun-inventory:" + ",".join(unknown),
                             "detail": "efuns returning a sized value that are neither decided in NV/C04/Sizes.lean nor on the exclusion list of props/c04.py: %s" % unknown})
        # every backward-branch opcode the translator found in eval_instruction must have been executed, in some
        # evaluation of this run that the budget stopped, at least SPIN_MIN_ITERATIONS times: the generator's loop forms
        # reach each of them (a new loop opcode needs a form here as well as a look at NV/C04/Loop.lean)
        seen, hook = {}, False
        for cid, lines in self.raw.items():
            cost_err = any(l.startswith("r err es=2") or l.startswith("r err es=3") for l in lines)
            for l in lines:
                if l.startswith("#ops"):
                    hook = True
                    for t in l.split()[1:]:
                        k, _, v = t.partition("=")
                        if cost_err and v.isdigit():
                            seen[k] = max(seen.get(k, 0), int(v))
        self.loop_ops_seen = dict(sorted(seen.items()))
        if hook:
            missing = [o for o in self.loop_info.get("backwardOps", []) if seen.get(o, 0) < SPIN_MIN_ITERATIONS]
            if missing:
                problems.append({"kind": "tie-broken", "name": "loop-opcode-not-exercised:" + ",".join(missing),
                                 "detail": "no evaluation of this run was stopped by the budget inside a loop through %s (SPIN_FORMS of props/c04.py needs a form for it)" % missing})
        return problems

    def run_impl(self, ctx, cases):
        # one harness process per configuration / master variant (`conf <name>` as the first line of a case)
        groups = {}
        for c in cases:
            v = c.lines[0].split()[1] if c.lines and c.lines[0].startswith("conf ") and len(c.lines[0].split()) == 2 else ""
            groups.setdefault(v if v in getattr(self, "confs", {}) else "", []).append(c)
        res = {}
        for v, cs in groups.items():
            res.update(E.run_harness(self.exe, self.confs[v] if v else self.conf, cs, ctx.rundir,
                                     args=["--timeout", os.environ.get("NV_C04_TIMEOUT", "6")]))
        for k, v in res.items():
            self.raw[k] = list(v)
        return res

    def shrink_ok(self, lines):
        """a shrunk case must still run something (a case without output would be judged `crash missing`, which is not
        the failure being shrunk), and a program evaluation needs its source, its object and its shape"""
        has = lambda p: any(l.startswith(p) for l in lines)
        if not (has("ev ") or has("sz ")):
            return False
        if has("ev p "):
            return has("lpc ") and has("load p ") and has("shape ") and (lines[0].startswith("conf ") or not has("conf "))
        if has("sz ") or has("ev sizes "):
            return has("load sizes ")
        return True

    def canon(self, lines):
        return [l.rstrip() for l in lines if l.strip() != "" and not l.startswith("#") and not l.startswith("obs ")]

    def run_judge(self, ctx, cases, impl):
        js = []
        for c in cases:
            raw = [l.rstrip() for l in self.raw.get(c.id, impl.get(c.id, ["crash missing"])) if l.strip()]
            js.append(E.Case(c.id, c.lines + ["--"] + (raw or ["crash missing"])))
        return E.nvdrive(self.id, "judge", E.cases_text(js))


    # ---- generators ------------------------------------------------------
    def mk(self, cid, root, cost=3000, depth=20, stack=300, hc=0, origin="boundary", conf=None, argkind=None):
        return machine_case(cid, root, cost, depth, stack, hc, {"origin": origin}, self.idx_or_default(), conf=conf, argkind=argkind)

    def idx_or_default(self):
        d = {"cfgEvalCost": 8, "cfgMaxArray": 11, "cfgMaxBuffer": 12, "cfgMaxMapping": 13, "cfgMaxString": 14}
        d.update(getattr(self, "idx", {}) or {})
        return d

    def sizes_case(self, cid, limits, cmds, origin="boundary"):
        ix = self.idx_or_default()
        lines = []
        for key, cfg in (("array", "cfgMaxArray"), ("buffer", "cfgMaxBuffer"), ("mapping", "cfgMaxMapping"), ("string", "cfgMaxString")):
            if key in limits:
                lines.append("cfgint %d %d" % (ix[cfg], limits[key]))
        lines.append("load sizes /c04/sizes")
        lines += ["sz " + c for c in cmds]
        return E.Case(cid, lines, {"origin": origin, "kind": "sizes"})

    def mapseq_case(self, cid, limit, ops, origin="boundary"):
        ix = self.idx_or_default()
        return E.Case(cid, ["cfgint %d %d" % (ix["cfgMaxMapping"], limit), "load sizes /c04/sizes", "ev sizes mapseq " + ",".join(ops)],
                      {"origin": origin, "kind": "mapseq"})

    def rx_case(self, cid, cost, n, origin="boundary"):
        ix = self.idx_or_default()
        return E.Case(cid, ["cfgint %d %d" % (ix["cfgEvalCost"], cost), "load sizes /c04/sizes", "ev sizes rx %d" % n],
                      {"origin": origin, "kind": "rx"})

    def gen_mapseq(self, rng, cid):
        """inserts and in-place `m += m2` on one mapping, each inside catch.  `present` = keys certainly in the mapping;
        a failed `+=` is applied partially (which keys depends on the hash order), so its range is never used again"""
        limit = rng.choice([8, 20, 50, 100])
        present, ops, nxt = [], [], 0
        count = 0                               # model of the size, to steer towards the limit
        certain = True                          # False after a partially applied `+=`: which keys went in is not known
        for _ in range(rng.range(3, 10)):
            k = rng.weighted([("inew", 4), ("iold", 2), ("abs", 5), ("cmp", 3)])
            if k == "cmp":
                # m *= m2 (compose_mapping in place): the nodes whose value (= key) is a key of m2 stay
                how = rng.weighted([("self", 2), ("none", 2), ("part", 4 if (certain and present) else 0)])
                if how == "self":
                    ops.append("cs:%d" % count)
                elif how == "none":
                    ops.append("c0:0:0")
                    present, count, certain = [], 0, True
                else:
                    lo = rng.choice(present) - rng.choice([0, 0, 1, 2])
                    n = min(limit, rng.choice([1, 2, 5, limit // 2, limit]))
                    kept = [x for x in present if lo <= x < lo + n]
                    ops.append("c%d:%d:%d" % (lo, n, len(kept)))
                    present, count = kept, len(kept)
            elif k == "iold" and present:
                ops.append("i%do" % rng.choice(present))
            elif k == "abs":
                n = rng.choice([0, 1, 3, limit // 2, limit - count, limit - count + 1, limit - count + 3, limit])
                n = min(max(0, n), limit)       # the operand m2 is itself a mapping within the limit
                overlap = rng.choice([0, 0, 1, 3]) if present else 0
                overlap = min(overlap, n, len(present))
                if overlap and sorted(present)[-overlap:] == list(range(nxt - overlap, nxt)):
                    frm, new = nxt - overlap, n - overlap      # the range starts inside the keys inserted last
                else:
                    frm, new = nxt, n
                ops.append("a%d:%d:%d" % (frm, n, new))
                if count + new <= limit:
                    present += list(range(max(frm, nxt), frm + n))
                    count += new
                else:
                    count = limit                           # partially applied: exactly MAX keys
                    certain = False
                nxt = frm + n + 1000
            else:
                ops.append("i%dn" % nxt)
                if count + 1 <= limit:
                    present.append(nxt)
                    count += 1
                nxt += 1
        return self.mapseq_case(cid, limit, ops, "generated")

    def boundary(self):
        N = Node
        B = []
        S, E_, T, K = N("S"), N("E"), N("T"), N("K")
        W = lambda n, form=0: N("W", n, form=form)
        C = lambda x: N("C", kids=[x])
        F = lambda n, x: N("F", n, [x])
        Q = lambda a, b: N("Q", kids=[a, b])
        Bk = lambda k, x, form=0: N("B", k, [x], form)
        A = lambda x: N("A", kids=[x])
        R = lambda n, form=0: N("R", n, form=form)
        X = N("X")
        for i in range(len(SPIN_FORMS)):
            B.append(self.mk("b-spin%d" % i, N("S", form=i)))
            B.append(self.mk("b-c2-spin-form%d" % i, C(C(N("S", form=i))), cost=2000 + 500 * (i % 3)))
        for i in range(4):
            B.append(self.mk("b-rec%d" % i, R(0, i)))
        # the repaired defect: nested catches around an exhausted budget / recursion depth
        B.append(self.mk("b-c1-spin", C(S)))
        B.append(self.mk("b-c2-spin", C(C(S))))
        B.append(self.mk("b-c5-spin", C(C(C(C(C(S)))))))
        B.append(self.mk("b-c2-rec", C(C(R(0)))))
        B.append(self.mk("b-c2-rec-fp", C(C(R(0, 2)))))
        B.append(self.mk("b-c2-rec-cb", C(C(R(0, 3)))))
        B.append(self.mk("b-crecur-even", X, depth=20))
        B.append(self.mk("b-crecur-odd", X, depth=21))
        B.append(self.mk("b-c-spin-then-work", Q(C(C(S)), W(50))))
        B.append(self.mk("b-hc-c1-spin", C(S), hc=1))
        B.append(self.mk("b-hc-c2-spin", C(C(S)), hc=1))
        B.append(self.mk("b-hc-c2-rec", C(C(R(0))), hc=1))
        # repaired: a handler that completes a catch () and then raises an error of its own lost the limit bits
        B.append(self.mk("b-hf-c1-spin", Q(C(S), W(50)), hc=2))
        B.append(self.mk("b-hf-c2-rec", C(C(R(0))), hc=2))
        B.append(self.mk("b-hf-spin", S, hc=2))
        B.append(self.mk("b-hf-safe-spin-loop", Bk(4, A(S)), cost=2000, hc=2))
        B.append(self.mk("b-hf-safe-catch-spin", Q(A(C(S)), W(10)), cost=2000, hc=2))
        B.append(self.mk("b-hf-c-err", Q(C(E_), Q(A(E_), W(20))), hc=2))
        for mode in (4, 5):
            B.append(self.mk("b-hf%d-c2-spin" % mode, Q(C(C(S)), W(50)), hc=mode))
            B.append(self.mk("b-hf%d-c-rec-err" % mode, Q(C(R(0)), Q(C(E_), W(5))), hc=mode))
            B.append(self.mk("b-hf%d-safe-spin-loop" % mode, Bk(3, A(S)), cost=2000, hc=mode))
        B.append(self.mk("b-hf3-c2-spin", Q(C(C(S)), W(50)), hc=3))
        B.append(self.mk("b-hf3-safe-spin", Q(A(S), W(10)), cost=2000, hc=3))
        # error delivery without a master error_handler (): the driver's own trace, which with ArgumentsInTrace /
        # LocalVariablesInTrace applies master::object_name through safe_apply for every object value of every frame
        k = 0
        for conf in sorted(CONF_VARIANTS):
            for argkind in ("obj", "arr", "map", "str"):
                for name, root, kw in (("c-spin-work", Q(C(S), W(50)), {}), ("c2-rec", C(C(R(2))), {}),
                                       ("cb-c-spin", Q(Bk(2, C(N("S", form=3))), W(5)), {"cost": 2000}),
                                       ("c-err-spin", Q(C(E_), C(N("S", form=1))), {})):
                    k += 1
                    if conf.startswith("eh") and k % 3:      # (with a handler the trace is not printed: a third of the combinations)
                        continue
                    B.append(self.mk("b-%s-%s-%s" % (conf, argkind, name), root, conf=conf, argkind=argkind, **kw))
        # repaired: catch () at full depth marks its error (no master error_handler () needed to keep it from enclosing catches)
        for conf in ("noeh", "noeh-args", "eh-args"):
            B.append(self.mk("b-%s-crecur-even" % conf, Q(X, W(5)), depth=20, conf=conf, argkind="obj"))
            B.append(self.mk("b-%s-crecur-odd" % conf, Q(C(X), W(5)), depth=21, conf=conf, argkind="str"))
        # repaired: an error while the trace is printed (no budget for master::object_name) does not print traces recursively
        for conf in ("eh-args", "noeh-both", "eh-locals"):
            B.append(machine_case("b-%s-budget1" % conf, Q(F(2, E_), E_), -2, 30, 300, 0, {"origin": "boundary"}, self.idx_or_default(),
                                  "setlimit", conf=conf, argkind="obj"))
        # repaired: the trace of a stack overflow raised while a frame is being set up does not read that frame's variables
        for conf in ("noeh-locals", "eh-locals", "noeh-both", "eh-args"):
            B.append(self.mk("b-%s-rec-locals-stack" % conf, Q(R(20, 3), W(5)), depth=150, stack=300, conf=conf, argkind="str"))
            B.append(self.mk("b-%s-rec-cbargs-stack" % conf, R(12, 4), depth=150, stack=200, conf=conf, argkind="arr"))
        # consecutive budgets: for some of them the tick that uses the budget up is the callback's own tick (call_efun_callback),
        # not an instruction's - the expiry must be raised there as well
        for c in range(300, 312):
            B.append(self.mk("b-cb-align-%d" % c, Q(Bk(60, W(2, 1)), S), cost=c))
        # callbacks whose work adds up to more than the budget: the expiry comes inside one of them
        B.append(self.mk("b-cb-overbudget-map", Q(Bk(40, W(60)), W(5)), cost=2000))
        B.append(self.mk("b-cb-overbudget-filter", C(Bk(60, W(25, 1), 1)), cost=2000))
        B.append(self.mk("b-cb-c-spin", Bk(3, C(C(S)))))
        B.append(self.mk("b-c-cb-spin", C(Bk(2, S, 1))))
        B.append(self.mk("b-c-call-c-spin", C(F(2, C(F(1, S))))))
        # repaired: a budget below 1 (config file / set_eval_limit) is clamped to 1
        for v in (0, -7, 1, 2):
            B.append(machine_case("b-reconf%d" % v, Q(W(30), C(S)), v, 20, 300, 0, {"origin": "boundary"}, self.idx_or_default(), "reconf"))
        for v in (-5, 4294967296, -4294967296, 2, 4294967296 + 3000):
            B.append(machine_case("b-setlimit%d" % v, Q(W(30), C(S)), v, 20, 300, 0, {"origin": "boundary"}, self.idx_or_default(), "setlimit"))
        # repaired: an eval-cost error stopped by a safe apply leaves the caller one tick
        B.append(self.mk("b-safe-spin-x3", Q(A(S), Q(A(S), A(S))), cost=2000))
        B.append(self.mk("b-safe-spin-loop", Bk(4, A(S)), cost=2000))
        B.append(self.mk("b-safe-catch-spin", Q(A(C(S)), W(10)), cost=2000))
        B.append(self.mk("b-hc-safe-spin", Q(A(S), W(10)), cost=2000, hc=1))
        B.append(self.mk("b-safe-rec-then-work", Q(A(R(0)), W(30)), cost=2000))
        # repaired: callbacks that run no code are charged (call_efun_callback)
        B.append(self.mk("b-nocode-over", N("N", 400), cost=200, depth=20, stack=300))
        B.append(self.mk("b-nocode-under", Q(N("N", 10), W(5)), cost=2000))
        B.append(self.mk("b-nocode-catch", C(C(N("N", 95, form=1))), cost=80))
        # a safe apply made at (and just below) full call depth: save_context refuses silently / the applied function cannot be entered
        def chain(n, x):
            for _ in range(n):
                x = F(0, x)
            return x
        for dlt in (1, 2, 3, 4):
            B.append(self.mk("b-safe-at-depth-minus%d" % dlt, Q(chain(12 - dlt - 2, A(K)), W(5)), depth=12))
            B.append(self.mk("b-catch-at-depth-minus%d" % dlt, Q(C(chain(12 - dlt - 3, C(W(3)))), W(5)), depth=12))
        # ordinary errors are still catchable
        B.append(self.mk("b-c-err", Q(C(E_), W(20))))
        B.append(self.mk("b-c-throw", Q(C(T), C(C(E_)))))
        B.append(self.mk("b-err", E_))
        B.append(self.mk("b-throw-nocatch", T))
        B.append(self.mk("b-cb-err", C(Bk(3, Q(W(5), E_)))))
        B.append(self.mk("b-work-forms", Q(Q(W(40, 0), W(40, 1)), Q(W(40, 2), W(40, 3)))))
        # stack: recursion with many locals under a small value stack
        B.append(self.mk("b-rec-locals", R(20), depth=150, stack=200))
        B.append(self.mk("b-rec-cbargs", R(3, 4), depth=150, stack=150))
        B.append(self.mk("b-c2-rec-cbargs", C(C(R(0, 4))), depth=150, stack=157))
        B.append(self.mk("b-rec-cbargs-deep", R(0, 4), depth=20, stack=400))
        B.append(self.mk("b-c2-rec-locals", C(C(R(12, 1))), depth=150, stack=150))
        B.append(self.mk("b-nest", F(3, F(0, F(5, W(10)))), depth=12))
        # mapping count bookkeeping across a partially applied `m += m2` (error path of add_to_mapping)
        B.append(self.mapseq_case("b-map-absorb-over", 20, ["i0n", "a100:15:15", "a200:10:10", "i300n", "i301n", "a400:5:5", "i0o"]))
        B.append(self.mapseq_case("b-map-absorb-exact", 20, ["a100:20:20", "i300n", "a400:1:1", "a100:20:0"]))
        B.append(self.mapseq_case("b-map-absorb-empty", 8, ["a100:0:0", "a200:8:8", "i1n", "a300:8:8", "a400:1:1"]))
        B.append(self.mapseq_case("b-map-absorb-overlap", 20, ["a100:12:12", "a109:12:9", "i500n"]))
        # sizes
        B.append(self.sizes_case("b-sz-array", {"array": 100, "string": 1000},
                                 ["allocate 100", "allocate 101", "allocate 0", "allocate -1", "allocate 4294967296",
                                  "allocate -9223372036854775808", "add_array 60 40", "add_array 60 41", "add_array 0 100",
                                  "add_array_self 50", "add_array_self 51", "slice 100 10 19", "slice 100 4294967296 4294967298",
                                  "slice 100 -5 200", "slice 100 50 10", "aggregate 100", "aggregate 101", "aggregate 3",
                                  "explode 100", "explode 101", "explode 250", "explode0 150", "explode 0"]))
        B.append(self.sizes_case("b-sz-buffer", {"buffer": 100},
                                 ["allocate_buffer 100", "allocate_buffer 101", "allocate_buffer -1", "allocate_buffer 0",
                                  "add_buffer 60 40", "add_buffer 60 41", "allocate_buffer 9223372036854775807"]))
        B.append(self.sizes_case("b-sz-mapping", {"mapping": 100},
                                 ["map_insert 99 1", "map_insert 100 1", "map_insert 100 0", "map_insert 101 0", "map_aggregate 100",
                                  "map_aggregate 101", "map_aggregate 12", "map_add 60 40 0", "map_add 60 41 0", "map_add 60 50 10",
                                  "map_add 40 70 9", "map_add 40 70 10"]))
        B.append(self.sizes_case("b-sz-string", {"string": 1000, "array": 200},
                                 ["join 600 400", "join 600 401", "join_eq 1000 0", "join_eq 999 2", "join_self 1 9", "join_self 1 12",
                                  "join_num 995 12345", "join_num 995 123456", "num_join -1234 995", "num_join -12345 995",
                                  "repeat 2 500", "repeat 2 501", "repeat 2 -9223372036854775808", "repeat 2 9223372036854775807",
                                  "repeat 0 4611686018427387904", "repeat 3 -1", "repeat 1000 1", "repeat 4 4611686018427387904",
                                  "implode 10 100 0", "implode 100 100 0", "implode 10 90 10", "implode 10 91 10", "implode 0 5 5",
                                  "replace 99 100 9", "replace 100 100 9", "replace 800 100 9", "replace 100 100 8", "replace 801 99 3",
                                  "replace1 0 333 3", "replace1 0 334 3", "replace1 1 333 3", "replace1 999 0 3", "replace1 500 166 3",
                                  "replace1 500 167 3", "replace1 0 0 2"]))
        B.append(self.sizes_case("b-sz-derived", {"array": 50, "mapping": 80, "string": 200},
                                 ["copy_array 50", "copy_mapping 80", "sort_array 50", "map_array 50", "lower_case 200", "filter_array 50 20",
                                  "filter_array 50 0", "unique_array 50 7", "unique_array 50 0", "array_sub 50 20", "array_and 50 20",
                                  "keys 50", "keys 51", "values 80", "filter_mapping 80 30", "filter_mapping 80 0", "map_mapping 80", "map_mapping 81", "allocate_mapping 1000000", "allocate_mapping -1"]))
        B.append(self.sizes_case("b-sz-wide", {"array": 70000, "buffer": 200000, "string": 100000},
                                 ["allocate 65535", "allocate_buffer 65535", "join 60000 30000", "sprintf 30000 30000", "sprintf 60000 40000"]))
        B.append(self.sizes_case("b-sz-wide-string", {"string": 65535, "array": 70000},
                                 ["join 65535 1", "join 65000 535", "join_eq 40000 25536", "join_self 32768 1", "repeat 2 32768", "implode 2 32768 0"]))
        B.append(self.sizes_case("b-sz-sprintf", {"string": 200}, ["sprintf 100 100", "sprintf 100 101", "sprintf 200 100", "sprintf 1 1"]))
        # round 4: mapping * mapping (repaired: the 16-bit `deleted` counter), save / restore_variable, regexp, reg_assoc
        B.append(self.sizes_case("b-sz-compose-wide", {"mapping": 70000, "array": 80000},
                                 ["map_compose_eq 70000 10 5", "map_compose 65536 3 0"]))   # (two 70000-key mappings: the case stays well below the per-case time limit under load)
        B.append(self.sizes_case("b-sz-compose", {"mapping": 100},
                                 ["map_compose 50 20 7", "map_compose_eq 50 20 20", "map_compose 100 100 100", "map_compose 0 5 0",
                                  "map_compose 101 5 0", "map_compose_eq 30 0 0"]))
        B.append(self.sizes_case("b-sz-save", {"string": 100, "array": 200, "mapping": 50},
                                 ["save_array 48", "save_array 49", "save_array 0", "save_string 98 0", "save_string 99 0", "save_string 49 1",
                                  "save_string 50 1", "save_mapping 5", "save_mapping 10", "save_nested 20", "save_nested 21", "save_nested 1"]))
        B.append(self.sizes_case("b-sz-walk-depth", {"string": 1000, "array": 200},
                                 ["save_nested 25", "save_nested 26", "save_nested 27", "copy_nested 25", "copy_nested 26", "copy_nested 1",
                                  "restore_nested 25", "restore_nested 26", "restore_nested 100", "restore_nested 200", "restore_nested 201"]))
        B.append(self.sizes_case("b-sz-restore", {"string": 1000, "array": 100, "mapping": 20},
                                 ["restore_array 100", "restore_array 101", "restore_array 0", "restore_array 498", "restore_array 499",
                                  "restore_mapping 20", "restore_mapping 21", "restore_mapping 0"]))
        B.append(self.sizes_case("b-sz-regexp", {"string": 1000, "array": 100},
                                 ["regexp 100 50 1", "regexp 100 51 1", "regexp 100 100 0", "regexp 100 30 2", "regexp 100 49 3", "regexp 100 50 3",
                                  "regexp 0 0 1", "regexp 101 0 0", "reg_assoc 49", "reg_assoc 50", "reg_assoc 0", "reg_assoc 1"]))
        # regexp backtracking is charged against the budget: far below / far above what 100 node visits per tick allow
        for cost, n in ((20000, 3), (20000, 12), (20000, 45), (20000, 60), (5000, 40), (5000, 200), (1000000, 10)):
            B.append(self.rx_case("b-rx-%d-%d" % (cost, n), cost, n))
        # repaired: unique_mapping respects MaxMappingSize (reachable when MaxArraySize is the larger limit)
        B.append(self.sizes_case("b-sz-unique-mapping", {"array": 300, "mapping": 100},
                                 ["unique_mapping 200 50", "unique_mapping 200 100", "unique_mapping 200 101", "unique_mapping 200 0",
                                  "unique_mapping 100 0", "unique_mapping 0 0", "unique_mapping 301 5"]))
        B.append(self.sizes_case("b-sz-save-nested-map", {"string": 1000},
                                 ["save_nested_map 1", "save_nested_map 25", "save_nested_map 26", "save_nested_map 27", "save_nested_map 2",
                                  "save_depth 25", "save_depth 26", "save_depth 40", "save_depth_map 25", "save_depth_map 26", "save_depth_map 1"]))
        B.append(self.mapseq_case("b-map-compose", 20, ["a100:15:15", "c105:5:5", "i300n", "cs:6", "a400:20:20", "c0:0:0", "i1n", "a500:19:19", "i2n"]))
        return B

    def gen_shape(self, rng, depth, st):
        """random shape; st tracks the budget of terminating work and whether an unbounded leaf was placed"""
        N = Node
        if depth <= 0 or rng.chance(1, 4):
            k = rng.weighted([("W", 6), ("N", 2), ("S", 3 if not st["inf"] else 0), ("R", 3 if not st["inf"] else 0),
                              ("X", 1 if not st["inf"] else 0), ("E", 3), ("T", 2), ("K", 1)])
            if k in ("S", "R", "X"):
                st["inf"] = True
            if k == "W":
                return N("W", rng.choice([0, 1, 3, 10, 25, 60]), form=rng.below(4))
            if k == "N":
                return N("N", rng.choice([0, 1, 4, 10]))
            if k == "R":
                return N("R", rng.choice([0, 0, 1, 4, 12, 20]), form=rng.below(5))
            if k == "S":
                return N("S", form=rng.below(len(SPIN_FORMS)))
            return N(k)
        # (sprintf inside master::object_name is refused by the driver: no safe apply inside a safe apply)
        k = rng.weighted([("C", 8), ("F", 4), ("Q", 6), ("B", 3), ("A", 0 if st.get("in_safe") else 1)])
        if k == "C":
            return N("C", kids=[self.gen_shape(rng, depth - 1, st)])
        if k == "F":
            return N("F", rng.choice([0, 0, 2, 6]), [self.gen_shape(rng, depth - 1, st)])
        if k == "Q":
            a = self.gen_shape(rng, depth - 1, st)
            b = self.gen_shape(rng, depth - 1, st)
            return N("Q", kids=[a, b])
        if k == "B":
            return N("B", rng.choice([0, 1, 2, 4]), [self.gen_shape(rng, depth - 1, st)], rng.below(2))
        st["in_safe"] = True
        kid = self.gen_shape(rng, depth - 1, st)
        st["in_safe"] = False
        return N("A", kids=[kid])

    def gen_machine(self, rng, cid):
        for _ in range(50):
            st = {"inf": False}
            root = self.gen_shape(rng, rng.range(1, 5), st)
            cost = rng.choice([2000, 3000, 5000, 8000])
            depth = rng.choice([16, 20, 21, 35, 60])
            stack = rng.choice([150, 200, 400, 1000])
            if root.cost_bound() * 3 > cost or root.frames_bound() + 6 > depth:
                continue
            if root.has(("A",)) and st["inf"] is False and rng.chance(1, 2):
                continue
            # 2: the handler completes a catch and then fails itself; 3: fails at once; 4 / 5: an error inside its own catch, then returns / fails
            hc = rng.choice([1, 1, 2, 3, 4, 5]) if rng.chance(1, 4) else 0
            via = rng.weighted([("cfgint", 6), ("reconf", 2), ("setlimit", 1)])
            if rng.chance(1, 12):       # a budget that the driver clamps to 1
                cost = rng.choice([0, -1, -3000]) if via != "setlimit" else rng.choice([-2, -3000, 4294967296])
                via = "reconf" if via == "cfgint" else via
            conf = argkind = None
            if rng.chance(1, 6) and not root.has(("A",)):
                # (no safe applies there: the variant masters answer object_name themselves, for the trace)
                conf = rng.choice(sorted(CONF_VARIANTS))
                argkind = rng.choice(["obj", "obj", "arr", "map", "str", "int"])
                if conf.startswith("noeh"):
                    hc = 0
                else:
                    # (a handler that fails makes the driver print its own trace; /c04/master.c answers object_name by calling back
                    # into the program - its cost per traced object is the program's, not a constant the oracle could allow for)
                    hc = min(hc, 1)
            return machine_case(cid, root, cost, depth, stack, hc, {"origin": "generated"}, self.idx_or_default(), via, conf=conf, argkind=argkind)
        return self.mk(cid, Node("C", kids=[Node("C", kids=[Node("S")])]), origin="generated")

    def gen_sizes(self, rng, cid):
        wide = rng.chance(1, 8)
        if wide:
            lim = {"array": rng.choice([65535, 65536, 70000]), "buffer": rng.choice([65536, 200000]), "mapping": 300,
                   "string": rng.choice([65535, 100000])}
        else:
            lim = {"array": rng.choice([20, 50, 100, 300]), "buffer": rng.choice([50, 100, 1000]),
                   "mapping": rng.choice([10, 20, 100]), "string": rng.choice([100, 200, 1000])}
        big = [2 ** 31 - 1, 2 ** 31, 2 ** 32, 2 ** 32 + 5, 2 ** 62, 2 ** 63 - 1, -1, -2, -2 ** 31, -2 ** 63, -2 ** 63 + 1]

        def near(l, allow_big=True):
            c = [0, 1, 2, l // 2, l - 1, l, l + 1, l + 7, 2 * l]
            if allow_big and rng.chance(1, 4):
                return rng.choice(big)
            return max(0, rng.choice(c)) if not rng.chance(1, 10) else rng.range(0, 2 * l)

        cmds = []
        for _ in range(rng.range(3, 8)):
            la, lb, lm, ls = lim["array"], lim["buffer"], lim["mapping"], lim["string"]
            k = rng.weighted([("allocate", 3), ("add_array", 4), ("add_array_self", 2), ("slice", 3), ("explode", 2),
                              ("explode0", 1), ("aggregate", 1), ("allocate_buffer", 3), ("add_buffer", 3),
                              ("map_insert", 3), ("map_add", 3), ("map_aggregate", 1), ("join", 4), ("join_eq", 2),
                              ("join_self", 2), ("join_num", 1), ("num_join", 1), ("repeat", 5), ("implode", 3),
                              ("replace", 3), ("replace1", 2), ("sprintf", 1), ("derived", 6), ("round4", 7)])
            if k == "round4":
                d = rng.choice(["unique_mapping", "save_nested_map", "map_compose", "map_compose_eq", "save_array", "save_string", "save_mapping", "save_nested",
                                "copy_nested", "restore_nested", "restore_array", "restore_mapping", "regexp", "reg_assoc"])
                if d == "unique_mapping":
                    n_ = min(near(la, False), la + 1, 2000)
                    cmds.append("unique_mapping %d %d" % (n_, rng.choice([0, 1, lm - 1, lm, lm + 1, n_ // 2, n_])))
                elif d == "save_nested_map":
                    cmds.append("%s %d" % (rng.choice(["save_nested_map", "save_depth", "save_depth_map"]), rng.choice([1, 2, 10, 24, 25, 26, 27, 40])))
                elif d in ("map_compose", "map_compose_eq"):
                    c1, c2 = rng.range(0, lm), rng.range(0, lm)
                    cmds.append("%s %d %d %d" % (d, c1, c2, rng.choice([0, 1, min(c1, c2) // 2, min(c1, c2)])))
                elif d == "save_array":
                    cmds.append("save_array %d" % max(0, rng.choice([0, 1, (ls - 4) // 2, (ls - 4) // 2 + 1, la, la + 1, ls])))
                elif d == "save_string":
                    cmds.append("save_string %d %d" % (max(0, rng.choice([0, 1, ls - 3, ls - 2, ls - 1, ls, (ls - 2) // 2, (ls - 2) // 2 + 1])), rng.below(2)))
                elif d == "save_mapping":
                    cmds.append("save_mapping %d" % rng.choice([0, 1, 5, 10, 12]))
                elif d in ("save_nested", "copy_nested"):
                    cmds.append("%s %d" % (d, rng.choice([1, 2, 10, 24, 25, 26, 27, 40])))
                elif d == "restore_nested":
                    cmds.append("restore_nested %d" % rng.choice([1, 2, 10, 24, 25, 26, 27, 40, max(1, (ls - 4) // 5), max(1, (ls - 4) // 5 + 2)]))
                elif d == "restore_array":
                    cmds.append("restore_array %d" % max(0, rng.choice([0, 1, la, la + 1, (ls - 4) // 2, (ls - 4) // 2 + 1])))
                elif d == "restore_mapping":
                    cmds.append("restore_mapping %d" % min(400, max(0, rng.choice([0, 1, 5, lm - 1, lm, lm + 1]))))
                elif d == "regexp":
                    n_ = min(near(la, False), la + 1, 3000)
                    cmds.append("regexp %d %d %d" % (n_, rng.choice([0, 1, n_ // 2, n_, la // 2, la // 2 + 1]), rng.below(4)))
                else:
                    cmds.append("reg_assoc %d" % min(ls, max(0, rng.choice([0, 1, (la - 1) // 2, (la - 1) // 2 + 1, la]))))
                continue
            if k == "derived":
                d = rng.choice(["copy_array", "copy_mapping", "sort_array", "map_array", "lower_case", "filter_array",
                                "unique_array", "array_sub", "array_and", "keys", "values", "allocate_mapping", "filter_mapping", "map_mapping"])
                if d in ("copy_array", "sort_array", "map_array"):
                    cmds.append("%s %d" % (d, near(la, False)))
                elif d == "filter_mapping":
                    n_ = rng.choice([0, 1, lm // 2, lm, lm + 1])
                    cmds.append("filter_mapping %d %d" % (n_, rng.choice([0, 1, n_ // 2, n_, n_ + 3])))
                elif d in ("copy_mapping", "keys", "values", "map_mapping"):
                    cmds.append("%s %d" % (d, rng.choice([0, 1, lm // 2, lm, lm + 1, min(lm, la), min(lm, la + 1)])))
                elif d == "lower_case":
                    cmds.append("lower_case %d" % near(ls, False))
                elif d in ("filter_array", "unique_array"):
                    n_ = min(near(la, False), la)
                    if d == "unique_array":
                        n_ = min(n_, 2000)     # unique_array searches its group list linearly: quadratic inside one efun

                    cmds.append("%s %d %d" % (d, n_, rng.choice([0, 1, n_ // 2, n_, n_ + 3])))
                elif d in ("array_sub", "array_and"):
                    cmds.append("%s %d %d" % (d, min(near(la, False), la), min(near(la, False), la)))
                else:
                    cmds.append("allocate_mapping %d" % rng.choice([0, 5, lm, lm + 1, 10 ** 6, -1, 2 ** 40]))
                if rng.chance(1, 3):
                    cmds.append("sprintf_pad %d %d" % (rng.choice([0, 1, ls - 1, ls, ls + 1, 65535, 65536, 70000]), rng.choice([1, ls // 2, ls])))
            elif k == "allocate":
                cmds.append("allocate %d" % near(la))
            elif k == "add_array":
                a = near(la, False)
                cmds.append("add_array %d %d" % (a, rng.choice([la - a, la - a + 1, near(la, False)]) if a <= la else near(la, False)))
            elif k == "add_array_self":
                cmds.append("add_array_self %d" % near(la, False))
            elif k == "slice":
                n = min(near(la, False), la)
                cmds.append("slice %d %d %d" % (n, rng.choice([0, 1, n // 2, -3, 2 ** 32, 2 ** 32 + 1, -2 ** 63, n]),
                                                rng.choice([n - 1, n, n // 2, 0, -1, 2 ** 32 + 3, 2 ** 63 - 1, 2 * n])))
            elif k == "explode":
                pc = near(la, False)
                cmds.append("explode %d" % (pc if 2 * pc < ls else min(pc, ls // 2)))
            elif k == "explode0":
                cmds.append("explode0 %d" % min(near(la, False), ls))
            elif k == "aggregate":
                cmds.append("aggregate %d" % rng.choice([0, 3, 10, 100, 101, 210]))
            elif k == "allocate_buffer":
                cmds.append("allocate_buffer %d" % near(lb))
            elif k == "add_buffer":
                a = min(near(lb, False), lb)
                cmds.append("add_buffer %d %d" % (a, min(lb, rng.choice([lb - a, lb - a + 1, near(lb, False)]))))
            elif k == "map_insert":
                cmds.append("map_insert %d %d" % (rng.choice([0, lm - 1, lm, lm + 1, lm // 2]), rng.below(2)))
            elif k == "map_add":
                c1 = rng.range(0, lm)
                c2 = rng.range(0, lm)
                cmds.append("map_add %d %d %d" % (c1, c2, rng.range(0, min(c1, c2))))
            elif k == "map_aggregate":
                cmds.append("map_aggregate %d" % rng.choice([0, 3, 12, 100, 101]))
            elif k in ("join", "join_eq"):
                a = min(near(ls, False), ls)
                cmds.append("%s %d %d" % (k, a, min(ls, rng.choice([ls - a, ls - a + 1, near(ls, False)]))))
            elif k == "join_self":
                cmds.append("join_self %d %d" % (rng.choice([1, 3, ls // 4, ls // 2, ls // 2 + 1]), rng.range(0, 12)))
            elif k == "join_num":
                cmds.append("join_num %d %d" % (rng.choice([ls, ls - 1, ls - 3, ls - 6, 0]), rng.choice([0, 7, -7, 12345, -2 ** 63, 2 ** 63 - 1])))
            elif k == "num_join":
                cmds.append("num_join %d %d" % (rng.choice([0, 7, -7, 12345, -2 ** 63, 2 ** 63 - 1]), rng.choice([ls, ls - 1, ls - 3, ls - 6, 0])))
            elif k == "repeat":
                ln = rng.choice([0, 1, 2, 3, 7, ls // 2, ls])
                cnt = rng.choice([0, 1, 2, (ls // ln if ln else 5), (ls // ln + 1 if ln else 6), near(ls), rng.choice(big),
                                  (2 ** 64 // ln if ln else 9), (2 ** 63 // ln if ln else 9)])
                if ln == 0 and cnt > 10 ** 6:
                    cnt = rng.choice([2 ** 62, 10 ** 6])
                cmds.append("repeat %d %d" % (ln, min(cnt, 2 ** 63 - 1)))
            elif k == "implode":
                n = min(near(la, False), la)
                m = rng.choice([0, 1, 5, ls // max(n, 1), ls // max(n, 1) + 1])
                cmds.append("implode %d %d %d" % (n, min(m, ls), rng.choice([0, 1, 3])))
            elif k == "replace1":
                r = rng.choice([2, 3, 9])
                b = rng.choice([0, 1, ls // r - 1, ls // r, ls // r + 1, ls // (2 * r)])
                a = rng.choice([0, 1, max(0, ls - b * r - 1), max(0, ls - b * r), max(0, ls - b * r + 1)])
                b = max(0, min(b, ls))
                cmds.append("replace1 %d %d %d" % (min(a, max(0, ls - b)), b, r))
            elif k == "replace":
                b = rng.range(1, max(1, ls // 8))
                r = rng.choice([3, 4, 9, 20])
                a = rng.choice([0, 1, ls // 2, max(0, ls - b * r - 1), max(0, ls - b * r), max(0, ls - b * r + 1), max(0, ls - 2 * b)])
                if a + 2 * b > ls:
                    a = max(0, ls - 2 * b)
                cmds.append("replace %d %d %d" % (a, b, r))
            else:
                # (both operands non-empty: sprintf ("%s", "") at the end of the format reads string[-1] - a C01 finding, see notes)
                cmds.append("sprintf %d %d" % (rng.choice([1, ls // 2, ls]), rng.choice([1, ls // 2, ls])))
        return self.sizes_case(cid, lim, cmds, "generated")

    def generate(self, rng, n, tier):
        out = []
        for i in range(n):
            if i % 40 == 39:
                cost = rng.choice([5000, 20000, 50000])
                out.append(self.rx_case("g%d" % i, cost, rng.choice([1, 5, 10, 12, 45, 60, 100, 500]), "generated"))
            elif i % 8 == 7:
                out.append(self.gen_mapseq(rng, "g%d" % i))
            elif i % 2 == 0:
                out.append(self.gen_machine(rng, "g%d" % i))
            else:
                out.append(self.gen_sizes(rng, "g%d" % i))
        return out

    def histogram(self, cases, impl):
        h = {"machine_cases": 0, "sizes_cases": 0, "sz_err": 0, "sz_ok": 0, "ev_ret": 0, "ev_err_cost": 0, "ev_err_stack_or_depth": 0,
             "ev_err_plain": 0, "after_catch": 0, "nested_catch_over_limit": 0}
        # branches of the model's machine taken by the machine cases, and outcome per constructor
        try:
            cov = E.nvdrive(self.id, "cover", E.cases_text([c for c in cases if c.meta.get("kind") == "machine"]))
            br = {}
            for v in cov.values():
                for l in v:
                    br[l[3:]] = br.get(l[3:], 0) + 1
            h["machine_branches"] = dict(sorted(br.items()))
        except Exception as e:  # noqa
            h["machine_branches"] = "cover mode failed: %s" % e
        ctor = {}
        for c in cases:
            if c.meta.get("kind") != "sizes":
                continue
            names = [l.split()[1] for l in c.lines if l.startswith("sz ")]
            outs = [l for l in impl.get(c.id, []) if l.startswith("sz ")]
            for nme, o in zip(names, outs):
                d = ctor.setdefault(nme, {"ok": 0, "err": 0, "zero": 0})
                d["err" if o == "sz err" else "zero" if o == "sz ok -1" else "ok"] += 1
        h["constructor_outcomes"] = dict(sorted(ctor.items()))
        mp = {"absorb_ok": 0, "absorb_err": 0, "insert_ok": 0, "insert_err": 0, "compose_ok": 0, "compose_err": 0}
        for c in cases:
            if c.meta.get("kind") != "mapseq":
                continue
            ops = c.lines[-1].split()[-1].split(",")
            out = [l for l in impl.get(c.id, []) if l.startswith("r ret")]
            if out and '"' in out[0]:
                flags = out[0].split('"')[1].split(":")[0]
                for o, f in zip(ops, flags):
                    mp[("absorb" if o[0] == "a" else "compose" if o[0] == "c" else "insert") + ("_err" if f == "e" else "_ok")] += 1
        h["mapseq_ops"] = mp
        h["loop_opcodes_in_budget_stopped_runs"] = getattr(self, "loop_ops_seen", {})
        for c in cases:
            k = c.meta.get("kind")
            if k == "machine":
                h["machine_cases"] += 1
            elif k == "sizes":
                h["sizes_cases"] += 1
            for l in c.lines:
                if l.startswith("shape ") and "C(C(" in l and any(x in l for x in ("S", "R", "X")):
                    h["nested_catch_over_limit"] += 1
            for l in impl.get(c.id, []):
                if l == "sz err":
                    h["sz_err"] += 1
                elif l.startswith("sz ok"):
                    h["sz_ok"] += 1
                elif l.startswith("r ret"):
                    h["ev_ret"] += 1
                elif l.startswith("r err es=2"):
                    h["ev_err_cost"] += 1
                elif l.startswith("r err es=1"):
                    h["ev_err_stack_or_depth"] += 1
                elif l.startswith("r err"):
                    h["ev_err_plain"] += 1
                elif l.startswith("after-catch"):
                    h["after_catch"] += 1
        return h


PROP = C04()
