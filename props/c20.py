"""C20 - uid/euid change only as the master allows; without euid no object creation."""
import os
import re

from nvlib import engine as E
from nvlib import extract as X
from nvlib.check import Prop

DIRS = ["u1", "u2", "bb", "root", "odd"]
FILES = ["a", "b", "c"]
NAMES = ["u1", "u2", "Backbone", "Root", "NONAME", "zed", "x9", "", "root", "U1"]     # uid names are case sensitive
CF_SPECS = ["s:u1", "s:u2", "s:Backbone", "s:Root", "s:NONAME", "s:zed", "s:", "i:0", "i:7", "i:-1", "arr", "err", "none",
            "s:root", "s:backbone", "s:U1",
            # re-entrancy: the master drops its own euid inside creator_file when it is the creating object
            "drop+s:Backbone", "drop+s:Backbone", "drop+s:Root", "drop+s:u1", "drop+err", "drop+i:0"]
VS_SPECS = [("i:1", 6), ("i:0", 6), ("i:-3", 1), ("s:yes", 1), ("s:", 1), ("arr", 1), ("err", 1), ("none", 2)]


class C20(Prop):
    id = "C20"
    title = "uid/euid change only as the master allows; without euid no object creation"
    lean_modules = ["NV.C20.Props", "NV.C20.Tie", "NV.C20.Negative", "NV.C20.Consequences"]
    theorems = [
        "NV.C20.model_satisfies_spec",
        "NV.C20.euid_changes_only_by_own_approved_seteuid",
        "NV.C20.uid_changes_only_at_creation_or_export",
        "NV.C20.creation_only_as_master_decides",
        "NV.C20.no_euid_no_creation",
        "NV.C20.export_preconditions",
        "NV.C20.seteuid_always_asks_master",
        "NV.C20.no_crash",
        "NV.C20.every_object_has_uid",
        # consequences of the specification for EVERY accepted trace (model and real driver), and their model instances
        "NV.C20.euid_names_granted", "NV.C20.euid_names_granted_from_start", "NV.C20.uid_names_decided",
        "NV.C20.model_euid_names_granted", "NV.C20.model_uid_names_decided",
        # translator ties: the regenerated guards / statements equal what the model does
        "NV.C20.tie_load_guard", "NV.C20.tie_load_no_current", "NV.C20.tie_load_test_first",
        "NV.C20.tie_clone_entry", "NV.C20.tie_clone_retest", "NV.C20.tie_clone_order",
        "NV.C20.tie_export_error", "NV.C20.tie_seteuid_verdict", "NV.C20.tie_seteuid_null_verdict",
        # round 5: inventory of every uid/euid write in the driver; interleaved statement order of the anchor functions
        "NV.C20.tie_uid_writes_governed", "NV.C20.tie_uid_write_inventory", "NV.C20.tie_uid_rules_all_used", "NV.C20.tie_uid_records_never_renamed",
        "NV.C20.tie_load_tail_shape", "NV.C20.tie_clone_shape", "NV.C20.tie_init_object_shape",
        "NV.C20.tie_make_new_name_shape", "NV.C20.tie_destruct_vital_shape", "NV.C20.tie_error_texts",
        # round 6: decision trees (symbolic execution of the C functions) = the model
        "NV.C20.tie_giveuid_tree", "NV.C20.tie_giveuid_tree_premaster", "NV.C20.tie_giveuid_semantics", "NV.C20.tie_seteuid_tree",
        "NV.C20.tie_export_tree", "NV.C20.tie_reload_tree", "NV.C20.tie_set_master_tree", "NV.C20.tie_bind_tree",
        "NV.C20.tie_load_virtual_tree",
        "NV.C20.tie_seteuid_write_dominated", "NV.C20.tie_giveuid_writes_dominated", "NV.C20.tie_export_write_dominated",
        "NV.C20.tie_master_write_dominated", "NV.C20.tie_bind_write_dominated",
        "NV.C20.tie_export_semantics", "NV.C20.tie_seteuid_int_semantics", "NV.C20.tie_seteuid_str_semantics",
        "NV.C20.tie_reload_semantics", "NV.C20.tie_set_master_semantics", "NV.C20.tie_set_master_noroot",
        "NV.C20.tie_premaster_semantics",
    ]
    consts = [("autoTrustBackbone", "NV_AUTO_TRUST_BACKBONE"), ("autoSeteuid", "NV_AUTO_SETEUID"),
              ("tNumber", "T_NUMBER"), ("tString", "T_STRING"), ("msMudlibLimbo", "MS_MUDLIB_LIMBO"),
              ("tObject", "T_OBJECT"), ("oDestructed", "O_DESTRUCTED"), ("oClone", "O_CLONE"), ("oVirtual", "O_VIRTUAL"),
              ("oHeartBeat", "O_HEART_BEAT"), ("fpLocal", "FP_LOCAL"), ("fpNotBindable", "FP_NOT_BINDABLE"),
              ("fpFunctional", "FP_FUNCTIONAL")]
    const_headers = ["lib/efuns/options.h", "lpc/types.h", "lpc/object.h", "lpc/include/function.h", "src/simulate.h"]
    const_prelude = ("#ifdef AUTO_TRUST_BACKBONE\n#define NV_AUTO_TRUST_BACKBONE 1\n#else\n#define NV_AUTO_TRUST_BACKBONE 0\n#endif\n"
                     "#ifdef AUTO_SETEUID\n#define NV_AUTO_SETEUID 1\n#else\n#define NV_AUTO_SETEUID 0\n#endif\n")
    quick_n = 400
    thorough_n = 6000
    search_n = 1500
    design_ref = "5/C20"
    technique = ("Lean 4 proof (invariant + per-segment oracle clauses, induction over histories and over the nesting fuel, all master "
                 "policies as oracle functions) + translator (clang AST -> regenerated guards, DECISION TREES obtained by symbolic "
                 "execution of the C functions, inventory of every uid/euid write in the driver; bridged by Lean lemmas) + "
                 "model/implementation correspondence on the real driver")
    level_text = ("Lean 4 theorems about an executable model of give_uid_to_object, the euid tests of load_object/clone_object "
                  "(master exemption, none for the simul_efun object), inherit-triggered nested loads, master valid_object, f_seteuid, "
                  "f_export_uid, f_getuid/f_geteuid (objects and functions), f_bind (master valid_bind), reload_object and set_master "
                  "(first load with/without get_root_uid()/get_bb_uid(), reload with a changed get_root_uid() answer): for every "
                  "history of load/clone/seteuid/export_uid/destruct/reload_object/function-pointer evaluation/bind() by any objects "
                  "incl. the master and the simul_efun object (also from inside create() of objects under construction, also of "
                  "virtual objects made by master::compile_object, also with a master whose creator_file calls back into itself and "
                  "drops its euid mid-creation) and every master policy the specification oracle judgeEv (10 clauses: known, euid, "
                  "uid, creation, noeuid, export, asked, bind, fp, vo) accepts the model's event trace (model_satisfies_spec); for EVERY "
                  "accepted trace - model or real driver - every euid name was granted by the master and every uid name decided by it "
                  "(euid_names_granted, uid_names_decided); the "
                  "model is tied to the source by 40 regenerated bridging lemmas: path conditions of the euid tests, decision trees "
                  "of give_uid_to_object / f_seteuid / f_export_uid / reload_object / set_master / f_bind / load_virtual_object "
                  "obtained by symbolic execution of their clang AST and proved equal to the model (tie_giveuid_semantics, tie_export_semantics, tie_seteuid_*_semantics, tie_reload_semantics, tie_set_master_semantics, tie_premaster_semantics: for every "
                  "configuration, world, object and master answer), dominance theorems (every uid/euid write on every path is "
                  "preceded by the master apply and verdict it needs), an inventory of EVERY write to object_t.uid/euid in src/ and "
                  "lib/, uid records never renamed after the first master load; and by running the real driver (ASan+UBSan) with a "
                  "policy-switchable logging master (8 variants) and the model on the same generated histories, reaching object "
                  "creation through load_object, clone_object, call_other / tell_room / filter on a file name, bound efun pointers, "
                  "call_out, heart_beat, preload_objects(), mudlib_connect() and inherit; the same oracle judges every "
                  "implementation trace")
    level_note = ("trusted: Lean kernel; extract.py and props/c20_extract.py (clang-14 AST translator incl. the symbolic executor, "
                  "source text scan); the correspondence harness (differential, only the generated histories); master applies are "
                  "oracle functions; a master calling back into ANOTHER creating object during creator_file, shadows and the uid "
                  "AVL tree are outside the model; the loading efuns other than load_object/clone_object and the driver-started "
                  "contexts are compared with (not separately modelled from) the plain ops")
    rule = ("cases = corpus + boundary list + seeded random histories of load (also through call_other / tell_room / filter on a file "
            "name, preload_objects(), an inheriting blueprint)/clone (also through mudlib_connect())/seteuid(string|int)/"
            "export_uid (also onto itself / onto missing objects, chains)/destruct (also of the master = master reload, also after "
            "get_root_uid()/get_bb_uid() changed their answers; of the simul_efun object)/reload_object, directly, from call_out and "
            "heart_beat, from inside create() of objects under construction (acyclic scripts, nesting up to 8), through function "
            "pointers evaluated by other objects, through efun pointers re-bound with bind() (valid_bind verdicts), and on virtual "
            "paths answered by master::compile_object, performed by the master, the simul_efun object and objects under five "
            "directories (loaders whose euid differs from their uid included) whose creator_file answer (own name, other user's "
            "name, backbone uid, root uid, NONAME, empty string, names differing in case, int, array, 0, runtime error, each "
            "optionally after the master dropped its own euid inside the apply), valid_object, valid_seteuid and valid_bind verdicts "
            "(1, 0, other ints, string, array, 0, runtime error) are switched during the case; one case in four under another "
            "configuration (master without get_root_uid / get_bb_uid / valid_bind, simul_efun object as actor); a case is "
            "non-trivial when its trace has >= 2 lines; distinct = distinct canonical implementation trace")
    not_covered = ["the branch of clone_object that re-uses an unreferenced virtual object instead of asking compile_object again (ob->ref == 1) cannot occur with registered objects and is not modelled",
                   "a master apply that calls back into a creating object OTHER than the master (e.g. makes a wizard's object seteuid(0) during creator_file) is not modelled: "
                   "the object would still be created (give_uid_to_object does not re-test); only the master's callback into itself is run and proved",
                   "a master without get_root_uid() is not reloaded in the harness (its uids would come from an unlogged creator_file answer of the old master); "
                   "destruct of the simul_efun object is refused by the driver and only that refusal is compared",
                   "bind() is exercised with efun pointers (find_object(path, 1) / clone_object) only; simul_efun pointers and the "
                   "FP_NOT_BINDABLE refusals are in tie_bind_tree but not run; f_bind copies the reference count of the old pointer (leak, not a uid matter)",
                   "uid records (userid_t, AVL tree, add_uid / uidcmp) are modelled as names: valid because no record is ever renamed after the first master load (tie_uid_records_never_renamed)",
                   "call_other / tell_room / filter on a file name, preload, connect, call_out and heart_beat have no model of their own: they are compared with the plain load / clone / op "
                   "of the same actor (move_object(file name), map with a string object are not exercised)",
                   "inherit: ONE inheriting blueprint (/c20/u1/i inherits /c20/u2/a, depth 1); an unloaded inheriting blueprint is not cloned (harness answers nobj); "
                   "num_objects_this_thread / MaxInheritDepth are not modelled",
                   "shadows, hidden objects, 'Cannot clone from a clone', a cloner destructed while its blueprint loads are not modelled",
                   "load_object leaves a never-created object in the object table when valid_object/creator_file raise (C08 territory); "
                   "the model mirrors it (`half`; the harness cannot destruct such an object), only its uid is repaired by the second fix: commit"]

    def gen_extra(self, ctx, bdir):
        # AUTO_SETEUID is recorded as a constant; the model has no rule for it because the source has none.
        # If code depending on it appears, the model no longer mirrors the source: broken tie.
        hits = []
        for root in ("src", "lib"):
            for dp, _, fns in os.walk(os.path.join(E.REPO, root)):
                for fn in fns:
                    if not fn.endswith((".c", ".h", ".cpp", ".y")):
                        continue
                    p = os.path.join(dp, fn)
                    if p.endswith("lib/efuns/options.h"):
                        continue
                    try:
                        txt = open(p, errors="replace").read()
                    except OSError:
                        continue
                    if re.search(r"\bAUTO_SETEUID\b", txt):
                        hits.append(os.path.relpath(p, E.REPO))
        if hits:
            raise X.TieBroken("option:AUTO_SETEUID", "source now depends on AUTO_SETEUID (not modelled): %s" % hits)
        from props import c20_extract
        tn = X.probe_values(bdir, [("tNumber", "T_NUMBER")], ["lpc/types.h"])["tNumber"]
        return c20_extract.generate(bdir, tn)

    # ---- configurations: which verification master / simul_efun object a case runs under (`cfg` first line) ----
    CFG_FLAGS = ("nobb", "noroot", "novb", "simul")
    MASTER_MACROS = {"nobb": "C20_NO_BB", "noroot": "C20_NO_ROOT", "novb": "C20_NO_VB"}

    @staticmethod
    def cfg_key(case):
        for l in case.lines:
            t = l.split()
            if t and t[0] == "cfg":
                return tuple(f for f in C20.CFG_FLAGS if f in t[1:])
            if t and not l.startswith("#"):
                break
        return ()

    def prepare(self, ctx):
        self.exe = E.compile_harness("c20", [os.path.join(E.VERIF, "harness/c20/c20.c")])
        self.conf = E.make_mudlib(ctx.rundir, master="/c20/master.c")
        base = open(self.conf).read()
        self.confs = {(): self.conf}
        mud = os.path.join(ctx.rundir, "mudlib")
        for n in range(1, 1 << len(self.CFG_FLAGS)):
            key = tuple(f for i, f in enumerate(self.CFG_FLAGS) if n >> i & 1)
            t = base
            mflags = [f for f in key if f in self.MASTER_MACROS]
            if mflags:
                # master variant: the same master with some applies compiled out
                master = "/c20/master_%s.c" % "_".join(mflags)
                with open(os.path.join(mud, master.lstrip("/")), "w") as f:
                    f.write("// C20 verification master variant (cfg %s), written by props/c20.py\n" % " ".join(mflags) +
                            "".join("#define %s\n" % self.MASTER_MACROS[x] for x in mflags) + '#include "/c20/master.c"\n')
                t = t.replace("/c20/master.c", master)
            if "simul" in key:
                t2 = re.sub(r"(?m)^(SimulEfunFile\s+)\S+", r"\g<1>/c20/simul.c", t)
                if t2 == t:
                    raise RuntimeError("base.conf.in has no SimulEfunFile line")
                t = t2
            path = os.path.join(ctx.rundir, "verif-%s.conf" % "-".join(key))
            with open(path, "w") as f:
                f.write(t)
            self.confs[key] = path

    def run_impl(self, ctx, cases):
        groups = {}
        for c in cases:
            groups.setdefault(self.cfg_key(c), []).append(c)
        out = {}
        for key in sorted(groups):
            out.update(E.run_harness(self.exe, self.confs[key], groups[key], ctx.rundir))
        return out

    # efuns that reach load_object through find_or_load_object with the caller as current_object are harness ops of their
    # own (`call,<path>` = call_other on a file name, `calla` = inside an array of targets, `tellroom` = tell_room on a file
    # name); the model knows ONE load: they are compared with (and judged as) its `load` op
    ALIAS = re.compile(r"(?<![A-Za-z0-9_])(?:call|calla|tellroom|filter|preload),(?=/)")
    # `do <oid> later,<op>` / `hb,<op>`: the same op, started by the driver from a call_out / the object's heart_beat
    # (current_object = that object): compared with and judged as the plain op
    DRIVEN = re.compile(r"^(do \S+ )(?:later|hb),")
    CONNECT = re.compile(r"^(do m )connect,")          # mudlib_connect() -> master connect() -> a clone op of the master

    def run_model(self, ctx, cases):
        mapped = [E.Case(c.id, [self.ALIAS.sub("load,", self.CONNECT.sub(r"\1clone,", self.DRIVEN.sub(r"\1", l))) if l.startswith(("do ", "script ")) else l
                                for l in c.lines], c.meta)
                  for c in cases]
        return E.nvdrive(self.id, "model", E.cases_text(mapped))

    def canon(self, lines):
        out = []
        for l in lines:
            l = l.rstrip()
            if l.startswith("do "):
                l = self.ALIAS.sub("load,", self.CONNECT.sub(r"\1clone,", self.DRIVEN.sub(r"\1", l)))
            if not l or l.startswith("sanitizer "):
                continue
            if l.startswith("crash"):
                out.append("crash")
                break
            out.append(l)
        return out

    # ---- generators ------------------------------------------------------
    def boundary(self):
        B = []

        def mk(name, lines):
            B.append(E.Case("b-" + name, lines, {"origin": "boundary"}))
        mk("basic", ["do m load,/c20/u1/a", "do u1a seteuid,s:u1", "do u1a load,/c20/u2/a", "do u1a clone,c1,/c20/u1/b",
                     "do c1 load,/c20/u2/b", "do c1 clone,c2,/c20/u1/b", "do u1a seteuid,i:0", "do u1a load,/c20/u2/b",
                     "do u1a load,/c20/u2/a", "do u1a clone,c3,/c20/u2/a", "do u1a seteuid,i:5"])
        # repaired defect 1: a creator without euid (the master after seteuid(0)) creating a backbone object
        mk("master-noeuid-backbone", ["do m seteuid,i:0", "do m load,/c20/bb/a", "do m clone,c1,/c20/bb/b",
                                      "do bba seteuid,s:x9", "do m seteuid,s:Root", "do m load,/c20/bb/c"])
        # repaired defect 2: creator_file raising an error leaves a loaded object behind
        mk("cf-error-load", ["pol cf u1 err", "do m load,/c20/u1/a", "pol cf u1 s:u1", "do m load,/c20/u1/a",
                             "do u1a seteuid,s:u1", "do u1a load,/c20/u1/b"])
        mk("cf-error-clone", ["pol cf u1 err", "do m clone,c1,/c20/u1/a", "pol cf u1 s:u1", "do m clone,c2,/c20/u1/a",
                              "do m load,/c20/u1/a", "do m clone,c3,/c20/u1/b", "pol cf u1 err", "do m clone,c4,/c20/u1/b",
                              "pol cf u1 s:u1", "do m clone,c5,/c20/u1/b"])
        mk("cf-error-found-by-noeuid", ["pol cf u2 err", "do m load,/c20/u2/a", "do m load,/c20/u1/a", "do u1a load,/c20/u2/a",
                                        "do u1a clone,c1,/c20/u2/a"])
        mk("export", ["do m load,/c20/u1/a", "do m load,/c20/u2/a", "do u2a export,u1a", "do m export,u1a", "do u1a export,m",
                      "do u1a seteuid,s:u1", "do m export,u1a", "do u1a export,u2a", "do u1a export,u1a", "do u1a export,zz",
                      "do u2a seteuid,s:u2", "do u1a export,u2a", "do u2a seteuid,i:0", "do u1a export,u2a"])
        mk("seteuid-verdicts", ["pol vs u1a zed i:0", "pol vs u1a str s:x", "pol vs u1a arr arr", "pol vs u1a err err",
                                "pol vs u1a none none", "pol vs u1a neg i:-3", "do m load,/c20/u1/a", "do u1a seteuid,s:zed",
                                "do u1a seteuid,s:str", "do u1a seteuid,s:arr", "do u1a seteuid,s:err", "do u1a seteuid,s:none",
                                "do u1a seteuid,s:neg", "do u1a seteuid,s:", "do u1a seteuid,s:other", "do u1a seteuid,i:0",
                                "pol vs * * i:0", "do u1a seteuid,s:u1", "do m seteuid,s:u1", "pol vs m * i:1", "do m seteuid,s:u1"])
        mk("backbone", ["do m load,/c20/bb/a", "do bba clone,c1,/c20/bb/b", "do bba seteuid,s:u1", "do bba clone,c2,/c20/bb/b",
                        "do bba load,/c20/u1/a", "do bba load,/c20/bb/c", "do bba seteuid,i:0", "do bba clone,c3,/c20/bb/b",
                        "pol cf u2 s:Backbone", "do c2 load,/c20/u2/a", "do c2 seteuid,s:Backbone", "do c2 load,/c20/u2/b",
                        "do c2 load,/c20/bb/a"])
        mk("same-uid-rule", ["do m load,/c20/root/a", "do m load,/c20/u1/a", "do u1a seteuid,s:zed", "do u1a load,/c20/u1/b",
                             "pol cf u2 s:u1", "do u1a load,/c20/u2/a", "pol cf bb s:u1", "do u1a load,/c20/bb/a",
                             "pol cf bb s:Backbone", "pol vs u1a Backbone i:1", "do m export,u1b", "do u1b seteuid,s:Backbone",
                             "do u1b load,/c20/bb/b"])
        mk("odd-answers", ["do m load,/c20/odd/a", "pol cf odd s:", "do m load,/c20/odd/b", "pol cf odd i:7", "do m load,/c20/odd/c",
                           "pol cf u1 arr", "do m load,/c20/u1/a", "pol cf u1 none", "do m clone,c1,/c20/u1/b",
                           "pol cf u2 s:NONAME", "do odda seteuid,s:NONAME", "do odda load,/c20/u2/a", "do oddb seteuid,s:",
                           "do oddb load,/c20/odd/a", "pol cf u2 s:", "do oddb load,/c20/u2/b"])
        mk("reload-after-destruct", ["do m load,/c20/u1/a", "do u1a seteuid,s:u1", "do u1a clone,c1,/c20/u1/a", "do m dest,u1a",
                                     "do u1a seteuid,i:0", "pol cf u1 s:zed", "do m load,/c20/u1/a", "do c1 seteuid,s:u1",
                                     "do c1 clone,c2,/c20/u1/a", "do c1 dest,c1", "do c1 seteuid,s:u1", "do m dest,c1",
                                     "do m dest,m", "do m load,/c20/u1/nofile", "do m clone,c9,/c20/u1/nofile",
                                     "do m clone,m,/c20/u1/a", "do m clone,u1b,/c20/u1/a"])
        mk("reload-object", ["do m load,/c20/u1/a", "do u1a seteuid,s:u1", "do m clone,c1,/c20/u1/a", "do c1 seteuid,s:zed",
                             "do u1a reload,c1", "do c1 reload,u1a", "do u1a load,/c20/u1/b", "do m reload,m", "do m reload,zz",
                             "do m export,c1", "do m reload,c1"])
        # ---- nested creation: ops run by create() of an object that is itself being loaded / cloned -------------
        # the class of the round-2 breaking change: B is loaded by A, gets euid 0, and its create() tries to load C
        mk("nested-noeuid-load", ["script /c20/u2/a load,/c20/u2/b;clone,c1,/c20/u2/c;load,/c20/u1/a",
                                  "do m load,/c20/u1/a", "do u1a seteuid,s:u1", "do u1a load,/c20/u2/a",
                                  "do u2a load,/c20/u2/b", "do m load,/c20/u2/b"])
        mk("nested-noeuid-clone-script", ["script /c20/u2/a# load,/c20/u2/b;clone,c2,/c20/u2/c",
                                          "do m clone,c1,/c20/u2/a", "do c1 load,/c20/u2/b"])
        mk("nested-seteuid-then-load", ["script /c20/u2/a seteuid,s:u2;load,/c20/u2/b;seteuid,i:0;load,/c20/u2/c",
                                        "script /c20/u2/b load,/c20/u1/c", "do m load,/c20/u1/a", "do u1a seteuid,s:u1",
                                        "do u1a load,/c20/u2/a"])
        mk("nested-refused-seteuid", ["pol vs u2a * i:0", "script /c20/u2/a seteuid,s:u2;load,/c20/u2/b;clone,c1,/c20/u2/b",
                                      "do m load,/c20/u2/a", "pol vs u2a * err", "do m reload,u2a"])
        mk("nested-depth3", ["script /c20/u1/a seteuid,s:u1;load,/c20/u1/b", "script /c20/u1/b load,/c20/u1/c;seteuid,s:zed;load,/c20/u1/c",
                             "script /c20/u1/c load,/c20/u2/a;seteuid,s:u1;clone,c1,/c20/u2/a", "script /c20/u2/a# load,/c20/u2/b",
                             "do m load,/c20/u1/a"])
        mk("nested-backbone", ["script /c20/bb/a load,/c20/bb/b;load,/c20/u1/a", "script /c20/bb/b clone,c1,/c20/u1/b;seteuid,i:0;load,/c20/bb/c",
                               "script /c20/u1/b# seteuid,s:zed;export,bba;load,/c20/u2/a", "do m load,/c20/bb/a",
                               "do m load,/c20/u2/a", "do m load,/c20/u1/a"])
        mk("nested-master-noeuid", ["script /c20/bb/a load,/c20/bb/b", "script /c20/u1/a load,/c20/u1/b", "do m seteuid,i:0",
                                    "do m load,/c20/bb/a", "do m load,/c20/u1/a", "do m clone,c1,/c20/bb/a"])
        mk("nested-same-uid", ["script /c20/u1/b load,/c20/u1/c;clone,c1,/c20/u1/c", "do m load,/c20/u1/a", "do u1a seteuid,s:u1",
                               "do u1a load,/c20/u1/b", "do u1b load,/c20/u1/c"])
        mk("nested-errors", ["script /c20/u1/a seteuid,s:u1;load,/c20/u1/b;load,/c20/u1/nofile;clone,c1,/c20/u1/nofile;seteuid,i:3;load,/c20/u1/b;clone,c2,/c20/u1/c;clone,c3,/c20/u1/c",
                             "script /c20/u1/c# seteuid,s:err;load,/c20/u2/a", "pol cf u1 s:u1", "pol vs * err err",
                             "do m load,/c20/u1/a", "pol cf u1 err", "do m dest,u1a", "do m load,/c20/u1/a",
                             "pol cf u1 s:u1", "do m load,/c20/u1/a", "do m load,/c20/u1/b"])
        mk("nested-cf-error-inside", ["script /c20/u1/a seteuid,s:u1;load,/c20/u2/a;load,/c20/u2/a;clone,c1,/c20/u2/b;clone,c2,/c20/u2/b",
                                      "pol cf u2 err", "do m load,/c20/u1/a"])
        mk("nested-export", ["script /c20/u2/a export,u1a;seteuid,s:u2;export,u1a;export,u2a;export,m",
                             "script /c20/u2/b seteuid,s:x9;export,m;export,u2a", "do m load,/c20/u1/a",
                             "do m load,/c20/u2/a", "do m seteuid,i:0", "do m load,/c20/u2/b"])
        mk("nested-refused-ops", ["script /c20/u1/a seteuid,s:u1;dest,u1a;reload,u1a;dest,m;dest,zz;reload,zz", "do m load,/c20/u1/a",
                                  "do m reload,u1a", "do m clone,c1,/c20/u1/a"])
        mk("nested-oid-taken", ["script /c20/u1/a seteuid,s:u1;clone,c1,/c20/u2/a", "script /c20/u2/a# seteuid,s:u2",
                                "do m clone,c1,/c20/u1/a", "do c1 load,/c20/u2/b", "do m clone,c1,/c20/u1/b"])
        mk("nested-reload-reruns", ["script /c20/u1/a seteuid,s:u1;clone,c1,/c20/u1/b", "do m load,/c20/u1/a", "do m reload,u1a",
                                    "script /c20/u1/a -", "do m reload,u1a", "script /c20/u1/a load,/c20/u1/c", "do m reload,u1a"])
        # ---- virtual objects (master::compile_object clones a template; the driver renames the clone) ------------
        mk("virtual-load-clone", ["pol co u1 t:/c20/u2/a", "do m load,/c20/u1/a", "do m load,/c20/u1/v1", "do m load,/c20/u1/v1",
                                  "do u1a load,/c20/u1/v1", "do u1a load,/c20/u1/v2", "do u1a clone,c1,/c20/u1/v1",
                                  "do u1a seteuid,s:u1", "do u1a clone,c1,/c20/u1/v1", "do u1a clone,c2,/c20/u1/v3",
                                  "do u1a load,/c20/u2/v1", "pol co u2 i:7", "do u1a load,/c20/u2/v1", "pol co u2 err",
                                  "do u1a load,/c20/u2/v1", "do u1a clone,c3,/c20/u2/v1", "pol co u2 none", "do u1a clone,c3,/c20/u2/v1",
                                  "do m dest,v1", "do m load,/c20/u1/v1", "do m reload,v2", "pol co u1 -", "do m clone,c4,/c20/u1/v1",
                                  "do m load,/c20/u1/v9"])
        # the class of the round-3 breaking change: an euid-0 object clones an already loaded virtual object
        mk("virtual-clone-noeuid", ["pol co u1 t:/c20/u2/a", "do m load,/c20/u1/v1", "do m load,/c20/u1/a",
                                    "do u1a clone,c1,/c20/u1/v1", "do u1a load,/c20/u1/v1", "do u1a clone,c1,/c20/u1/v2",
                                    "do v1 clone,c2,/c20/u1/v1", "do v1 seteuid,s:x9", "do v1 clone,c2,/c20/u1/v1"])
        mk("virtual-template-scripts", ["script /c20/u2/a# seteuid,s:u2;load,/c20/u2/b;clone,c1,/c20/u2/c",
                                        "script /c20/u2/b load,/c20/root/v3", "pol co u1 t:/c20/u2/a", "pol co root t:/c20/root/a", "pol cf u2 s:Root",
                                        "do m load,/c20/u1/v1", "pol cf u2 s:Backbone", "do m clone,c5,/c20/u1/v1",
                                        "do m seteuid,i:0", "do m load,/c20/u1/v4"])
        mk("virtual-bad-template", ["pol co u1 t:/c20/u2/nofile", "do m load,/c20/u1/v1", "pol co u1 t:/c20/odd/v2", "do m load,/c20/u1/v1", "pol co odd t:/c20/odd/a", "do m load,/c20/u1/v1",
                                    "pol co u1 t:/c20/u2/a", "pol cf u2 err", "do m load,/c20/u1/v1", "do m clone,v4,/c20/u2/b",
                                    "pol cf u2 s:u2", "do m load,/c20/u1/v1", "do m load,/c20/u1/v1", "do m clone,c1,/c20/u1/v1"])
        # repaired defect 3: the blueprint's create() makes the cloner lose its euid (reload_object) before the clone is made
        mk("clone-toctou-reload", ["script /c20/u2/a reload,u1a", "do m load,/c20/u1/a", "do u1a seteuid,s:u1",
                                   "do u1a clone,c1,/c20/u2/a", "do u1a seteuid,s:u1", "do u1a clone,c1,/c20/u2/a"])
        mk("clone-toctou-virtual", ["script /c20/u2/a# reload,u1a", "pol co u1 t:/c20/u2/a", "do m load,/c20/u1/a", "do u1a seteuid,s:u1",
                                    "do u1a clone,c1,/c20/u1/v1", "do u1a seteuid,s:u1", "do u1a clone,c1,/c20/u1/v1"])
        mk("nested-reload", ["script /c20/u1/a seteuid,s:u1;reload,u2a;reload,u1a;reload,m;load,/c20/u2/b", "script /c20/u2/b reload,u1a;reload,u2a",
                             "do m load,/c20/u2/a", "do u2a seteuid,s:u2", "do m load,/c20/u1/a"])
        # ---- round 4: reload of the master, function pointers evaluated by other objects -----------------------------
        mk("master-reload", ["pol cf u1 s:zed", "pol vs m * i:1", "do m load,/c20/u1/a", "do u1a dest,m", "do m seteuid,s:x9",
                             "do m seteuid,i:0", "do u1a seteuid,s:u1", "do u1a dest,m", "do u1a load,/c20/u1/b", "do m seteuid,i:0",
                             "do m dest,m", "do m load,/c20/u1/c", "do m export,u1c", "do u1c dest,m", "do zz dest,m"])
        mk("master-reload-nested", ["script /c20/u1/a seteuid,s:u1;dest,m", "do m seteuid,i:0", "do m load,/c20/u1/a", "do u1a dest,m"])
        mk("funptr-owner-euid", ["do m load,/c20/u1/a", "do m load,/c20/u2/a", "do u1a seteuid,s:u1", "do u2a via,u1a,load,/c20/u1/b",
                                 "do u1a via,u2a,load,/c20/u1/c", "do u1a via,u2a,clone,c1,/c20/u1/b", "do u1a via,u2a,seteuid,s:zed",
                                 "do u1a via,zz,seteuid,s:zed", "do u2a via,u1a,via,u2a,clone,c1,/c20/u1/b",
                                 "do u2a via,u1a,export,u1b", "do m via,u1a,seteuid,i:0", "do m via,u1a,dest,u1b", "do u2a via,m,dest,m",
                                 "do u1a via,m,load,/c20/bb/a"])
        mk("funptr-in-create", ["script /c20/u2/a via,u1a,load,/c20/u2/b;via,u2a,load,/c20/u2/c;load,/c20/u2/c",
                                "do m load,/c20/u1/a", "do u1a seteuid,s:u1", "do u1a load,/c20/u2/a"])
        # ---- round 5: re-entrancy - creator_file makes the creating object (the master) seteuid(0) before it answers; the
        # backbone rule then sees NO creator euid (a cached value would hand the old euid to the new object)
        mk("cf-drop-master", ["pol cf bb drop+s:Backbone", "do m load,/c20/bb/a", "pol vs m * i:1", "do m seteuid,s:Root",
                              "do m clone,c1,/c20/bb/b", "do m seteuid,s:zed", "pol cf root drop+s:Root", "do m load,/c20/root/a",
                              "do m seteuid,s:Root", "pol cf u1 drop+err", "do m load,/c20/u1/a", "do m load,/c20/u1/a",
                              "do m seteuid,s:Root", "pol cf u1 drop+s:u1", "do m clone,c2,/c20/u1/b"])
        mk("cf-drop-other-creators", ["pol cf bb drop+s:Backbone", "do m load,/c20/u1/a", "do u1a seteuid,s:u1", "do u1a load,/c20/bb/a",
                                      "do u1a via,m,load,/c20/bb/b", "pol co u2 t:/c20/bb/c", "do u1a load,/c20/u2/v1",
                                      "script /c20/bb/c# load,/c20/bb/c", "do m seteuid,s:Root", "do u1a clone,c1,/c20/u2/v2",
                                      "do m dest,m", "do m load,/c20/bb/c"])
        mk("cf-drop-noroot-simul", ["cfg noroot simul", "pol cf bb drop+s:Backbone", "pol vs m * i:1", "do m seteuid,s:Backbone",
                                    "do m load,/c20/bb/a", "do se seteuid,s:zed", "do se load,/c20/bb/b", "do m seteuid,s:x9",
                                    "do se via,m,clone,c1,/c20/bb/b"])
        # uid names are case sensitive and compared as whole strings: "root" is not "Root", "backbone" gives no euid
        mk("uid-name-case", ["pol cf u1 s:root", "pol cf u2 s:backbone", "pol cf odd s:U1", "do m load,/c20/u1/a", "do m load,/c20/u2/a",
                             "do m load,/c20/odd/a", "do u1a seteuid,s:Root", "do u1a load,/c20/u1/b", "do u1a load,/c20/root/a",
                             "do u2a seteuid,s:backbone", "do u2a load,/c20/bb/a", "do u2a load,/c20/u2/b", "do odda seteuid,s:u1",
                             "pol cf u1 s:u1", "do odda load,/c20/u1/c", "do odda export,u1b", "do m seteuid,s:root", "do m load,/c20/root/b"])
        # reload_object(master()) is open to everybody: the master's euid is reset to 0 (it stays exempt from the euid tests)
        mk("reload-master", ["do m load,/c20/u1/a", "do u1a reload,m", "do m load,/c20/bb/a", "pol vs m * i:1", "do m seteuid,s:Root",
                             "do m reload,m", "do m clone,c1,/c20/bb/b", "script /c20/master seteuid,s:zed;load,/c20/u1/b", "do u1a reload,m",
                             "script /c20/u2/a reload,m", "do m load,/c20/u2/a", "script /c20/master -", "do m load,/c20/u2/b",
                             "do u1a later,reload,m", "do m dest,m", "do u1a reload,m"])
        # ---- round 6: inherit - /c20/u1/i.c inherits /c20/u2/a: load_object loads the inherited file first (same current_object: euid test,
        # valid_object, creator_file, create() of its own) and then starts again (test repeated)
        mk("inherit", ["do m load,/c20/u1/a", "do u1a load,/c20/u1/i", "do u1a seteuid,s:u1", "do u1a load,/c20/u1/i", "do u1a load,/c20/u1/i",
                       "do m dest,u1i", "do m clone,c1,/c20/u1/i", "do m load,/c20/u1/i", "do m clone,c1,/c20/u1/i", "do m dest,u1i",
                       "do m dest,u2a", "pol cf u2 err", "do u1a load,/c20/u1/i", "pol cf u2 s:u2", "do u1a call,/c20/u1/i",
                       "do m dest,u1i", "do m dest,u2a", "pol vo u2 i:0", "do u1a load,/c20/u1/i", "pol vo u2 -",
                       "script /c20/u2/a reload,u1a", "do u1a seteuid,s:u1", "do u1a load,/c20/u1/i", "do u1a seteuid,s:u1",
                       "do u1a load,/c20/u1/i", "do m dest,u1i", "do m dest,u2a", "script /c20/u2/a load,/c20/u1/i",
                       "do m load,/c20/u1/i", "script /c20/u1/i seteuid,s:zed;load,/c20/bb/a", "do m dest,u1i", "do m dest,u2a",
                       "script /c20/u2/a -", "do m hb,load,/c20/u1/i", "pol co odd t:/c20/u1/i", "do m load,/c20/odd/v1"])
        # the inherited file's create() makes the loader lose its euid: the restarted load_object of the inheriting file must refuse
        mk("inherit-loader-loses-euid", ["script /c20/u2/a reload,u1a", "do m load,/c20/u1/a", "do u1a seteuid,s:u1", "do u1a load,/c20/u1/i",
                                         "do u1a seteuid,s:u1", "do u1a load,/c20/u1/i"])
        mk("inherit-parent-aborted", ["do m load,/c20/u1/a", "do u1a seteuid,s:u1", "pol cf u2 err", "do u1a load,/c20/u1/i",
                                      "pol cf u2 s:u2", "do u1a load,/c20/u1/i", "do u1a load,/c20/u2/a"])
        mk("inherit-parent-refused", ["do m load,/c20/u1/a", "do u1a seteuid,s:u1", "pol vo u2 i:0", "do u1a load,/c20/u1/i", "pol vo u2 err",
                                      "do u1a load,/c20/u1/i", "pol vo u2 i:1", "do u1a load,/c20/u1/i", "pol vo u1 i:0", "do m dest,u1i",
                                      "do u1a load,/c20/u1/i"])
        # ---- round 6: master::valid_object - asked about every new blueprint before creator_file; refusal destructs it again
        mk("valid-object", ["pol vo u1 i:0", "do m load,/c20/u1/a", "do m clone,c1,/c20/u1/a", "pol vo u1 i:1", "do m load,/c20/u1/a",
                            "do m clone,c1,/c20/u1/b", "pol vo u2 err", "do m load,/c20/u2/a", "do m load,/c20/u2/a", "pol vo u2 s:ok",
                            "do m load,/c20/u2/b", "pol vo u2 arr", "do m clone,c2,/c20/u2/c", "pol vo bb none", "do m load,/c20/bb/a",
                            "pol vo bb -", "do m load,/c20/bb/a", "pol vo odd i:-1", "pol cf odd drop+s:Backbone", "do m load,/c20/odd/a",
                            "script /c20/root/a load,/c20/root/b", "pol vo root i:0", "do m load,/c20/root/a", "pol co u1 t:/c20/root/c",
                            "do m load,/c20/u1/v1", "do u1a call,/c20/root/c", "do u1a seteuid,s:u1", "do u1a filter,/c20/root/c"])
        # ---- round 6: loaders whose euid differs from their uid (master-approved foreign seteuid) - every creation rule, for load,
        # clone and virtual objects (the class of the independently written change C20-5: backbone objects get the loader's EUID)
        mk("foreign-euid-loader", ["do m load,/c20/root/a", "do roota seteuid,s:zed", "do roota load,/c20/bb/a", "do roota clone,c1,/c20/bb/b",
                                   "do roota load,/c20/root/b", "do roota clone,c2,/c20/root/b", "do roota load,/c20/u1/a",
                                   "pol cf u2 s:zed", "do roota load,/c20/u2/a", "do roota clone,c3,/c20/u2/b",
                                   "pol co odd t:/c20/bb/c", "do roota load,/c20/odd/v1", "do roota clone,c4,/c20/odd/v1",
                                   "do c1 seteuid,s:zed", "do c1 seteuid,s:Root", "do bba clone,c5,/c20/bb/b", "do bba seteuid,s:x9",
                                   "do bba clone,c6,/c20/bb/b", "do c6 load,/c20/root/c"])
        # export_uid chains: a uid travels A -> B -> C only through euids that the master approved on the way
        mk("export-chain", ["do m load,/c20/u1/a", "do m load,/c20/u2/a", "do m load,/c20/odd/a", "do u1a seteuid,s:zed",
                            "do u1a export,u2a", "do u2a export,odda", "do u2a seteuid,s:zed", "do u2a export,odda",
                            "do odda seteuid,s:x9", "do u2a export,odda", "do odda export,u1a", "do odda seteuid,i:0",
                            "do u1a export,odda", "pol vs u2a * i:0", "do u2a seteuid,i:0", "do u2a seteuid,s:zed", "do odda export,u2a",
                            "do odda seteuid,s:zed", "do odda export,u2a", "do u2a export,u2a"])
        # geteuid(function) / bind() with foreign owners: the pointer's owner (new owner) has an euid that is not its uid
        mk("funptr-foreign-owner", ["do m load,/c20/u1/a", "do m load,/c20/u2/a", "do u1a seteuid,s:zed", "do u2a via,u1a,load,/c20/bb/a",
                                    "do u2a bind,u1a,clone,c1,/c20/bb/b", "do u2a via,u1a,seteuid,s:Root", "do u2a via,u1a,export,u2a",
                                    "do u2a bind,u1a,load,/c20/root/a", "do u2a via,u1a,seteuid,i:0", "do u2a bind,u1a,load,/c20/root/b",
                                    "do u2a via,u1a,via,u2a,seteuid,s:U1", "do u1a bind,u2a,clone,c2,/c20/u2/b"])
        # driver-started contexts: the op runs from a call_out / from the actor's heart_beat (no caller, current_object = actor)
        mk("driver-started", ["do m load,/c20/u1/a", "do u1a later,load,/c20/u1/b", "do u1a hb,clone,c1,/c20/u1/b", "do u1a later,seteuid,s:u1",
                              "do u1a hb,load,/c20/u1/b", "do u1a later,clone,c1,/c20/bb/a", "do m hb,load,/c20/bb/b", "do m later,dest,m",
                              "do zz later,load,/c20/u1/c", "do u1a hb,export,u1b", "do u1b later,via,u1a,load,/c20/u2/a",
                              "do u1b hb,bind,u1a,load,/c20/u2/b", "script /c20/u2/c load,/c20/odd/a", "do u1a later,load,/c20/u2/c",
                              "do u1a hb,reload,u1b", "do u1b hb,call,/c20/root/a", "do m preload,/c20/root/b", "do m preload,/c20/root/b",
                              "do m preload,/c20/zz/nofile", "pol cf bb err", "do m preload,/c20/bb/c", "do u1a filter,/c20/odd/b",
                              "do m filter,/c20/odd/b", "do m seteuid,i:0", "do m preload,/c20/odd/c",
                              "do m connect,c7,/c20/u1/a", "do m connect,c7,/c20/u1/a", "pol cf u1 err", "do m connect,c8,/c20/u1/a",
                              "do m connect,m,/c20/u1/a", "do m connect,c9,/c20/zz/nofile"])
        # ---- round 5: the other efuns that load an object by name for their caller
        mk("load-by-other-efuns", ["do m load,/c20/u1/a", "do u1a call,/c20/u1/b", "do u1a calla,/c20/u1/b", "do u1a tellroom,/c20/u1/b",
                                   "do u1a seteuid,s:u1", "do u1a call,/c20/u1/b", "do u1a calla,/c20/u1/c", "do u1a tellroom,/c20/u2/a",
                                   "do u1a call,/c20/u1/nofile", "do u1a calla,/c20/u1/nofile", "do u1a tellroom,/c20/u1/nofile",
                                   "pol cf u2 err", "do u1a call,/c20/u2/b", "do u1a calla,/c20/u2/b", "pol co odd t:/c20/u2/c",
                                   "pol cf u2 s:u2", "do u1a tellroom,/c20/odd/v1", "do u2a call,/c20/odd/v2",
                                   "script /c20/bb/a call,/c20/bb/b;calla,/c20/u1/c", "do u2a via,u1a,call,/c20/bb/a",
                                   "do u2a call,/c20/bb/c"])
        # ---- round 5: a reloaded master announces ANOTHER root uid (and backbone uid): it gets that uid through add_uid, the uid
        # record of the first root uid is not renamed - every object created before keeps its uid / euid names
        mk("master-reload-other-root", ["do m load,/c20/root/a", "do m load,/c20/bb/a", "do roota seteuid,s:Root", "pol vs * * i:1",
                                        "do m load,/c20/u1/a", "do u1a seteuid,s:Root", "pol root zed", "pol bb u1", "do u1a dest,m",
                                        "do m load,/c20/root/b", "do m load,/c20/bb/b", "do roota load,/c20/root/c",
                                        "pol root u1", "do m dest,m", "do m load,/c20/u1/b", "pol root Root", "do roota dest,m",
                                        "do m clone,c1,/c20/root/a", "pol root Backbone", "do m dest,m", "do m load,/c20/bb/c"])
        mk("master-reload-other-root-simul", ["cfg simul nobb", "pol root NONAME", "do m load,/c20/root/a", "do m dest,m",
                                              "do m load,/c20/odd/a", "do m export,se", "pol root x9", "do m dest,m", "do m export,roota"])
        # ---- round 5: bind() - an efun pointer made by one object is re-bound to another (master valid_bind) and then
        # creates with the NEW owner as current_object
        mk("bind", ["do m load,/c20/u1/a", "do m load,/c20/u2/a", "do u1a seteuid,s:u1", "do u2a bind,u1a,load,/c20/u1/b",
                    "pol vb u2a * i:0", "do u2a bind,u1a,load,/c20/u1/c", "pol vb u2a u1a err", "do u2a bind,u1a,clone,c1,/c20/u1/b",
                    "pol vb * * i:1", "do u1a bind,u2a,load,/c20/u2/b", "do u1a bind,u1a,clone,c2,/c20/u1/b",
                    "pol vb u1a u1a i:0", "do u1a bind,u1a,clone,c4,/c20/u1/b", "do u1a bind,zz,load,/c20/u1/c",
                    "do u1a bind,u2a,seteuid,s:x9", "pol vb u1a m s:yes", "do u1a bind,m,load,/c20/bb/a", "pol vb * * arr",
                    "do u2a bind,m,clone,c3,/c20/bb/b", "pol vb * * none", "do u2a bind,m,load,/c20/bb/c",
                    "do zz bind,m,load,/c20/bb/c", "do u2a via,u1a,bind,m,load,/c20/bb/c", "pol vb u1a * i:-2",
                    "do u2a via,u1a,bind,m,load,/c20/bb/c", "do u2a bind,u1a,load,/c20/u1/nofile"])
        mk("bind-nested", ["script /c20/u2/a bind,u1a,load,/c20/u2/b;bind,m,clone,c1,/c20/u2/b;load,/c20/u2/c",
                           "script /c20/u2/b bind,u2a,load,/c20/u2/c", "pol vb u2a m i:0", "do m load,/c20/u1/a", "do u1a seteuid,s:u1",
                           "do u1a load,/c20/u2/a", "pol co u1 t:/c20/u2/c", "do u2a bind,u1a,load,/c20/u1/v1",
                           "do u2a bind,u1a,clone,c5,/c20/u1/v1", "pol cf bb drop+s:Backbone", "do u2a bind,m,load,/c20/bb/a"])
        mk("bind-simul", ["cfg simul noroot", "do se bind,m,load,/c20/u1/a", "do m bind,se,load,/c20/u1/b", "do se seteuid,s:zed",
                          "do m bind,se,load,/c20/u1/b", "pol vb se * i:0", "do se bind,m,clone,c1,/c20/u1/a"])
        # master without valid_bind(): apply_master_ob returns NULL = refusal; binding to oneself still needs nobody
        mk("bind-novb", ["cfg novb", "do m load,/c20/u1/a", "do m load,/c20/u2/a", "do u1a seteuid,s:u1", "do u2a bind,u1a,load,/c20/u1/b",
                         "do u1a bind,u1a,load,/c20/u1/b", "do u1a bind,m,clone,c1,/c20/u1/b", "do m bind,u1a,clone,c2,/c20/u1/b"])
        # ---- round 5: other configurations of the mudlib (first line `cfg ...`) ---------------------------------------
        # master without get_bb_uid(): set_master sets no backbone uid, a "Backbone" answer is an ordinary name
        mk("cfg-nobb", ["cfg nobb", "do m load,/c20/bb/a", "do bba seteuid,s:u1", "do bba clone,c1,/c20/bb/b", "pol cf u1 s:Backbone",
                        "do bba load,/c20/u1/a", "do bba seteuid,s:Backbone", "do bba load,/c20/bb/c", "do m dest,m", "do m load,/c20/bb/b"])
        # master without get_root_uid(): it keeps "NONAME" / 0 from before the master existed, is still exempt from the tests
        mk("cfg-noroot", ["cfg noroot", "do m load,/c20/u1/a", "do m load,/c20/bb/a", "do m clone,c1,/c20/odd/a", "do m export,u1a",
                          "pol vs m * i:1", "do m seteuid,s:Root", "do m load,/c20/bb/b", "do m export,u1a", "do m seteuid,i:0",
                          "do u1a seteuid,s:u1", "do u1a dest,m", "do m dest,m", "do m load,/c20/bb/c", "pol cf u2 s:NONAME",
                          "do m load,/c20/u2/a"])
        mk("cfg-nobb-noroot", ["cfg nobb noroot", "do m load,/c20/bb/a", "do m seteuid,s:Backbone", "do m load,/c20/bb/b",
                               "do bbb seteuid,s:x9", "do bbb clone,c1,/c20/bb/c", "do m dest,m"])
        # the simul_efun object as actor: "NONAME" / 0 from before the master existed, no exemption in load / clone
        mk("cfg-simul", ["cfg simul", "do se load,/c20/u1/a", "do se clone,c1,/c20/u1/a", "do m load,/c20/u2/a", "do se load,/c20/u2/a",
                         "do se export,u2a", "do se seteuid,s:u1", "do se load,/c20/u1/a", "do se clone,c1,/c20/u1/b",
                         "do se export,u2a", "do se seteuid,i:0", "do m export,se", "do se seteuid,s:zed", "do m export,se",
                         "do m dest,se", "do se dest,se", "do u1a dest,se", "do m reload,se", "do se load,/c20/u1/c",
                         "do se seteuid,s:x9", "do u1a via,se,load,/c20/u1/c", "do se via,u1a,load,/c20/bb/a",
                         "do se clone,se,/c20/u1/a", "do m clone,se,/c20/u1/a", "do se load,/c20/odd/a", "do se load,/c20/bb/a",
                         "do se dest,m", "do se seteuid,i:0", "do se dest,m"])
        mk("cfg-simul-script", ["cfg simul", "script /c20/simul seteuid,s:zed;load,/c20/u2/a;dest,se;reload,se",
                                "script /c20/u2/a reload,se;export,se", "do m reload,se", "do se reload,se", "do m load,/c20/u2/b",
                                "pol vs se * i:0", "do u2b reload,se"])
        mk("cfg-all", ["cfg nobb noroot simul", "do se seteuid,s:Backbone", "do se load,/c20/bb/a", "do m load,/c20/bb/b",
                       "do bba export,se", "do se export,m", "do m dest,m", "do se dest,m", "pol cf odd i:0", "do m load,/c20/odd/a",
                       "do se seteuid,i:0", "do se load,/c20/odd/b"])
        return B

    def gen_scripts(self, rng):
        """create() scripts over a chain of file names; a script only refers to names later in the chain or to
        names without a script, so nesting is acyclic and at most 2 * len(chain) deep"""
        all_paths = ["/c20/%s/%s" % (d, f) for d in DIRS for f in FILES]
        chain = rng.shuffle(all_paths)[:rng.range(2, 4)]
        keys = []
        for p in chain:
            keys.append(p)
            if rng.chance(1, 2):
                keys.append(p + "#")
        lines = []
        nclone = [80]
        for i, k in enumerate(keys):
            later = [q for q in keys[i + 1:]]
            later_paths = sorted(set(q.rstrip("#") for q in later if q.rstrip("#") != k.rstrip("#")))
            free = [q for q in all_paths if q not in chain]
            ops = []
            for _ in range(rng.range(1, 4)):
                kind = rng.weighted([("load", 8), ("clone", 5), ("seteuid", 6), ("seteuid0", 1), ("export", 2), ("bad", 1)])
                tgt = rng.choice(later_paths) if later_paths and rng.chance(2, 3) else rng.choice(free)
                if kind == "load":
                    ops.append("%s,%s" % (rng.weighted([("load", 6), ("call", 1), ("calla", 1), ("tellroom", 1), ("filter", 1)]), tgt))
                elif kind == "clone":
                    nclone[0] += 1
                    ops.append("clone,c%d,%s" % (nclone[0], tgt))
                elif kind == "seteuid":
                    ops.append("seteuid,s:%s" % rng.choice(NAMES))
                elif kind == "seteuid0":
                    ops.append("seteuid,i:0")
                elif kind == "export":
                    ops.append("export,%s" % rng.choice(["m", "c1", "c2", "u1a", "u2a", "bba"]))
                else:
                    ops.append(rng.choice(["dest,m", "reload,u1a", "reload,u2a", "reload,c1", "reload,bba", "load,/c20/zz/nofile",
                                           "seteuid,i:7", "dest,u1a"]))
            lines.append("script %s %s" % (k, ";".join(ops)))
        return lines, chain

    def gen_case(self, rng, cid):
        """history generator; a rough shadow state (which ids exist, which probably have an euid) keeps most
        operations effective - it only steers choices, the expected behaviour always comes from the model"""
        lines = []
        objs = {"m": True}            # oid -> probably has an euid
        # one case in four runs under another configuration (master variants, simul_efun object as actor `se`)
        if rng.chance(1, 4):
            flags = [f for f in self.CFG_FLAGS if rng.chance(1, 2)] or [rng.choice(list(self.CFG_FLAGS))]
            lines.append("cfg " + " ".join(flags))
            if "simul" in flags:
                objs["se"] = False
            if "noroot" in flags:
                objs["m"] = False
        nclone = [0]
        nv = [0]
        refuse_default = rng.chance(1, 4)
        if refuse_default:
            lines.append("pol vs * * %s" % rng.choice(["i:0", "none"]))
        all_paths = ["/c20/%s/%s" % (d, f) for d in DIRS for f in FILES]
        virt_dirs = []
        if rng.chance(1, 2):
            for d in rng.shuffle(DIRS)[:rng.range(1, 2)]:
                virt_dirs.append(d)
                lines.append("pol co %s %s" % (d, rng.weighted([("t:" + rng.choice(all_paths), 8), ("none", 1), ("i:3", 1), ("err", 1)])))
        chain = []
        if rng.chance(2, 3):
            sl, chain = self.gen_scripts(rng)
            lines += sl

        def actor():
            if rng.chance(1, 25):
                return rng.choice(["zz", "c99", "u1a", "oddc"])
            ks = sorted(objs)
            if rng.chance(1, 2):
                withe = [k for k in ks if objs[k]]
                if withe:
                    return rng.choice(withe)
            return rng.choice(ks)

        def path():
            if rng.chance(1, 14):
                return "/c20/u1/i"          # inherits /c20/u2/a
            if rng.chance(1, 25):
                return "/c20/%s/%s" % (rng.choice(DIRS + ["zz"]), rng.choice(["nofile", "x"]))
            if virt_dirs and rng.chance(1, 4):
                return "/c20/%s/v%d" % (rng.choice(virt_dirs), rng.range(1, 3))
            if chain and rng.chance(1, 3):
                return rng.choice(chain)
            return "/c20/%s/%s" % (rng.choice(DIRS), rng.choice(FILES))

        def created(a, p, oid=None):
            d, f = p.split("/")[2:4]
            if f.startswith("v") and d in virt_dirs and a in objs and objs[a]:
                nv[0] += 1
                objs.setdefault("v%d" % nv[0], False)
                return
            if d in DIRS and f in FILES and a in objs and objs[a]:
                objs.setdefault(d + f, d == "bb")
                if oid and oid.startswith("c"):
                    objs[oid] = (d == "bb")

        def some_obj(prefer_noeuid=False):
            ks = sorted(objs)
            if prefer_noeuid and rng.chance(2, 3):
                ne = [k for k in ks if not objs[k]]
                if ne:
                    return rng.choice(ne)
            return rng.choice(ks + ["zz"]) if rng.chance(1, 12) else rng.choice(ks)

        nsteps = rng.range(4, 45)
        for _ in range(nsteps):
            if virt_dirs and rng.chance(1, 30):
                lines.append("pol co %s %s" % (rng.choice(virt_dirs), rng.choice(["-", "none", "err", "i:0", "t:" + rng.choice(all_paths)])))
                continue
            if rng.chance(1, 40):
                # the master's get_root_uid() / get_bb_uid() change their answer; then (often) the master is reloaded
                lines.append("pol %s %s" % (rng.choice(["root", "root", "bb"]), rng.choice([n for n in NAMES if n])))
                if rng.chance(2, 3):
                    lines.append("do %s dest,m" % actor())
                continue
            if rng.chance(1, 30):
                lines.append("pol vo %s %s" % (rng.choice(DIRS), rng.weighted([("i:0", 3), ("i:1", 2), ("err", 2), ("none", 1), ("s:x", 1),
                                                                                   ("arr", 1), ("-", 2)])))
                continue
            if rng.chance(1, 6):
                if rng.chance(1, 5):
                    lines.append("pol vb %s %s %s" % (rng.choice(sorted(objs) + ["*", "*"]), rng.choice(sorted(objs) + ["*", "*"]),
                                                     rng.weighted(VS_SPECS)))
                elif rng.chance(1, 2):
                    lines.append("pol cf %s %s" % (rng.choice(DIRS), rng.choice(CF_SPECS)))
                else:
                    o = rng.choice(sorted(objs) + ["*", "*"])
                    u = rng.choice(NAMES + ["*", "*"])
                    lines.append("pol vs %s %s %s" % (o, u if u != "" else "-", rng.weighted(VS_SPECS)))
                continue
            a = actor()
            caller = actor() if rng.chance(1, 8) else None

            usebind = rng.chance(1, 2) if caller else False

            def DO(owner, op):
                # optionally through a function pointer: <caller> evaluates a function made by <owner>, or (load / clone)
                # <caller> makes an efun pointer, binds it to <owner> (master valid_bind) and runs it
                if caller and usebind and op.startswith(("load,", "clone,")):   # (the other loading efuns are not bound)
                    return "do %s bind,%s,%s" % (caller, owner, op)
                return "do %s via,%s,%s" % (caller, owner, op) if caller else "do %s %s" % (owner, op)
            k = rng.weighted([("seteuid", 10), ("load", 9), ("clone", 9), ("export", 7), ("dest", 2), ("reload", 2),
                              ("seteuid0", 3), ("seteuidint", 1), ("cferr", 2)])
            if k == "seteuid":
                lines.append(DO(a, "seteuid,s:%s" % rng.choice(NAMES)))
                if a in objs and not refuse_default:
                    objs[a] = True
            elif k == "seteuid0":
                lines.append(DO(a, "seteuid,i:0"))
                if a in objs:
                    objs[a] = False
            elif k == "seteuidint":
                lines.append(DO(a, "seteuid,i:%d" % rng.choice([1, -1, 5, 0])))
            elif k == "load":
                p = path()
                lines.append(DO(a, "%s,%s" % (rng.weighted([("load", 6), ("call", 1), ("calla", 1), ("tellroom", 1), ("filter", 1)] +
                                                              ([("preload", 2)] if a == "m" and not caller else [])), p)))
                created(a, p)
            elif k == "clone":
                nclone[0] += 1
                o = "c%d" % nclone[0]
                if rng.chance(1, 30):
                    o = rng.choice(["m", "u1a", "c1"])
                p = path()
                lines.append(DO(a, "clone,%s,%s" % (o, p)))
                created(a, p, o)
            elif k == "export":
                lines.append(DO(a, "export,%s" % some_obj(True)))
            elif k == "dest":
                t = some_obj() if rng.chance(5, 6) else "m"
                lines.append(DO(a, "dest,%s" % t))
                if t != "m":
                    objs.pop(t, None)
            elif k == "reload":
                t = some_obj()
                lines.append(DO(a, "reload,%s" % t))
                if t in objs and t != "m":
                    objs[t] = False
            else:
                # the master raises an error in creator_file, later somebody finds the half-made object
                d = rng.choice(DIRS)
                p = "/c20/%s/%s" % (d, rng.choice(FILES))
                lines.append("pol cf %s err" % d)
                lines.append("do %s %s" % (a, rng.choice(["load,%s" % p, "clone,c%d,%s" % (nclone[0] + 50, p)])))
                lines.append("pol cf %s %s" % (d, rng.choice(CF_SPECS)))
                if rng.chance(2, 3):
                    lines.append("do %s load,%s" % (actor(), p))
                    created(a, p)
        # one top-level op in eight is started by the driver: from a call_out / from the actor's heart_beat
        out = []
        for l in lines:
            if l.startswith("do m clone,") and rng.chance(1, 5):
                l = "do m connect," + l[len("do m clone,"):]
            elif l.startswith("do ") and " preload," not in l and rng.chance(1, 8):
                t = l.split(" ", 2)
                l = "do %s %s,%s" % (t[1], rng.choice(["later", "hb"]), t[2])
            out.append(l)
        return E.Case(cid, out, {"origin": "generated"})

    def generate(self, rng, n, tier):
        return [self.gen_case(rng, "g%d" % i) for i in range(n)]

    def histogram(self, cases, impl):
        h = {"steps": 0, "creations": 0, "cf_error": 0, "late_init": 0, "seteuid_approved": 0, "seteuid_refused": 0,
             "seteuid_zero": 0, "export_ok": 0, "export_refused": 0, "export_error": 0, "noeuid_load_error": 0,
             "noeuid_clone_error": 0, "compile_object_calls": 0, "virtual_handed_out": 0, "funptr_ops": 0, "funptr_noeuid_refused": 0,
             "master_reloads": 0, "master_reload_refused": 0, "export_onto_self": 0, "nested_ops": 0, "nested_creations": 0, "nested_noeuid_refused": 0, "max_nesting": 0, "backbone_grants": 0, "policy_errors": 0, "nobj": 0, "reloads": 0,
             "crash": 0, "cfg_nobb": 0, "cfg_noroot": 0, "cfg_novb": 0, "cfg_simul": 0, "simul_actor_ops": 0, "simul_dest_error": 0, "cf_callback_drops": 0,
             "bind_ops": 0, "bind_asked": 0, "bind_denied": 0, "valid_object_asked": 0, "valid_object_denied": 0, "inherit_loads_parent_first": 0}
        alias_ops = 0
        driven_ops = 0
        foreign = {"load": 0, "clone": 0, "virtual": 0, "backbone": 0}
        for c in cases:
            alias_ops += sum(len(self.ALIAS.findall(l)) for l in c.lines)
            driven_ops += sum(1 for l in c.lines if self.DRIVEN.match(l))
            snapq = {}
            astack, actor_cur = [], None
            for f in self.cfg_key(c):
                h["cfg_" + f] += 1
            cur = None
            pend_cf = None
            stack = []
            for l in impl.get(c.id, []):
                t = l.split()
                if not t:
                    continue
                if t[0] == "do":
                    h["steps"] += 1
                    if t[1] == "se":
                        h["simul_actor_ops"] += 1
                    if len(stack) >= 1 and t[1] == "m" and len(t) > 2 and t[2] == "seteuid,i:0" and cur and cur.split(",")[0] in ("load", "clone"):
                        h["cf_callback_drops"] += 1
                    if len(t) > 2 and t[2] == "export," + t[1]:
                        h["export_onto_self"] += 1
                    stack.append(cur)
                    if len(stack) > 1:
                        h["nested_ops"] += 1
                    h["max_nesting"] = max(h["max_nesting"], len(stack) - 1)
                    cur = t[2] if len(t) > 2 else ""
                    astack.append(actor_cur)
                    actor_cur = t[1]
                    pend_cf = None
                elif t[0] == "vo":
                    h["valid_object_asked"] += 1
                elif t[0] == "vb":
                    h["bind_asked"] += 1
                elif t[0] == "co":
                    h["compile_object_calls"] += 1
                elif t[0] == "cf":
                    if cur and cur.endswith(",/c20/u1/i") and len(t) > 1 and t[1] == "/c20/u2/a":
                        h["inherit_loads_parent_first"] += 1
                    pend_cf = t[2] if len(t) > 2 else None
                    if pend_cf == "err":
                        h["cf_error"] += 1
                elif t[0] == "q":
                    snapq = dict(e.rstrip("*").split("=", 1) for e in t[1:] if "=" in e)
                elif t[0] == "new":
                    if pend_cf is not None and stack and cur:
                        # the creating actor = the `do` line of the innermost running op
                        ue = snapq.get(actor_cur or "", "")
                        if "/" in ue:
                            u, e2 = ue.split("/", 1)
                            if e2 != "0" and e2 != u:
                                kind = "virtual" if cur.startswith("clone,v") else ("clone" if cur.startswith("clone") else "load")
                                foreign[kind] += 1
                                if pend_cf == "s:Backbone":
                                    foreign["backbone"] += 1
                    if cur and cur.startswith("reload"):
                        h["reloads"] += 1
                    elif pend_cf is None:
                        h["late_init"] += 1
                    else:
                        h["creations"] += 1
                        if len(stack) > 1:
                            h["nested_creations"] += 1
                        if pend_cf == "s:Backbone" and len(t) > 4 and t[4] != "0":
                            h["backbone_grants"] += 1
                    pend_cf = None
                elif t[0] == "r" and cur:
                    r = " ".join(t[1:])
                    if cur.startswith("via,"):
                        h["funptr_ops"] += 1
                    if cur.startswith("bind,"):
                        h["bind_ops"] += 1
                        if "Permission_of_binding" in r:
                            h["bind_denied"] += 1
                    if cur == "dest,m":
                        h["master_reloads" if r == "1" else "master_reload_refused"] += 1
                    if len(stack) > 1 and stack[-1] and stack[-1].startswith("via,") and ("no_effective_user" in r or "without_effective_UID" in r):
                        h["funptr_noeuid_refused"] += 1
                    if len(r) > 1 and r[0] == "v" and r[1:].isdigit() and not cur.startswith("clone,v"):
                        h["virtual_handed_out"] += 1
                    if cur.startswith("seteuid,s:"):
                        h["seteuid_approved" if r == "1" else "seteuid_refused"] += 1
                    elif cur == "seteuid,i:0" and r == "1":
                        h["seteuid_zero"] += 1
                    elif cur.startswith("export"):
                        h["export_ok" if r == "1" else "export_refused" if r == "0" else "export_error"] += 1
                    if "no_effective_user" in r:
                        h["noeuid_load_error"] += 1
                    if "without_effective_UID" in r:
                        h["noeuid_clone_error"] += 1
                    if "valid_object_denied" in r:
                        h["valid_object_denied"] += 1
                    if "Cannot_destruct_simul" in r:
                        h["simul_dest_error"] += 1
                    if "policy_error" in r:
                        h["policy_errors"] += 1
                    if r == "nobj":
                        h["nobj"] += 1
                    if len(stack) > 1 and ("no_effective_user" in r or "without_effective_UID" in r):
                        h["nested_noeuid_refused"] += 1
                    cur = stack.pop() if stack else None
                    actor_cur = astack.pop() if astack else None
                elif t[0] == "crash":
                    h["crash"] += 1
        h["loads_by_other_efuns_in_cases"] = alias_ops
        h["driver_started_ops_in_cases"] = driven_ops
        for k2, v2 in foreign.items():
            h["creations_by_foreign_euid_loader_" + k2] = v2
        return h


PROP = C20()
