"""C11 translator (T4): recovers the decisive lines of the heart-beat machinery from the clang-14 AST of the
working tree and emits them as Lean definitions (NV/Gen/C11.lean, via C11.gen_extra).

Sites (function, what is recovered -> Lean definition):
  set_heart_beat    statements that rewrite `to` before the `if (!to)` test            -> clampTo
  set_heart_beat    removal branch: every statement that writes heart_beat_index or
                    num_hb_to_do (the `if (num_hb_to_do) { if (index <= ...) ...-- }`)    -> rmCompensate
  set_heart_beat    append branch: what is stored into time_to_heart_beat / heart_beat_ticks -> appendStore
  f_set_heart_beat  argument conversion: the value passed as 2nd argument of set_heart_beat -> efunSat
  call_heart_beat   while condition                                                       -> loopContinues
  call_heart_beat   loop body up to the call: ticks--, prog->heart_beat test, ticks < 1,
                    reset to time_to_heart_beat, call_function                             -> hbBody
  call_heart_beat   last statement of the loop body (`if (++heart_beat_index == num_hb_to_do) break`) -> loopStep

Method: symbolic execution of the selected statements over a small set of tracked integer variables.  Statements
that neither write a tracked variable, nor call call_function, nor contain break/return/continue/goto are skipped;
every other statement must stay inside the grammar below, otherwise the tie is broken (TieBroken):
  statements   compound, null, expression statement, if / if-else, `break` (only as the loop-exit)
  expressions  integer literals, tracked variables / struct members, parentheses, integral casts (explicit and
               implicit; narrowing casts become trunc16 / trunc32), unary ! - ++ --, binary + - *, comparisons,
               && ||, = (to a tracked lvalue), ?:, platform_atomic_load_int(&v)
"""
import json
import os
import subprocess

from nvlib import engine as E
from nvlib.extract import TieBroken

CLANG = "clang-14"

PRELUDE = """
/-- C `(short)x` / `(int)x` on the two's complement targets the driver supports -/
def trunc16 (x : Int) : Int := (x + 32768) % 65536 - 32768
def trunc32 (x : Int) : Int := (x + 2147483648) % 4294967296 - 2147483648
"""

BITS = {"char": 8, "signed char": 8, "short": 16, "int": 32, "long": 64, "long long": 64, "int64_t": 64, "time_t": 64}


class OutOfGrammar(Exception):
    pass


def ast_function(bdir, relsrc, fn):
    src = os.path.join(E.REPO, relsrc)
    cmd = [CLANG, "-Xclang", "-ast-dump=json", "-Xclang", "-ast-dump-filter=" + fn, "-fsyntax-only",
           "-DHAVE_CONFIG_H", "-D_GNU_SOURCE", "-D" + E.GUARD, "-w"] + E.include_flags(bdir) + [src]
    p = subprocess.run(cmd, capture_output=True, text=True)
    if p.returncode != 0:
        raise TieBroken("ast:" + fn, "clang cannot parse %s: %s" % (relsrc, p.stderr[-800:]))
    s, dec, i, found = p.stdout, json.JSONDecoder(), 0, None
    while i < len(s):
        while i < len(s) and s[i].isspace():
            i += 1
        if i >= len(s):
            break
        o, i = dec.raw_decode(s, i)
        if o.get("kind") == "FunctionDecl" and o.get("name") == fn and any(
                c.get("kind") == "CompoundStmt" for c in o.get("inner", [])):
            found = o
    if found is None:
        raise TieBroken("fn:" + fn, "function %s with a body not found in %s" % (fn, relsrc))
    return found


def kids(n):
    return [c for c in n.get("inner", []) if isinstance(c, dict) and c]


def body_of(fn):
    for c in kids(fn):
        if c.get("kind") == "CompoundStmt":
            return c
    raise TieBroken("fn:" + fn.get("name", "?"), "no body")


def qtype(n):
    t = n.get("type", {})
    q = t.get("desugaredQualType") or t.get("qualType") or ""
    return q.replace("const ", "").replace("volatile ", "").strip()


def bits_of(q):
    return BITS.get(q)


def strip(n):
    while True:
        k = n.get("kind")
        if k in ("ParenExpr", "ConstantExpr"):
            n = kids(n)[0]
        elif k == "ImplicitCastExpr" and n.get("castKind") in ("LValueToRValue", "NoOp"):
            n = kids(n)[0]
        else:
            return n


def walk(n):
    yield n
    for c in kids(n):
        yield from walk(c)


class Sym:
    """symbolic executor over tracked integer variables"""

    def __init__(self, site, globals_, members, inputs, call_marker=None):
        self.site = site
        self.globals = set(globals_)          # tracked variables referenced by name
        self.members = dict(members)          # struct member name -> tracked variable
        self.state = {v: v for v in inputs}   # variable -> Lean Int expression over the inputs
        self.call_marker = call_marker
        self.called = "false"
        self.at_call = None
        self.brk = "False"
        self.writes_after_call = False

    # ---- lvalues -----------------------------------------------------------
    def lvalue(self, n):
        n = strip(n)
        if n.get("kind") == "DeclRefExpr":
            name = n.get("referencedDecl", {}).get("name")
            if name in self.globals:
                return name
        if n.get("kind") == "MemberExpr" and n.get("name") in self.members:
            return self.members[n["name"]]
        return None

    def writes_tracked(self, n):
        for x in walk(n):
            k = x.get("kind")
            if k == "UnaryOperator" and x.get("opcode") in ("++", "--") and self.lvalue(kids(x)[0]):
                return True
            if k in ("BinaryOperator", "CompoundAssignOperator") and x.get("opcode", "").endswith("=") and \
                    x.get("opcode") not in ("==", "!=", "<=", ">=") and self.lvalue(kids(x)[0]):
                return True
        return False

    def mentions_tracked(self, n):
        return any(x.get("kind") in ("DeclRefExpr", "MemberExpr") and self.lvalue(x) for x in walk(n))

    def relevant(self, n):
        if self.writes_tracked(n):
            return True
        for x in walk(n):
            k = x.get("kind")
            # a guard that neither reads nor writes a tracked variable is independent of the slice
            if k in ("BreakStmt", "ReturnStmt", "ContinueStmt", "GotoStmt") and self.mentions_tracked(n):
                return True
            if k == "CallExpr" and self.call_marker and self.callee(x) == self.call_marker:
                return True
        return False

    @staticmethod
    def callee(call):
        f = strip(kids(call)[0])
        while f.get("kind") == "ImplicitCastExpr":
            f = strip(kids(f)[0])
        if f.get("kind") == "DeclRefExpr":
            return f.get("referencedDecl", {}).get("name")
        return None

    # ---- expressions: returns ("int"|"prop", text) ---------------------------
    def as_int(self, r):
        return r[1] if r[0] == "int" else "(if %s then 1 else 0)" % r[1]

    def as_prop(self, r):
        return r[1] if r[0] == "prop" else "(%s ≠ 0)" % r[1]

    def assign(self, var, val):
        if self.at_call is not None and var in ("ticks", "interval"):
            self.writes_after_call = True
        self.state[var] = val

    def narrow(self, n, text, src_q):
        """value of `text` (of C type src_q) converted to the type of node n"""
        dst, src = bits_of(qtype(n)), bits_of(src_q)
        if dst is None or src is None:
            raise OutOfGrammar("cast between %s and %s" % (src_q, qtype(n)))
        if dst >= src:
            return text
        if dst == 16:
            return "trunc16 (%s)" % text
        if dst == 32:
            return "trunc32 (%s)" % text
        raise OutOfGrammar("narrowing to %d bits" % dst)

    def expr(self, n):
        k = n.get("kind")
        if k in ("ParenExpr", "ConstantExpr"):
            return self.expr(kids(n)[0])
        if k == "IntegerLiteral":
            v = int(n["value"])
            return ("int", str(v) if v >= 0 else "(%d)" % v)
        if k == "ImplicitCastExpr" and n.get("castKind") in ("LValueToRValue", "NoOp"):
            return self.expr(kids(n)[0])
        if k in ("ImplicitCastExpr", "CStyleCastExpr") and n.get("castKind") in ("IntegralCast", "NoOp"):
            inner = kids(n)[0]
            r = self.expr(inner)
            return ("int", self.narrow(n, self.as_int(r), qtype(inner)))
        if k in ("DeclRefExpr", "MemberExpr"):
            v = self.lvalue(n)
            if v is None or v not in self.state:
                raise OutOfGrammar("untracked operand %s" % (n.get("name") or n.get("referencedDecl", {}).get("name")))
            return ("int", self.state[v])
        if k == "UnaryOperator":
            op = n.get("opcode")
            sub = kids(n)[0]
            if op == "!":
                return ("prop", "¬ %s" % self.as_prop(self.expr(sub)))
            if op == "-":
                return ("int", "(-%s)" % self.as_int(self.expr(sub)))
            if op in ("++", "--"):
                v = self.lvalue(sub)
                if v is None:
                    raise OutOfGrammar("%s on an untracked lvalue" % op)
                old = self.state[v]
                new = "(%s %s 1)" % (old, "+" if op == "++" else "-")
                b = bits_of(qtype(n))
                if b is not None and b < 32:
                    new = self.narrow(n, new, "int")
                self.assign(v, new)
                return ("int", old if n.get("isPostfix") else new)
            raise OutOfGrammar("unary " + str(op))
        if k == "BinaryOperator":
            op = n.get("opcode")
            a, b = kids(n)
            if op == "=":
                v = self.lvalue(a)
                if v is None:
                    raise OutOfGrammar("assignment to an untracked lvalue")
                val = self.as_int(self.expr(b))
                self.assign(v, val)
                return ("int", val)
            if op in ("&&", "||"):
                ra = self.as_prop(self.expr(a))
                saved = dict(self.state)
                rb = self.as_prop(self.expr(b))
                if self.state != saved:
                    raise OutOfGrammar("side effect in the right operand of " + op)
                return ("prop", "(%s %s %s)" % (ra, "∧" if op == "&&" else "∨", rb))
            ra = self.as_int(self.expr(a))
            rb = self.as_int(self.expr(b))
            if op in ("+", "-", "*"):
                return ("int", "(%s %s %s)" % (ra, op, rb))
            rel = {"<": "<", "<=": "≤", ">": ">", ">=": "≥", "==": "=", "!=": "≠"}
            if op in rel:
                return ("prop", "(%s %s %s)" % (ra, rel[op], rb))
            raise OutOfGrammar("binary " + str(op))
        if k == "ConditionalOperator":
            c, a, b = kids(n)
            pc = self.as_prop(self.expr(c))
            saved = dict(self.state)
            ra = self.as_int(self.expr(a))
            rb = self.as_int(self.expr(b))
            if self.state != saved:
                raise OutOfGrammar("side effect inside ?:")
            return ("int", "(if %s then %s else %s)" % (pc, ra, rb))
        if k == "CallExpr" and self.callee(n) == "platform_atomic_load_int":
            arg = strip(kids(n)[1])
            if arg.get("kind") == "UnaryOperator" and arg.get("opcode") == "&":
                return self.expr(kids(arg)[0])
        raise OutOfGrammar("expression kind %s" % k)

    # ---- statements ----------------------------------------------------------
    def merge(self, cond, st1, st2):
        out = {}
        for v in st1:
            out[v] = st1[v] if st1[v] == st2[v] else "(if %s then %s else %s)" % (cond, st1[v], st2[v])
        return out

    def snapshot(self):
        return (dict(self.state), self.called, self.at_call, self.brk)

    def restore(self, s):
        self.state, self.called, self.at_call, self.brk = dict(s[0]), s[1], s[2], s[3]

    def stmt(self, n):
        k = n.get("kind")
        if k == "NullStmt":
            return
        if k == "CompoundStmt":
            for c in kids(n):
                self.stmt(c)
            return
        if k == "BreakStmt":
            self.brk = "True"
            return
        if not self.relevant(n):
            return
        if k == "IfStmt":
            ks = kids(n)
            cond = self.as_prop(self.expr(ks[0]))
            base = self.snapshot()
            self.stmt(ks[1])
            s1 = self.snapshot()
            self.restore(base)
            if len(ks) > 2:
                self.stmt(ks[2])
            s2 = self.snapshot()
            self.state = self.merge(cond, s1[0], s2[0])

            def m(a, b, t="true", f="false"):
                if a == b:
                    return a
                if a == t and b == f:
                    return "decide %s" % cond if t == "true" else cond
                return "(if %s then %s else %s)" % (cond, a, b)
            self.called = m(s1[1], s2[1])
            if s1[2] is None and s2[2] is None:
                self.at_call = None
            else:
                self.at_call = m(s1[2] or "0", s2[2] or "0")
            self.brk = m(s1[3], s2[3], "True", "False")
            return
        if k == "BreakStmt":
            self.brk = "True"
            return
        if k == "CallExpr" and self.call_marker and self.callee(n) == self.call_marker:
            if self.called != "false":
                raise OutOfGrammar("second call of " + self.call_marker)
            self.called = "true"
            self.at_call = self.state.get("ticks", "0")
            return
        if k in ("BinaryOperator", "UnaryOperator", "ParenExpr", "CompoundAssignOperator"):
            self.expr(n)
            return
        raise OutOfGrammar("statement kind %s" % k)

    def run(self, stmts):
        try:
            for s in stmts:
                self.stmt(s)
        except OutOfGrammar as e:
            raise TieBroken(self.site, "%s: %s left the translator's grammar: %s" % (self.site, self.site, e))


def is_not_of(n, name):
    n = strip(n)
    if n.get("kind") == "UnaryOperator" and n.get("opcode") == "!":
        x = strip(kids(n)[0])
        return x.get("kind") == "DeclRefExpr" and x.get("referencedDecl", {}).get("name") == name
    return False


def extract(bdir):
    """returns (lean text, dict of recovered forms for the evidence)"""
    out = [PRELUDE]
    info = {}

    # ---------------- set_heart_beat --------------------------------------------------------------------------
    shb = body_of(ast_function(bdir, "src/backend.c", "set_heart_beat"))
    top = kids(shb)
    pos = [i for i, s in enumerate(top) if s.get("kind") == "IfStmt" and is_not_of(kids(s)[0], "to")]
    if len(pos) != 1:
        raise TieBroken("set_heart_beat:if(!to)", "the `if (!to)` removal test of set_heart_beat was not found")
    cut = pos[0]
    sy = Sym("set_heart_beat:clamp", ["to"], {}, ["to"])
    sy.run(top[:cut])
    info["clampTo"] = sy.state["to"]
    out.append("/-- src/backend.c set_heart_beat: what the statements in front of `if (!to)` make of `to` -/\n"
               "def clampTo (to : Int) : Int := %s\n" % sy.state["to"])

    removal = kids(top[cut])[1]
    sy = Sym("set_heart_beat:compensation", ["index", "heart_beat_index", "num_hb_to_do"], {},
             ["index", "heart_beat_index", "num_hb_to_do"])
    rel = [s for s in kids(removal) if Sym("x", ["heart_beat_index", "num_hb_to_do"], {}, []).writes_tracked(s)]
    if not rel:
        raise TieBroken("set_heart_beat:compensation", "no statement of the removal branch writes heart_beat_index / num_hb_to_do")
    for s in rel:
        if sy.writes_tracked(s) and Sym("x", ["index"], {}, []).writes_tracked(s):
            raise TieBroken("set_heart_beat:compensation", "compensation statement also writes `index`")
    sy.run(rel)
    info["rmCompensate"] = [sy.state["heart_beat_index"], sy.state["num_hb_to_do"]]
    out.append("/-- src/backend.c set_heart_beat, removal of the entry at `index`: new (heart_beat_index, num_hb_to_do) -/\n"
               "def rmCompensate (index heart_beat_index num_hb_to_do : Int) : Int × Int :=\n  (%s,\n   %s)\n"
               % (sy.state["heart_beat_index"], sy.state["num_hb_to_do"]))

    # append branch: the else of `if (ob->flags & O_HEART_BEAT)`, the last if-else at top level after the removal
    app = None
    for s in top[cut + 1:]:
        if s.get("kind") == "IfStmt" and len(kids(s)) == 3:
            app = kids(s)[2]
    if app is None:
        raise TieBroken("set_heart_beat:append", "the enable / append branch of set_heart_beat was not found")
    sy = Sym("set_heart_beat:append", ["to"], {"heart_beat_ticks": "ticks", "time_to_heart_beat": "interval"},
             ["to"])
    sy.state["ticks"] = "0"
    sy.state["interval"] = "0"
    sy.run(kids(app))
    info["appendStore"] = [sy.state["ticks"], sy.state["interval"]]
    out.append("/-- src/backend.c set_heart_beat, append branch: (heart_beat_ticks, time_to_heart_beat) of the new entry -/\n"
               "def appendStore (to : Int) : Int × Int :=\n  (%s,\n   %s)\n" % (sy.state["ticks"], sy.state["interval"]))

    # ---------------- f_set_heart_beat ------------------------------------------------------------------------
    ef = body_of(ast_function(bdir, "lib/efuns/heart_beat.c", "f_set_heart_beat"))
    sy = Sym("f_set_heart_beat:argument", [], {}, [])
    inputs = []
    passed = None
    try:
        for s in kids(ef):
            if s.get("kind") == "DeclStmt":
                for d in kids(s):
                    if d.get("kind") != "VarDecl":
                        continue
                    sy.globals.add(d["name"])
                    init = [c for c in kids(d)]
                    try:
                        if not init:
                            raise OutOfGrammar("no initialiser")
                        val = sy.as_int(sy.expr(init[0]))
                        b = bits_of(qtype(d))
                        sy.state[d["name"]] = val
                    except OutOfGrammar:
                        inputs.append(d["name"])
                        sy.state[d["name"]] = "n"
            else:
                for x in walk(s):
                    if x.get("kind") == "CallExpr" and Sym.callee(x) == "set_heart_beat":
                        passed = sy.as_int(sy.expr(kids(x)[2]))
                if passed is None:
                    sy.stmt(s)
    except OutOfGrammar as e:
        raise TieBroken("f_set_heart_beat:argument", "f_set_heart_beat left the translator's grammar: %s" % e)
    if passed is None or len(inputs) != 1:
        raise TieBroken("f_set_heart_beat:argument", "cannot recover the argument conversion of f_set_heart_beat "
                        "(call of set_heart_beat found: %s, inputs: %s)" % (passed is not None, inputs))
    info["efunSat"] = passed
    out.append("/-- lib/efuns/heart_beat.c f_set_heart_beat: the `to` passed to set_heart_beat for the LPC argument n -/\n"
               "def efunSat (n : Int) : Int := %s\n" % passed)

    # ---------------- call_heart_beat -------------------------------------------------------------------------
    chb = ast_function(bdir, "src/backend.c", "call_heart_beat")
    loops = [x for x in walk(chb) if x.get("kind") == "WhileStmt"]
    if len(loops) != 1:
        raise TieBroken("call_heart_beat:while", "expected exactly one while loop in call_heart_beat, found %d" % len(loops))
    wcond, wbody = kids(loops[0])
    sy = Sym("call_heart_beat:while-condition", ["heart_beat_flag"], {}, ["heart_beat_flag"])
    try:
        c = sy.as_prop(sy.expr(wcond))
    except OutOfGrammar as e:
        raise TieBroken("call_heart_beat:while-condition", "while condition left the grammar: %s" % e)
    info["loopContinues"] = c
    out.append("/-- src/backend.c call_heart_beat: the condition of the while loop -/\n"
               "def loopContinues (heart_beat_flag : Int) : Bool := decide (%s)\n" % c)

    stmts = kids(wbody)
    if not stmts:
        raise TieBroken("call_heart_beat:body", "empty loop body")
    members = {"heart_beat_ticks": "ticks", "time_to_heart_beat": "interval", "heart_beat": "heart_beat"}
    sy = Sym("call_heart_beat:body", ["heart_beat_index", "num_hb_to_do"], members,
             ["heart_beat", "ticks", "interval", "heart_beat_index", "num_hb_to_do"], call_marker="call_function")
    sy.run(stmts[:-1])
    if sy.brk != "False" or sy.state["heart_beat_index"] != "heart_beat_index" or sy.state["num_hb_to_do"] != "num_hb_to_do":
        raise TieBroken("call_heart_beat:body", "the loop body changes the cursor or leaves the loop before its last statement")
    if sy.writes_after_call or sy.state["heart_beat"] != "heart_beat" or sy.state["interval"] != "interval":
        raise TieBroken("call_heart_beat:body", "the loop body writes ticks/interval after the call or writes the interval")
    if sy.at_call is None:
        raise TieBroken("call_heart_beat:body", "no call of call_function in the loop body")
    info["hbBody"] = [sy.state["ticks"], sy.called, sy.at_call]
    out.append("/-- src/backend.c call_heart_beat, loop body before the cursor step, for an entry (ticks, interval) of an object\n"
               "    whose program has `heart_beat` as function index (-1 = none):\n"
               "    (heart_beat_ticks afterwards, whether heart_beat() is called, heart_beat_ticks at the moment of the call) -/\n"
               "def hbBody (heart_beat ticks interval : Int) : Int × Bool × Int :=\n  (%s,\n   %s,\n   %s)\n"
               % (sy.state["ticks"], sy.called, sy.at_call))

    sy = Sym("call_heart_beat:loop-exit", ["heart_beat_index", "num_hb_to_do"], {}, ["heart_beat_index", "num_hb_to_do"])
    sy.run(stmts[-1:])
    if sy.brk == "False" or sy.state["num_hb_to_do"] != "num_hb_to_do":
        raise TieBroken("call_heart_beat:loop-exit", "the last statement of the loop body is not the loop exit")
    info["loopStep"] = [sy.state["heart_beat_index"], sy.brk]
    out.append("/-- src/backend.c call_heart_beat, last statement of the loop body: (new heart_beat_index, leave the loop) -/\n"
               "def loopStep (heart_beat_index num_hb_to_do : Int) : Int × Bool :=\n  (%s,\n   decide %s)\n"
               % (sy.state["heart_beat_index"], sy.brk))
    # ---------------- fail closed: the cursor variables must not be written anywhere the slices above do not see -------
    import re as _re
    src_path = os.path.join(E.REPO, "src/backend.c")
    raw = open(src_path, "rb").read()

    def blank(m):
        return _re.sub(rb"[^\n]", b" ", m.group(0))
    text = _re.sub(rb"/\*.*?\*/", blank, raw, flags=_re.S)
    text = _re.sub(rb"//[^\n]*", blank, text)

    def frange(fn_node):
        r = fn_node.get("range", {})
        b = r.get("begin", {}).get("offset")
        e = r.get("end", {}).get("offset")
        if b is None or e is None:
            raise TieBroken("backend.c:cursor-uses", "no source range for " + fn_node.get("name", "?"))
        return b, e
    shb_fn = ast_function(bdir, "src/backend.c", "set_heart_beat")
    ranges = [frange(shb_fn), frange(chb)]
    stray = []
    for m in _re.finditer(rb"\b(heart_beat_index|num_hb_to_do)\b", text):
        off = m.start()
        if any(b <= off <= e for b, e in ranges):
            continue
        line = text[text.rfind(b"\n", 0, off) + 1: text.find(b"\n", off)].decode(errors="replace").strip()
        if _re.match(r"static int (heart_beat_index|num_hb_to_do) = 0;$", line):
            continue
        stray.append(line)
    if stray:
        raise TieBroken("backend.c:cursor-uses", "heart_beat_index / num_hb_to_do are used outside set_heart_beat and "
                        "call_heart_beat: %s" % stray[:3])
    # inside set_heart_beat every write of the cursor must be in the removal branch statements translated above,
    # the address of a cursor variable must not be taken, and the removal branch must not call unknown helpers
    probe = Sym("x", ["heart_beat_index", "num_hb_to_do"], {}, [])

    def count_writes(n):
        c = 0
        for x in walk(n):
            k = x.get("kind")
            if k == "UnaryOperator" and x.get("opcode") in ("++", "--") and probe.lvalue(kids(x)[0]):
                c += 1
            elif k in ("BinaryOperator", "CompoundAssignOperator") and x.get("opcode", "").endswith("=") and \
                    x.get("opcode") not in ("==", "!=", "<=", ">=") and probe.lvalue(kids(x)[0]):
                c += 1
            elif k == "UnaryOperator" and x.get("opcode") == "&" and probe.lvalue(kids(x)[0]):
                raise TieBroken("set_heart_beat:compensation", "address of a cursor variable taken")
        return c
    if count_writes(shb_fn) != sum(count_writes(st) for st in rel):
        raise TieBroken("set_heart_beat:compensation", "set_heart_beat writes heart_beat_index / num_hb_to_do outside the "
                        "removal-branch statements that were translated")
    count_writes(chb)
    known_calls = {"memmove", "memcpy", "debug_message", "fatal", "opt_trace", "DEBUG_CHECK"}
    for x in walk(removal):
        if x.get("kind") == "CallExpr" and Sym.callee(x) not in known_calls:
            raise TieBroken("set_heart_beat:removal-calls", "the removal branch calls %s, which the translator does not "
                            "look into" % Sym.callee(x))

    # ---------------- destruct_object: ORDER of inventory loop / heart-beat removal / O_DESTRUCTED store -------
    import re
    m = re.search(r"#define\s+O_DESTRUCTED\s+(0x[0-9a-fA-F]+|\d+)", open(os.path.join(E.REPO, "lib/lpc/object.h")).read())
    if not m:
        raise TieBroken("destruct_object:order", "O_DESTRUCTED not found in lib/lpc/object.h")
    o_destructed = int(m.group(1), 0)
    dfn = ast_function(bdir, "src/simulate.c", "destruct_object")
    dtop = kids(body_of(dfn))

    def is_hb_off(n):
        return n.get("kind") == "CallExpr" and Sym.callee(n) == "set_heart_beat"

    def is_mark(n):
        if n.get("kind") != "CompoundAssignOperator" or n.get("opcode") != "|=":
            return False
        a, b = kids(n)
        a = strip(a)
        b = strip(b)
        while b.get("kind") == "ImplicitCastExpr":
            b = strip(kids(b)[0])
        return a.get("kind") == "MemberExpr" and a.get("name") == "flags" and b.get("kind") == "IntegerLiteral" \
            and int(b["value"]) == o_destructed

    def is_inv_loop(n):
        return n.get("kind") == "WhileStmt" and any(x.get("kind") == "MemberExpr" and x.get("name") == "contains"
                                                     for x in walk(kids(n)[0])) \
            and any(x.get("kind") == "CallExpr" and Sym.callee(x) == "apply" for x in walk(n))

    where = {0: [], 1: [], 2: []}
    for i, st in enumerate(dtop):
        if is_inv_loop(st):
            where[0].append(i)
        if is_hb_off(st):
            args = kids(st)
            lit = strip(args[2]) if len(args) > 2 else {}
            if lit.get("kind") != "IntegerLiteral" or int(lit.get("value", "1")) != 0:
                raise TieBroken("destruct_object:order", "set_heart_beat in destruct_object is not called with 0")
            where[1].append(i)
        if is_mark(st):
            where[2].append(i)
    total_hb = sum(1 for x in walk(dfn) if is_hb_off(x))
    total_mark = sum(1 for x in walk(dfn) if is_mark(x))
    if any(len(v) != 1 for v in where.values()) or total_hb != 1 or total_mark != 1:
        raise TieBroken("destruct_object:order", "destruct_object: expected exactly one top-level inventory loop, one "
                        "set_heart_beat (ob, 0) and one O_DESTRUCTED store, found %s (calls anywhere: %d, stores anywhere: %d)"
                        % ({k: len(v) for k, v in where.items()}, total_hb, total_mark))
    order = [k for k, _ in sorted(where.items(), key=lambda kv: kv[1][0])]
    info["destructOrder"] = order
    out.append("/-- src/simulate.c destruct_object: order of 0 = the `while (ob->contains)` loop that applies move_or_destruct() in\n"
               "    the inventory, 1 = `set_heart_beat (ob, 0)`, 2 = `ob->flags |= O_DESTRUCTED` -/\n"
               "def destructOrder : List Nat := %s\n" % str(order))
    return "\n".join(out), info


if __name__ == "__main__":
    bd = E.repo_build("asan")
    text, inf = extract(bd)
    print(text)
