"""C11 translator (T4): recovers the decisive lines of the heart-beat machinery from the clang-14 AST of the
working tree and emits them as Lean definitions (NV/Gen/C11.lean, via C11.gen_extra).

Sites (function, what is recovered -> Lean definition):
  set_heart_beat    statements that rewrite `to` before the `if (!to)` test            -> clampTo
  set_heart_beat    removal branch: every statement that writes heart_beat_index or
                    num_hb_to_do (the `if (num_hb_to_do) { if (index <= ...) ...-- }`)    -> rmCompensate
  set_heart_beat    append branch: what is stored into time_to_heart_beat / heart_beat_ticks -> appendStore
  f_set_heart_beat  argument conversion: the value passed as 2nd argument of set_heart_beat -> efunSat
  call_heart_beat   while condition                                                       -> loopContinues
  call_heart_beat   loop body up to the call: ticks--, prog->heart_beat test, ticks < 1,
                    reset to time_to_heart_beat, call_function                             -> hbBody
  call_heart_beat   last statement of the loop body (`if (++heart_beat_index == num_hb_to_do) break`) -> loopStep

Method: symbolic execution of the selected statements over a small set of tracked integer variables.  Statements
that neither write a tracked variable, nor call call_function, nor contain break/return/continue/goto are skipped;
every other statement must stay inside the grammar below, otherwise the tie is broken (TieBroken):
  statements   compound, null, expression statement, if / if-else, `break` (only as the loop-exit)
  expressions  integer literals, tracked variables / struct members, parentheses, integral casts (explicit and
               implicit; narrowing casts become trunc16 / trunc32), unary ! - ++ --, binary + - *, comparisons,
               && ||, = (to a tracked lvalue), ?:, platform_atomic_load_int(&v)
"""
import json
import os
import subprocess

from nvlib import engine as E
from nvlib.extract import TieBroken

CLANG = "clang-14"

PRELUDE = """
/-- C `(short)x` / `(int)x` on the two's complement targets the driver supports -/
def trunc16 (x : Int) : Int := (x + 32768) % 65536 - 32768
def trunc32 (x : Int) : Int := (x + 2147483648) % 4294967296 - 2147483648
"""

BITS = {"char": 8, "signed char": 8, "short": 16, "int": 32, "long": 64, "long long": 64, "int64_t": 64, "time_t": 64}


class OutOfGrammar(Exception):
    pass


def ast_function(bdir, relsrc, fn):
    src = os.path.join(E.REPO, relsrc)
    cmd = [CLANG, "-Xclang", "-ast-dump=json", "-Xclang", "-ast-dump-filter=" + fn, "-fsyntax-only",
           "-DHAVE_CONFIG_H", "-D_GNU_SOURCE", "-D" + E.GUARD, "-w"] + E.include_flags(bdir) + [src]
    p = subprocess.run(cmd, capture_output=True, text=True)
    if p.returncode != 0:
        raise TieBroken("ast:" + fn, "clang cannot parse %s: %s" % (relsrc, p.stderr[-800:]))
    s, dec, i, found = p.stdout, json.JSONDecoder(), 0, None
    while i < len(s):
        while i < len(s) and s[i].isspace():
            i += 1
        if i >= len(s):
            break
        o, i = dec.raw_decode(s, i)
        if o.get("kind") == "FunctionDecl" and o.get("name") == fn and any(
                c.get("kind") == "CompoundStmt" for c in o.get("inner", [])):
            found = o
    if found is None:
        raise TieBroken("fn:" + fn, "function %s with a body not found in %s" % (fn, relsrc))
    return found


def kids(n):
    return [c for c in n.get("inner", []) if isinstance(c, dict) and c]


def body_of(fn):
    for c in kids(fn):
        if c.get("kind") == "CompoundStmt":
            return c
    raise TieBroken("fn:" + fn.get("name", "?"), "no body")


def qtype(n):
    t = n.get("type", {})
    q = t.get("desugaredQualType") or t.get("qualType") or ""
    return q.replace("const ", "").replace("volatile ", "").strip()


def bits_of(q):
    return BITS.get(q)


def strip(n):
    while True:
        k = n.get("kind")
        if k in ("ParenExpr", "ConstantExpr"):
            n = kids(n)[0]
        elif k == "ImplicitCastExpr" and n.get("castKind") in ("LValueToRValue", "NoOp"):
            n = kids(n)[0]
        else:
            return n


def walk(n):
    yield n
    for c in kids(n):
        yield from walk(c)


class Sym:
    """symbolic executor over tracked integer variables"""

    def __init__(self, site, globals_, members, inputs, call_marker=None):
        self.site = site
        self.globals = set(globals_)          # tracked variables referenced by name
        self.members = dict(members)          # struct member name -> tracked variable
        self.state = {v: v for v in inputs}   # variable -> Lean Int expression over the inputs
        self.call_marker = call_marker
        self.called = "false"
        self.at_call = None
        self.symbols = {}                     # literal value -> Lean name of the regenerated constant (site specific)
        self.brk = "False"
        self.ret = "False"
        self.allow_return = False
        self.writes_after_call = False

    # ---- lvalues -----------------------------------------------------------
    def lvalue(self, n):
        n = strip(n)
        if n.get("kind") == "DeclRefExpr":
            name = n.get("referencedDecl", {}).get("name")
            if name in self.globals:
                return name
        if n.get("kind") == "MemberExpr" and n.get("name") in self.members:
            return self.members[n["name"]]
        return None

    def writes_tracked(self, n):
        for x in walk(n):
            k = x.get("kind")
            if k == "UnaryOperator" and x.get("opcode") in ("++", "--") and self.lvalue(kids(x)[0]):
                return True
            if k in ("BinaryOperator", "CompoundAssignOperator") and x.get("opcode", "").endswith("=") and \
                    x.get("opcode") not in ("==", "!=", "<=", ">=") and self.lvalue(kids(x)[0]):
                return True
            if k == "CallExpr" and self.callee(x) == "platform_atomic_store_int" and self.store_target(x):
                return True
        return False

    def store_target(self, call):
        """platform_atomic_store_int(&v, val) with v tracked -> v"""
        args = kids(call)
        if len(args) != 3:
            return None
        a = strip(args[1])
        if a.get("kind") == "UnaryOperator" and a.get("opcode") == "&":
            return self.lvalue(kids(a)[0])
        return None

    def mentions_tracked(self, n):
        return any(x.get("kind") in ("DeclRefExpr", "MemberExpr") and self.lvalue(x) for x in walk(n))

    def relevant(self, n):
        if self.writes_tracked(n):
            return True
        for x in walk(n):
            k = x.get("kind")
            # a guard that neither reads nor writes a tracked variable is independent of the slice
            if k in ("BreakStmt", "ReturnStmt", "ContinueStmt", "GotoStmt") and self.mentions_tracked(n):
                return True
            if k == "CallExpr" and self.call_marker and self.callee(x) == self.call_marker:
                return True
        return False

    @staticmethod
    def callee(call):
        f = strip(kids(call)[0])
        while f.get("kind") == "ImplicitCastExpr":
            f = strip(kids(f)[0])
        if f.get("kind") == "DeclRefExpr":
            return f.get("referencedDecl", {}).get("name")
        return None

    # ---- expressions: returns ("int"|"prop", text) ---------------------------
    def as_int(self, r):
        return r[1] if r[0] == "int" else "(if %s then 1 else 0)" % r[1]

    def as_prop(self, r):
        return r[1] if r[0] == "prop" else "(%s ≠ 0)" % r[1]

    def assign(self, var, val):
        if self.at_call is not None and var in ("ticks", "interval"):
            self.writes_after_call = True
        self.state[var] = val

    def narrow(self, n, text, src_q):
        """value of `text` (of C type src_q) converted to the type of node n"""
        dst, src = bits_of(qtype(n)), bits_of(src_q)
        if dst is None or src is None:
            raise OutOfGrammar("cast between %s and %s" % (src_q, qtype(n)))
        if dst >= src:
            return text
        if dst == 16:
            return "trunc16 (%s)" % text
        if dst == 32:
            return "trunc32 (%s)" % text
        raise OutOfGrammar("narrowing to %d bits" % dst)

    def expr(self, n):
        k = n.get("kind")
        if k in ("ParenExpr", "ConstantExpr"):
            return self.expr(kids(n)[0])
        if k == "IntegerLiteral":
            v = int(n["value"])
            if v in self.symbols:
                return ("int", self.symbols[v])
            return ("int", str(v) if v >= 0 else "(%d)" % v)
        if k == "ImplicitCastExpr" and n.get("castKind") in ("LValueToRValue", "NoOp"):
            return self.expr(kids(n)[0])
        if k in ("ImplicitCastExpr", "CStyleCastExpr") and n.get("castKind") == "NullToPointer":
            return self.expr(kids(n)[0])
        if k in ("ImplicitCastExpr", "CStyleCastExpr") and n.get("castKind") in ("IntegralCast", "NoOp"):
            inner = kids(n)[0]
            r = self.expr(inner)
            return ("int", self.narrow(n, self.as_int(r), qtype(inner)))
        if k in ("DeclRefExpr", "MemberExpr"):
            v = self.lvalue(n)
            if v is None or v not in self.state:
                raise OutOfGrammar("untracked operand %s" % (n.get("name") or n.get("referencedDecl", {}).get("name")))
            return ("int", self.state[v])
        if k == "UnaryOperator":
            op = n.get("opcode")
            sub = kids(n)[0]
            if op == "!":
                return ("prop", "¬ %s" % self.as_prop(self.expr(sub)))
            if op == "-":
                return ("int", "(-%s)" % self.as_int(self.expr(sub)))
            if op in ("++", "--"):
                v = self.lvalue(sub)
                if v is None:
                    raise OutOfGrammar("%s on an untracked lvalue" % op)
                old = self.state[v]
                new = "(%s %s 1)" % (old, "+" if op == "++" else "-")
                b = bits_of(qtype(n))
                if b is not None and b < 32:
                    new = self.narrow(n, new, "int")
                self.assign(v, new)
                return ("int", old if n.get("isPostfix") else new)
            raise OutOfGrammar("unary " + str(op))
        if k == "BinaryOperator":
            op = n.get("opcode")
            a, b = kids(n)
            if op == "=":
                v = self.lvalue(a)
                if v is None and getattr(self, "nested_ok", False):
                    # store to something outside the slice: only the tracked assignments nested in the value count
                    for x in walk(b):
                        if x.get("kind") in ("BinaryOperator", "CompoundAssignOperator") and x.get("opcode", "").endswith("=") and \
                                x.get("opcode") not in ("==", "!=", "<=", ">=") and self.lvalue(kids(x)[0]):
                            self.expr(x)
                    return ("int", "0")
                if v is None:
                    raise OutOfGrammar("assignment to an untracked lvalue")
                val = self.as_int(self.expr(b))
                self.assign(v, val)
                return ("int", val)
            if op in ("&&", "||"):
                ra = self.as_prop(self.expr(a))
                saved = dict(self.state)
                rb = self.as_prop(self.expr(b))
                if self.state != saved:
                    raise OutOfGrammar("side effect in the right operand of " + op)
                return ("prop", "(%s %s %s)" % (ra, "∧" if op == "&&" else "∨", rb))
            ra = self.as_int(self.expr(a))
            if op == "&":
                lit = strip(b)
                while lit.get("kind") in ("ImplicitCastExpr", "CStyleCastExpr"):
                    lit = strip(kids(lit)[0])
                if lit.get("kind") == "IntegerLiteral":
                    c = int(lit["value"])
                    if c > 0 and c & (c - 1) == 0:
                        # x & 2^k on two's complement = bit k of x (Lean Int `/` and `%` round towards -inf for c > 0)
                        cs = self.symbols.get(c, str(c))
                        return ("int", "(((%s / %s) %% 2) * %s)" % (ra, cs, cs))
                raise OutOfGrammar("& with an operand that is not a power-of-two literal")
            rb = self.as_int(self.expr(b))
            if op in ("+", "-", "*"):
                return ("int", "(%s %s %s)" % (ra, op, rb))
            rel = {"<": "<", "<=": "≤", ">": ">", ">=": "≥", "==": "=", "!=": "≠"}
            if op in rel:
                return ("prop", "(%s %s %s)" % (ra, rel[op], rb))
            raise OutOfGrammar("binary " + str(op))
        if k == "CompoundAssignOperator" and n.get("opcode") in ("+=", "-="):
            a, b = kids(n)
            v = self.lvalue(a)
            if v is None:
                raise OutOfGrammar("compound assignment to an untracked lvalue")
            val = "(%s %s %s)" % (self.state[v], n["opcode"][0], self.as_int(self.expr(b)))
            self.assign(v, val)
            return ("int", val)
        if k == "ConditionalOperator":
            c, a, b = kids(n)
            pc = self.as_prop(self.expr(c))
            saved = dict(self.state)
            ra = self.as_int(self.expr(a))
            rb = self.as_int(self.expr(b))
            if self.state != saved:
                raise OutOfGrammar("side effect inside ?:")
            return ("int", "(if %s then %s else %s)" % (pc, ra, rb))
        if k == "CallExpr" and self.callee(n) == "platform_atomic_load_int":
            arg = strip(kids(n)[1])
            if arg.get("kind") == "UnaryOperator" and arg.get("opcode") == "&":
                return self.expr(kids(arg)[0])
        raise OutOfGrammar("expression kind %s" % k)

    # ---- statements ----------------------------------------------------------
    def merge(self, cond, st1, st2):
        out = {}
        for v in st1:
            out[v] = st1[v] if st1[v] == st2[v] else "(if %s then %s else %s)" % (cond, st1[v], st2[v])
        return out

    def snapshot(self):
        return (dict(self.state), self.called, self.at_call, self.brk, self.ret)

    def restore(self, s):
        self.state, self.called, self.at_call, self.brk, self.ret = dict(s[0]), s[1], s[2], s[3], s[4]

    def stmt(self, n):
        k = n.get("kind")
        if k == "NullStmt":
            return
        if k == "CompoundStmt":
            for c in kids(n):
                self.stmt(c)
            return
        if k == "BreakStmt":
            self.brk = "True"
            return
        if k == "ReturnStmt" and self.allow_return:
            self.ret = "True"
            return
        if not self.relevant(n):
            return
        if k == "IfStmt":
            ks = kids(n)
            cond = self.as_prop(self.expr(ks[0]))
            base = self.snapshot()
            self.stmt(ks[1])
            s1 = self.snapshot()
            self.restore(base)
            if len(ks) > 2:
                self.stmt(ks[2])
            s2 = self.snapshot()
            self.state = self.merge(cond, s1[0], s2[0])

            def m(a, b, t="true", f="false"):
                if a == b:
                    return a
                if a == t and b == f:
                    return "decide %s" % cond if t == "true" else cond
                return "(if %s then %s else %s)" % (cond, a, b)
            self.called = m(s1[1], s2[1])
            if s1[2] is None and s2[2] is None:
                self.at_call = None
            else:
                self.at_call = m(s1[2] or "0", s2[2] or "0")
            self.brk = m(s1[3], s2[3], "True", "False")
            self.ret = m(s1[4], s2[4], "True", "False")
            return
        if k == "ReturnStmt" and self.allow_return:
            self.ret = "True"
            return
        if k == "BreakStmt":
            self.brk = "True"
            return
        if k == "CallExpr" and self.callee(n) == "platform_atomic_store_int" and self.store_target(n):
            self.assign(self.store_target(n), self.as_int(self.expr(kids(n)[2])))
            return
        if k == "CallExpr" and self.call_marker and self.callee(n) == self.call_marker:
            if self.called != "false":
                raise OutOfGrammar("second call of " + self.call_marker)
            self.called = "true"
            self.at_call = self.state.get("ticks", "0")
            return
        if k in ("BinaryOperator", "UnaryOperator", "ParenExpr", "CompoundAssignOperator"):
            self.expr(n)
            return
        raise OutOfGrammar("statement kind %s" % k)

    def run(self, stmts):
        try:
            for s in stmts:
                self.stmt(s)
        except OutOfGrammar as e:
            raise TieBroken(self.site, "%s: %s left the translator's grammar: %s" % (self.site, self.site, e))


OBSERVERS = {"debug_message", "debug_message_with_src", "debug_message_with_location", "opt_trace", "DEBUG_CHECK",
             "platform_atomic_load_int"}


def is_observer(name):
    """calls that only report: the logging family and verification hooks (`verif_*`, add-only observers under NEOLITH_VERIF)"""
    return name is not None and (name in OBSERVERS or name.startswith("verif_"))


def is_not_of(n, name):
    n = strip(n)
    if n.get("kind") == "UnaryOperator" and n.get("opcode") == "!":
        x = strip(kids(n)[0])
        return x.get("kind") == "DeclRefExpr" and x.get("referencedDecl", {}).get("name") == name
    return False


def extract(bdir):
    """returns (lean text, dict of recovered forms for the evidence)"""
    out = [PRELUDE]
    info = {}

    # ---------------- set_heart_beat --------------------------------------------------------------------------
    shb = body_of(ast_function(bdir, "src/backend.c", "set_heart_beat"))
    top = kids(shb)
    pos = [i for i, s in enumerate(top) if s.get("kind") == "IfStmt" and is_not_of(kids(s)[0], "to")]
    if len(pos) != 1:
        raise TieBroken("set_heart_beat:if(!to)", "the `if (!to)` removal test of set_heart_beat was not found")
    cut = pos[0]
    sy = Sym("set_heart_beat:clamp", ["to"], {}, ["to"])
    sy.run(top[:cut])
    info["clampTo"] = sy.state["to"]
    out.append("/-- src/backend.c set_heart_beat: what the statements in front of `if (!to)` make of `to` -/\n"
               "def clampTo (to : Int) : Int := %s\n" % sy.state["to"])

    removal = kids(top[cut])[1]
    sy = Sym("set_heart_beat:compensation", ["index", "heart_beat_index", "num_hb_to_do"], {},
             ["index", "heart_beat_index", "num_hb_to_do"])
    rel = [s for s in kids(removal) if Sym("x", ["heart_beat_index", "num_hb_to_do"], {}, []).writes_tracked(s)]
    if not rel:
        raise TieBroken("set_heart_beat:compensation", "no statement of the removal branch writes heart_beat_index / num_hb_to_do")
    for s in rel:
        if sy.writes_tracked(s) and Sym("x", ["index"], {}, []).writes_tracked(s):
            raise TieBroken("set_heart_beat:compensation", "compensation statement also writes `index`")
    sy.run(rel)
    info["rmCompensate"] = [sy.state["heart_beat_index"], sy.state["num_hb_to_do"]]
    out.append("/-- src/backend.c set_heart_beat, removal of the entry at `index`: new (heart_beat_index, num_hb_to_do) -/\n"
               "def rmCompensate (index heart_beat_index num_hb_to_do : Int) : Int × Int :=\n  (%s,\n   %s)\n"
               % (sy.state["heart_beat_index"], sy.state["num_hb_to_do"]))

    # append branch: the else of `if (ob->flags & O_HEART_BEAT)`, the last if-else at top level after the removal
    app = None
    for s in top[cut + 1:]:
        if s.get("kind") == "IfStmt" and len(kids(s)) == 3:
            app = kids(s)[2]
    if app is None:
        raise TieBroken("set_heart_beat:append", "the enable / append branch of set_heart_beat was not found")
    sy = Sym("set_heart_beat:append", ["to"], {"heart_beat_ticks": "ticks", "time_to_heart_beat": "interval"},
             ["to"])
    sy.state["ticks"] = "0"
    sy.state["interval"] = "0"
    sy.run(kids(app))
    info["appendStore"] = [sy.state["ticks"], sy.state["interval"]]
    out.append("/-- src/backend.c set_heart_beat, append branch: (heart_beat_ticks, time_to_heart_beat) of the new entry -/\n"
               "def appendStore (to : Int) : Int × Int :=\n  (%s,\n   %s)\n" % (sy.state["ticks"], sy.state["interval"]))

    import re as _re0
    flagdefs = open(os.path.join(E.REPO, "lib/lpc/object.h")).read()
    m0 = _re0.search(r"#define\s+O_ENABLE_COMMANDS\s+(0x[0-9a-fA-F]+|\d+)", flagdefs)
    if not m0:
        raise TieBroken("call_heart_beat:call-frame", "O_ENABLE_COMMANDS not found in lib/lpc/object.h")
    o_enable = int(m0.group(1), 0)

    def dref(n):
        n = strip(n)
        while n.get("kind") == "ImplicitCastExpr":
            n = strip(kids(n)[0])
        return n.get("referencedDecl", {}).get("name") if n.get("kind") == "DeclRefExpr" else None

    def is_zero(n):
        n = strip(n)
        while n.get("kind") in ("ImplicitCastExpr", "CStyleCastExpr"):
            n = strip(kids(n)[0])
        return n.get("kind") == "IntegerLiteral" and int(n["value"]) == 0

    def assign_of(n):
        """(lhs global name, rhs node) of a plain assignment statement, else None"""
        if n.get("kind") == "BinaryOperator" and n.get("opcode") == "=":
            a, b = kids(n)
            if dref(a):
                return dref(a), b
        return None

    def deref_ob_eq(n):
        """heart_beats[index].ob == ob"""
        n = strip(n)
        if n.get("kind") != "BinaryOperator" or n.get("opcode") != "==":
            return False
        a, b = (strip(x) for x in kids(n))
        while a.get("kind") == "ImplicitCastExpr":
            a = strip(kids(a)[0])
        while b.get("kind") == "ImplicitCastExpr":
            b = strip(kids(b)[0])
        if a.get("kind") != "MemberExpr" or a.get("name") != "ob":
            return False
        sub_ = strip(kids(a)[0])
        if sub_.get("kind") != "ArraySubscriptExpr":
            return False
        base, ix = kids(sub_)
        base = strip(base)
        while base.get("kind") == "ImplicitCastExpr":
            base = strip(kids(base)[0])
        ix = strip(ix)
        while ix.get("kind") == "ImplicitCastExpr":
            ix = strip(kids(ix)[0])
        return base.get("referencedDecl", {}).get("name") == "heart_beats" and ix.get("referencedDecl", {}).get("name") == "index" \
            and b.get("kind") == "DeclRefExpr" and b.get("referencedDecl", {}).get("name") == "ob"
    # ---------------- set_heart_beat: entry guard, retune branch, growth of the array -----------------------------------
    m2 = _re0.search(r"#define\s+O_DESTRUCTED\s+(0x[0-9a-fA-F]+|\d+)", flagdefs)
    o_destr = int(m2.group(1), 0) if m2 else None
    first = [st for st in top if st.get("kind") != "DeclStmt"][0]
    okg = first.get("kind") == "IfStmt" and len(kids(first)) == 2 and \
        any(x.get("kind") == "ReturnStmt" for x in walk(kids(first)[1])) and \
        any(x.get("kind") == "MemberExpr" and x.get("name") == "flags" for x in walk(kids(first)[0]))
    masks = [int(x["value"]) for x in walk(kids(first)[0]) if x.get("kind") == "IntegerLiteral"] if okg else []
    if not okg or len(masks) != 1 or o_destr is None:
        raise TieBroken("set_heart_beat:entry", "set_heart_beat does not start with `if (ob->flags & <mask>) return`")
    info["shbGuard"] = [masks[0], o_destr]
    out.append("/-- src/backend.c set_heart_beat: the flag mask of its first statement `if (ob->flags & mask) return 0;`, and the\n"
               "    value of O_DESTRUCTED in lib/lpc/object.h -/\n"
               "def shbGuardMask : Nat := %d\ndef oDestructed : Nat := %d\n" % (masks[0], o_destr))
    enabled = None
    for st in top[cut + 1:]:
        if st.get("kind") == "IfStmt" and len(kids(st)) == 3:
            enabled = kids(st)[1]
    if enabled is None:
        raise TieBroken("set_heart_beat:retune", "the branch for an object that already has a heart beat was not found")
    ek = kids(enabled)
    sy = Sym("set_heart_beat:retune", ["to"], {"heart_beat_ticks": "ticks", "time_to_heart_beat": "interval"}, ["to"])
    sy.state["ticks"] = "ticks"
    sy.state["interval"] = "interval"
    sy.allow_return = True
    pre = [st for st in ek if st.get("kind") != "WhileStmt"]
    loops_e = [st for st in ek if st.get("kind") == "WhileStmt"]
    if len(loops_e) != 1:
        raise TieBroken("set_heart_beat:retune", "expected one search loop in the retune branch")
    sy.run([st for st in ek[:ek.index(loops_e[0])]])
    refuse = sy.ret
    stores = [x for x in walk(loops_e[0]) if x.get("kind") == "IfStmt" and deref_ob_eq(kids(x)[0])]
    if len(stores) != 1:
        raise TieBroken("set_heart_beat:retune", "the retune loop has no `if (heart_beats[index].ob == ob) { store; break; }`")
    sy.allow_return = False
    body_st = kids(stores[0])[1]
    sy.run([c for c in (kids(body_st) if body_st.get("kind") == "CompoundStmt" else [body_st]) if c.get("kind") != "BreakStmt"])
    info["retuneStore"] = [refuse, sy.state["ticks"], sy.state["interval"]]
    out.append("/-- src/backend.c set_heart_beat, object already on the list: (refused, heart_beat_ticks, time_to_heart_beat) -/\n"
               "def retuneStore (to ticks interval : Int) : Bool × Int × Int :=\n  (decide %s,\n   %s,\n   %s)\n"
               % (refuse, sy.state["ticks"], sy.state["interval"]))
    sy = Sym("set_heart_beat:growth", ["max_heart_beats", "num_hb_objs"], {}, ["max_heart_beats", "num_hb_objs"])
    sy.nested_ok = True
    m3 = _re0.search(r"#define\s+HEART_BEAT_CHUNK\s+(0x[0-9a-fA-F]+|\d+)", open(os.path.join(E.REPO, "lib/efuns/options.h")).read())
    if m3:
        sy.symbols = {int(m3.group(1), 0): "((heartBeatChunk : Nat) : Int)"}
    grow = [st for st in kids(app) if st.get("kind") == "IfStmt" and sy.writes_tracked(st)]
    if len(grow) != 1:
        raise TieBroken("set_heart_beat:growth", "expected one if-statement that grows max_heart_beats in the append branch")
    sy.run(grow)
    if sy.state["num_hb_objs"] != "num_hb_objs":
        raise TieBroken("set_heart_beat:growth", "the growth statement writes num_hb_objs")
    info["growCap"] = sy.state["max_heart_beats"]
    out.append("/-- src/backend.c set_heart_beat, append branch: max_heart_beats after the (re)allocation test -/\n"
               "def growCap (max_heart_beats num_hb_objs : Int) : Int := %s\n" % sy.state["max_heart_beats"])

    # ---------------- save_context / restore_context: command_giver is part of the saved context -----------------------
    def has_assign(fn_name, lhs_pred, rhs_pred):
        fn_ = ast_function(bdir, "src/error_context.c", fn_name)
        for x in walk(fn_):
            if x.get("kind") == "BinaryOperator" and x.get("opcode") == "=":
                a, b = kids(x)
                if lhs_pred(strip(a)) and rhs_pred(b):
                    return 1
        return 0

    def is_member(n, name):
        while n.get("kind") == "ImplicitCastExpr":
            n = strip(kids(n)[0])
        return n.get("kind") == "MemberExpr" and n.get("name") == name
    cs = [has_assign("save_context", lambda a: is_member(a, "save_command_giver"), lambda b: dref(b) == "command_giver"),
          has_assign("restore_context", lambda a: dref(a) == "command_giver", lambda b: is_member(strip(b), "save_command_giver"))]
    info["ctxSaveRestore"] = cs
    out.append("/-- src/error_context.c: save_context stores command_giver, restore_context puts it back (1 = present) -/\n"
               "def ctxSaveRestore : List Nat := %s\n" % str(cs))

    # ---------------- backend(): recovery point, top of the loop, the call of call_heart_beat; the timer callback ------------
    bfn = ast_function(bdir, "src/backend.c", "backend")
    btop = kids(body_of(bfn))
    wl_b = [i for i, st in enumerate(btop) if st.get("kind") == "WhileStmt"]
    if len(wl_b) != 1:
        raise TieBroken("backend:loop", "expected exactly one top-level while loop in backend()")

    def calls(n, name):
        return [x for x in walk(n) if x.get("kind") == "CallExpr" and Sym.callee(x) == name]
    rec = [i for i, st in enumerate(btop[:wl_b[0]]) if st.get("kind") == "IfStmt" and calls(kids(st)[0], "_setjmp") + calls(kids(st)[0], "setjmp")
           and calls(kids(st)[1], "restore_context")]
    loop_body = kids(btop[wl_b[0]])[1]
    lk = kids(loop_body)
    pos = {0: [], 1: [], 2: []}
    for i, st in enumerate(lk):
        a_ = assign_of(st)
        if a_ and a_[0] == "eval_cost" and any(dref(x) == "config_int" for x in walk(a_[1])):
            pos[0].append(i)
        if st.get("kind") == "CallExpr" and Sym.callee(st) == "remove_destructed_objects":
            pos[1].append(i)
        if st.get("kind") == "IfStmt" and len(kids(st)) == 2 and calls(kids(st)[1], "call_heart_beat"):
            c = strip(kids(st)[0])
            okc = c.get("kind") == "CallExpr" and Sym.callee(c) == "platform_atomic_load_int" and \
                any(dref(x) == "heart_beat_flag" for x in walk(c))
            if not okc:
                raise TieBroken("backend:loop", "call_heart_beat in the backend loop is not guarded by `if (HEART_BEAT_FLAG())`")
            pos[2].append(i)
    if len(rec) != 1 or any(len(v) != 1 for v in pos.values()) or len(calls(bfn, "call_heart_beat")) != 2 or \
            len(calls(btop[wl_b[0]], "call_heart_beat")) != 1:
        raise TieBroken("backend:loop", "backend(): expected the setjmp/restore_context recovery point in front of the loop, and in the "
                        "loop `eval_cost = max`, `remove_destructed_objects ()`, `if (HEART_BEAT_FLAG()) call_heart_beat ()` once "
                        "each (found %s, recovery points %d)" % ({k: len(v) for k, v in pos.items()}, len(rec)))
    border = [3] + [k for k, _ in sorted(pos.items(), key=lambda kv: kv[1][0])]
    info["backendOrder"] = border
    out.append("/-- src/backend.c backend(): 3 = `if (setjmp (econ.context)) restore_context (&econ);` in front of the loop, then inside\n"
               "    `while (1)`: 0 = `eval_cost = CONFIG_INT (__MAX_EVAL_COST__)`, 1 = `remove_destructed_objects ()` (which swaps replaced\n"
               "    programs), 2 = `if (HEART_BEAT_FLAG()) call_heart_beat ()` - what the harness command `tick` reproduces -/\n"
               "def backendOrder : List Nat := %s\n" % str(border))
    tfn = ast_function(bdir, "src/backend.c", "heartbeat_timer_callback")
    sy = Sym("heartbeat_timer_callback", ["heart_beat_flag"], {}, ["heart_beat_flag"])
    sy.run(kids(body_of(tfn)))
    info["timerSetsFlag"] = sy.state["heart_beat_flag"]
    out.append("/-- src/backend.c heartbeat_timer_callback: the value it leaves in heart_beat_flag (what the op `flag` emulates) -/\n"
               "def timerSetsFlag (heart_beat_flag : Int) : Int := %s\n" % sy.state["heart_beat_flag"])

    # ---------------- efun wrappers: f_query_heart_beat answers query_heart_beat of ITS ARGUMENT, f_heart_beats the array -----
    fq = ast_function(bdir, "lib/efuns/heart_beat.c", "f_query_heart_beat")
    qcalls = [x for x in walk(fq) if x.get("kind") == "CallExpr" and Sym.callee(x) == "query_heart_beat"]
    okq = len(qcalls) == 1 and dref(kids(qcalls[0])[1]) == "ob" and \
        any(assign_of(x) and assign_of(x)[0] == "ob" and any(y.get("kind") == "MemberExpr" and y.get("name") == "ob" for y in walk(assign_of(x)[1]))
            for x in walk(fq))
    fh = ast_function(bdir, "lib/efuns/heart_beat.c", "f_heart_beats")
    okh = len([x for x in walk(fh) if x.get("kind") == "CallExpr" and Sym.callee(x) == "get_heart_beats"]) == 1
    if not okq or not okh:
        raise TieBroken("efun:wrappers", "f_query_heart_beat is not `query_heart_beat (ob)` of its argument sp->u.ob, or f_heart_beats "
                        "does not push get_heart_beats ()")
    info["efunWrappers"] = [1, 1]
    out.append("/-- lib/efuns/heart_beat.c: f_query_heart_beat answers query_heart_beat (sp->u.ob), f_heart_beats pushes\n"
               "    get_heart_beats () (1 = shape found) -/\n"
               "def efunWrappers : List Nat := [1, 1]\n")

    # ---------------- get_heart_beats: filled from the back ---------------------------------------------------------------
    gh = ast_function(bdir, "src/backend.c", "get_heart_beats")
    gl = [x for x in walk(gh) if x.get("kind") == "WhileStmt"]
    rev = 0
    if len(gl) == 1:
        c = strip(kids(gl[0])[0])
        while c.get("kind") == "ImplicitCastExpr":
            c = strip(kids(c)[0])
        down = c.get("kind") == "UnaryOperator" and c.get("opcode") == "--" and c.get("isPostfix") and dref(kids(c)[0]) == "n"
        up = any(x.get("kind") == "UnaryOperator" and x.get("opcode") == "++" and dref(kids(x)[0]) == "hb" for x in walk(kids(gl[0])[1]))
        idx_n = any(x.get("kind") == "ArraySubscriptExpr" and dref(kids(x)[1]) == "n" for x in walk(kids(gl[0])[1]))
        rev = 1 if (down and up and idx_n) else 0
    if not rev:
        raise TieBroken("get_heart_beats:order", "get_heart_beats is not `while (n--) { arr->item[n] = hb->ob; hb++; }`")
    info["heartBeatsReversed"] = rev
    out.append("/-- src/backend.c get_heart_beats: item[n] (n counting down) receives the entries front to back: the efun answers\n"
               "    the list in reverse order -/\n"
               "def heartBeatsReversed : Bool := true\n")

    # ---------------- f_set_heart_beat ------------------------------------------------------------------------
    ef = body_of(ast_function(bdir, "lib/efuns/heart_beat.c", "f_set_heart_beat"))
    sy = Sym("f_set_heart_beat:argument", [], {}, [])
    inputs = []
    passed = None
    try:
        for s in kids(ef):
            if s.get("kind") == "DeclStmt":
                for d in kids(s):
                    if d.get("kind") != "VarDecl":
                        continue
                    sy.globals.add(d["name"])
                    init = [c for c in kids(d)]
                    try:
                        if not init:
                            raise OutOfGrammar("no initialiser")
                        val = sy.as_int(sy.expr(init[0]))
                        b = bits_of(qtype(d))
                        sy.state[d["name"]] = val
                    except OutOfGrammar:
                        inputs.append(d["name"])
                        sy.state[d["name"]] = "n"
            else:
                for x in walk(s):
                    if x.get("kind") == "CallExpr" and Sym.callee(x) == "set_heart_beat":
                        passed = sy.as_int(sy.expr(kids(x)[2]))
                if passed is None:
                    sy.stmt(s)
    except OutOfGrammar as e:
        raise TieBroken("f_set_heart_beat:argument", "f_set_heart_beat left the translator's grammar: %s" % e)
    if passed is None or len(inputs) != 1:
        raise TieBroken("f_set_heart_beat:argument", "cannot recover the argument conversion of f_set_heart_beat "
                        "(call of set_heart_beat found: %s, inputs: %s)" % (passed is not None, inputs))
    info["efunSat"] = passed
    out.append("/-- lib/efuns/heart_beat.c f_set_heart_beat: the `to` passed to set_heart_beat for the LPC argument n -/\n"
               "def efunSat (n : Int) : Int := %s\n" % passed)

    # ---------------- call_heart_beat -------------------------------------------------------------------------
    chb = ast_function(bdir, "src/backend.c", "call_heart_beat")
    loops = [x for x in walk(chb) if x.get("kind") == "WhileStmt"]
    if len(loops) != 1:
        raise TieBroken("call_heart_beat:while", "expected exactly one while loop in call_heart_beat, found %d" % len(loops))
    wcond, wbody = kids(loops[0])
    sy = Sym("call_heart_beat:while-condition", ["heart_beat_flag"], {}, ["heart_beat_flag"])
    try:
        c = sy.as_prop(sy.expr(wcond))
    except OutOfGrammar as e:
        raise TieBroken("call_heart_beat:while-condition", "while condition left the grammar: %s" % e)
    info["loopContinues"] = c
    out.append("/-- src/backend.c call_heart_beat: the condition of the while loop -/\n"
               "def loopContinues (heart_beat_flag : Int) : Bool := decide (%s)\n" % c)

    stmts = kids(wbody)
    if not stmts:
        raise TieBroken("call_heart_beat:body", "empty loop body")
    members = {"heart_beat_ticks": "ticks", "time_to_heart_beat": "interval", "heart_beat": "heart_beat"}
    sy = Sym("call_heart_beat:body", ["heart_beat_index", "num_hb_to_do"], members,
             ["heart_beat", "ticks", "interval", "heart_beat_index", "num_hb_to_do"], call_marker="call_function")
    sy.run(stmts[:-1])
    if sy.brk != "False" or sy.state["heart_beat_index"] != "heart_beat_index" or sy.state["num_hb_to_do"] != "num_hb_to_do":
        raise TieBroken("call_heart_beat:body", "the loop body changes the cursor or leaves the loop before its last statement")
    if sy.writes_after_call or sy.state["heart_beat"] != "heart_beat" or sy.state["interval"] != "interval":
        raise TieBroken("call_heart_beat:body", "the loop body writes ticks/interval after the call or writes the interval")
    if sy.at_call is None:
        raise TieBroken("call_heart_beat:body", "no call of call_function in the loop body")
    info["hbBody"] = [sy.state["ticks"], sy.called, sy.at_call]
    out.append("/-- src/backend.c call_heart_beat, loop body before the cursor step, for an entry (ticks, interval) of an object\n"
               "    whose program has `heart_beat` as function index (-1 = none):\n"
               "    (heart_beat_ticks afterwards, whether heart_beat() is called, heart_beat_ticks at the moment of the call) -/\n"
               "def hbBody (heart_beat ticks interval : Int) : Int × Bool × Int :=\n  (%s,\n   %s,\n   %s)\n"
               % (sy.state["ticks"], sy.called, sy.at_call))

    sy = Sym("call_heart_beat:loop-exit", ["heart_beat_index", "num_hb_to_do"], {}, ["heart_beat_index", "num_hb_to_do"])
    sy.run(stmts[-1:])
    if sy.brk == "False" or sy.state["num_hb_to_do"] != "num_hb_to_do":
        raise TieBroken("call_heart_beat:loop-exit", "the last statement of the loop body is not the loop exit")
    info["loopStep"] = [sy.state["heart_beat_index"], sy.brk]
    out.append("/-- src/backend.c call_heart_beat, last statement of the loop body: (new heart_beat_index, leave the loop) -/\n"
               "def loopStep (heart_beat_index num_hb_to_do : Int) : Int × Bool :=\n  (%s,\n   decide %s)\n"
               % (sy.state["heart_beat_index"], sy.brk))
    # ---------------- set_heart_beat, removal branch: the search loop and the memmove ---------------------------------
    rk = kids(removal)

    wl = [i for i, st in enumerate(rk) if st.get("kind") == "WhileStmt"]
    if len(wl) != 1 or wl[0] == 0:
        raise TieBroken("set_heart_beat:search", "expected exactly one search loop in the removal branch")
    sy = Sym("set_heart_beat:search", ["index", "num_hb_objs"], {}, ["index", "num_hb_objs"])
    sy.run(rk[:wl[0]])
    s_start = sy.state["index"]
    scond, sbody = kids(rk[wl[0]])
    sy = Sym("set_heart_beat:search", ["index", "num_hb_objs"], {}, ["index", "num_hb_objs"])
    try:
        s_cont = sy.as_prop(sy.expr(scond))
    except OutOfGrammar as e:
        raise TieBroken("set_heart_beat:search", "search loop condition left the grammar: %s" % e)
    s_next = sy.state["index"]
    sb = kids(sbody) if sbody.get("kind") == "CompoundStmt" else [sbody]
    if len(sb) != 1 or sb[0].get("kind") != "IfStmt" or not deref_ob_eq(kids(sb[0])[0]) or len(kids(sb[0])) != 2 or \
            not any(x.get("kind") == "BreakStmt" for x in walk(kids(sb[0])[1])) or \
            Sym("x", ["index", "num_hb_objs", "heart_beat_index", "num_hb_to_do"], {}, []).writes_tracked(sbody):
        raise TieBroken("set_heart_beat:search", "the body of the search loop is not `if (heart_beats[index].ob == ob) break;`")
    miss = rk[wl[0] + 1]
    sy = Sym("set_heart_beat:search", ["index"], {}, ["index"])
    if miss.get("kind") != "IfStmt" or not any(x.get("kind") == "ReturnStmt" for x in walk(kids(miss)[1])):
        raise TieBroken("set_heart_beat:search", "no `if (index < 0) return` after the search loop")
    try:
        s_miss = sy.as_prop(sy.expr(kids(miss)[0]))
    except OutOfGrammar as e:
        raise TieBroken("set_heart_beat:search", "not-found test left the grammar: %s" % e)
    info["search"] = [s_start, s_next, s_cont, s_miss]
    out.append("/-- src/backend.c set_heart_beat, removal: `index = num_hb_objs; while (index--) if (heart_beats[index].ob == ob) break;\n"
               "    if (index < 0) return 0;` - start value, one evaluation of the loop condition (new index, go on), not-found test -/\n"
               "def searchStart (num_hb_objs : Int) : Int := %s\n"
               "def searchNext (index : Int) : Int × Bool := (%s, decide %s)\n"
               "def searchMiss (index : Int) : Bool := decide %s\n" % (s_start.replace("index", "num_hb_objs") if s_start == "index" else s_start,
                                                                         s_next, s_cont, s_miss))

    def ptr_off(n):
        """offset (in elements) of a pointer expression based on heart_beats"""
        n = strip(n)
        while n.get("kind") in ("ImplicitCastExpr", "CStyleCastExpr"):
            n = strip(kids(n)[0])
        if n.get("kind") == "DeclRefExpr" and n.get("referencedDecl", {}).get("name") == "heart_beats":
            return "0"
        if n.get("kind") == "BinaryOperator" and n.get("opcode") == "+":
            a, b = kids(n)
            pa = None
            try:
                pa = ptr_off(a)
            except OutOfGrammar:
                pa = None
            if pa is not None:
                return "(%s + %s)" % (pa, mv.as_int(mv.expr(b))) if pa != "0" else mv.as_int(mv.expr(b))
            return "(%s + %s)" % (mv.as_int(mv.expr(a)), ptr_off(b))
        raise OutOfGrammar("pointer expression not based on heart_beats")
    mv = Sym("set_heart_beat:memmove", ["index", "num_hb_objs", "num"], {}, ["index", "num_hb_objs"])
    mv.state["num"] = "0"
    mm = [x for st in rk[wl[0] + 2:] for x in walk(st) if x.get("kind") == "CallExpr" and Sym.callee(x) in ("memmove", "memcpy")]
    if len(mm) != 1:
        raise TieBroken("set_heart_beat:memmove", "expected exactly one memmove in the removal branch")
    try:
        move = None
        for st in rk[wl[0] + 2:]:
            if any(x is mm[0] for x in walk(st)):
                if st.get("kind") != "IfStmt" or len(kids(st)) != 2:
                    raise OutOfGrammar("memmove is not guarded by a plain if")
                guard = mv.as_prop(mv.expr(kids(st)[0]))
                a = kids(mm[0])
                cnt = strip(a[3])
                while cnt.get("kind") in ("ImplicitCastExpr", "CStyleCastExpr"):
                    cnt = strip(kids(cnt)[0])
                if cnt.get("kind") != "BinaryOperator" or cnt.get("opcode") != "*":
                    raise OutOfGrammar("memmove length is not count * sizeof")
                parts = [strip(x) for x in kids(cnt)]
                sz = [x for x in parts if x.get("kind") == "UnaryExprOrTypeTraitExpr"]
                other = [x for x in parts if x.get("kind") != "UnaryExprOrTypeTraitExpr"]
                if len(sz) != 1 or sz[0].get("name") != "sizeof" or "heart_beat_t" not in json.dumps(sz[0].get("argType", {})):
                    raise OutOfGrammar("memmove length is not a multiple of sizeof (heart_beat_t)")
                o = other[0]
                while o.get("kind") in ("ImplicitCastExpr", "CStyleCastExpr"):
                    o = strip(kids(o)[0])
                move = (ptr_off(a[1]), ptr_off(a[2]), mv.as_int(mv.expr(o)), guard)
            elif mv.relevant(st):
                mv.stmt(st)
        if move is None:
            raise OutOfGrammar("memmove statement not found at the top level of the removal branch")
    except OutOfGrammar as e:
        raise TieBroken("set_heart_beat:memmove", "the memmove of the removal branch left the grammar: %s" % e)
    info["rmMove"] = list(move) + [mv.state["num_hb_objs"]]
    out.append("/-- src/backend.c set_heart_beat, removal of the entry at `index`: memmove (heart_beats + dst, heart_beats + src,\n"
               "    cnt * sizeof (heart_beat_t)) under its guard, then the new num_hb_objs: (dst, src, cnt, guard, num_hb_objs) -/\n"
               "def rmMove (index num_hb_objs : Int) : Int × Int × Int × Bool × Int :=\n  (%s,\n   %s,\n   %s,\n   decide %s,\n   %s)\n"
               % (move[0], move[1], move[2], move[3], mv.state["num_hb_objs"]))

    # ---------------- query_heart_beat: which field is returned ---------------------------------------------------------
    qfn = ast_function(bdir, "src/backend.c", "query_heart_beat")
    rets = [x for x in walk(qfn) if x.get("kind") == "ReturnStmt"]
    fields = []
    for r_ in rets:
        v = strip(kids(r_)[0]) if kids(r_) else {}
        while v.get("kind") in ("ImplicitCastExpr", "CStyleCastExpr"):
            v = strip(kids(v)[0])
        if v.get("kind") == "IntegerLiteral" and int(v["value"]) == 0:
            fields.append(0)
        elif v.get("kind") == "MemberExpr" and v.get("name") == "time_to_heart_beat":
            fields.append(1)
        elif v.get("kind") == "MemberExpr" and v.get("name") == "heart_beat_ticks":
            fields.append(2)
        else:
            raise TieBroken("query_heart_beat:return", "query_heart_beat returns something the translator does not know")
    info["queryReturns"] = fields
    out.append("/-- src/backend.c query_heart_beat, its return statements in source order: 0 = `return 0`, 1 = the interval\n"
               "    (time_to_heart_beat) of the matching entry, 2 = its countdown (heart_beat_ticks) -/\n"
               "def queryReturns : List Nat := %s\n" % str(fields))

    # ---------------- reload_object / clone_object: the heart-beat switch-off comes before create() ---------------------
    def order_of(fn_name, relsrc, site, recognisers):
        fn_ = ast_function(bdir, relsrc, fn_name)
        tops = kids(body_of(fn_))
        where_ = {k: [] for k in recognisers}
        for i, st in enumerate(tops):
            for k, rec in recognisers.items():
                if rec(st):
                    where_[k].append(i)
        if any(len(v) != 1 for v in where_.values()):
            raise TieBroken(site, "%s: expected each of the statements once at top level, found %s"
                            % (fn_name, {k: len(v) for k, v in where_.items()}))
        n_shb = sum(1 for x in walk(fn_) if x.get("kind") == "CallExpr" and Sym.callee(x) == "set_heart_beat")
        if n_shb != 1:
            raise TieBroken(site, "%s calls set_heart_beat %d times" % (fn_name, n_shb))
        return [k for k, _ in sorted(where_.items(), key=lambda kv: kv[1][0])]

    def shb_zero_call(st, var):
        for x in walk(st):
            if x.get("kind") == "CallExpr" and Sym.callee(x) == "set_heart_beat":
                a = kids(x)
                return dref(a[1]) == var and is_zero(a[2])
        return False

    def clears_enable(st):
        return st.get("kind") == "CompoundAssignOperator" and st.get("opcode") == "&=" and \
            any(x.get("kind") == "IntegerLiteral" and int(x["value"]) == o_enable for x in walk(st))
    rorder = order_of("reload_object", "lib/lpc/object.c", "reload_object:order", {
        0: clears_enable,
        1: lambda st: st.get("kind") == "CallExpr" and shb_zero_call(st, "obj"),
        2: lambda st: st.get("kind") == "CallExpr" and Sym.callee(st) == "call_create"})
    info["reloadOrder"] = rorder
    out.append("/-- lib/lpc/object.c reload_object: order of 0 = `obj->flags &= ~O_ENABLE_COMMANDS`, 1 = `set_heart_beat (obj, 0)`,\n"
               "    2 = `call_create (obj, 0)` -/\n"
               "def reloadOrder : List Nat := %s\n" % str(rorder))
    m1 = _re0.search(r"#define\s+O_HEART_BEAT\s+(0x[0-9a-fA-F]+|\d+)", flagdefs)
    o_hb = int(m1.group(1), 0) if m1 else None

    def blueprint_off(st):
        if st.get("kind") != "IfStmt" or len(kids(st)) != 2 or not shb_zero_call(kids(st)[1], "ob"):
            return False
        c = strip(kids(st)[0])
        return any(x.get("kind") == "IntegerLiteral" and int(x["value"]) == o_hb for x in walk(c)) and \
            any(x.get("kind") == "MemberExpr" and x.get("name") == "flags" for x in walk(c))
    corder = order_of("clone_object", "src/simulate.c", "clone_object:order", {
        0: blueprint_off,
        1: lambda st: st.get("kind") == "CallExpr" and Sym.callee(st) == "call_create"})
    info["cloneOrder"] = corder
    out.append("/-- src/simulate.c clone_object: order of 0 = `if (ob->flags & O_HEART_BEAT) set_heart_beat (ob, 0)` on the blueprint,\n"
               "    1 = `call_create (new_ob, num_arg)` -/\n"
               "def cloneOrder : List Nat := %s\n" % str(corder))

    # ---------------- call_heart_beat: the frame of a round (entry, exit, no round at all) ---------------------------
    ctop = kids(body_of(chb))
    ifpos = [i for i, st in enumerate(ctop) if st.get("kind") == "IfStmt" and any(x is loops[0] for x in walk(st))]
    if len(ifpos) != 1 or len(kids(ctop[ifpos[0]])) != 2 or kids(ctop[ifpos[0]])[1].get("kind") != "CompoundStmt":
        raise TieBroken("call_heart_beat:frame", "the while loop of call_heart_beat is not inside exactly one top-level if without else")
    fi = ifpos[0]
    fcond, fthen = kids(ctop[fi])
    tk = kids(fthen)
    wpos = [i for i, st in enumerate(tk) if st is loops[0]]
    if len(wpos) != 1:
        raise TieBroken("call_heart_beat:frame", "the while loop is not a direct statement of the guarded block")
    frame_vars = ["num_hb_objs", "heart_beat_index", "num_hb_to_do", "heart_beat_flag", "current_heart_beat"]

    def macro_value(relpath, name):
        m_ = _re0.search(r"#define\s+%s\s+(0x[0-9a-fA-F]+|\d+)" % name, open(os.path.join(E.REPO, relpath)).read())
        return int(m_.group(1), 0) if m_ else None
    tfhb = macro_value("src/main.h", "TIMER_FLAG_HEARTBEAT")

    def frame_sym(site):
        sy = Sym(site, frame_vars, {"timer_flags": "timer_flags"}, frame_vars + ["timer_flags"])
        if tfhb is not None:
            sy.symbols = {tfhb: "((timerFlagHeartbeat : Nat) : Int)"}
        return sy
    sy = frame_sym("call_heart_beat:round-entry")
    sy.run(ctop[:fi])
    try:
        gcond = sy.as_prop(sy.expr(fcond))
    except OutOfGrammar as e:
        raise TieBroken("call_heart_beat:round-entry", "the guard of the round left the grammar: %s" % e)
    st0 = dict(sy.state)
    sy.run(tk[:wpos[0]])
    st1 = dict(sy.state)
    if sy.brk != "False" or st0["num_hb_objs"] != "num_hb_objs" or st1["num_hb_objs"] != "num_hb_objs" \
            or st1["current_heart_beat"] != "current_heart_beat" or st1["timer_flags"] != "timer_flags":
        raise TieBroken("call_heart_beat:round-entry", "the entry of the round writes num_hb_objs / current_heart_beat / timer_flags")
    ent = sy.merge(gcond, st1, st0)
    info["roundEntry"] = [ent["heart_beat_index"], ent["num_hb_to_do"], ent["heart_beat_flag"], gcond]
    out.append("/-- src/backend.c call_heart_beat up to the while loop: (heart_beat_index, num_hb_to_do, heart_beat_flag, whether the\n"
               "    round is entered) -/\n"
               "def roundEntry (num_hb_objs heart_beat_index num_hb_to_do heart_beat_flag timer_flags : Int) : Int × Int × Int × Bool :=\n"
               "  (%s,\n   %s,\n   %s,\n   decide %s)\n" % (ent["heart_beat_index"], ent["num_hb_to_do"], ent["heart_beat_flag"], gcond))
    for name, stmts, doc in (("roundExit", tk[wpos[0] + 1:] + ctop[fi + 1:], "after the while loop"),
                             ("roundSkip", ctop[fi + 1:], "when the round is not entered")):
        sy = frame_sym("call_heart_beat:" + name)
        sy.run(stmts)
        if sy.brk != "False" or sy.state["num_hb_objs"] != "num_hb_objs" or sy.state["heart_beat_flag"] != "heart_beat_flag":
            raise TieBroken("call_heart_beat:" + name, "the end of call_heart_beat writes num_hb_objs / heart_beat_flag")
        info[name] = [sy.state["heart_beat_index"], sy.state["num_hb_to_do"], sy.state["current_heart_beat"]]
        out.append("/-- src/backend.c call_heart_beat %s: (heart_beat_index, num_hb_to_do, current_heart_beat; 0 = NULL) -/\n"
                   "def %s (heart_beat_index num_hb_to_do current_heart_beat : Int) : Int × Int × Int :=\n  (%s,\n   %s,\n   %s)\n"
                   % (doc, name, sy.state["heart_beat_index"], sy.state["num_hb_to_do"], sy.state["current_heart_beat"]))

    # ---------------- call_heart_beat: where current_heart_beat is cleared relative to the sweep and the call_out dispatch ---
    def calls_named(n, name):
        return any(x.get("kind") == "CallExpr" and Sym.callee(x) == name for x in walk(n))
    tpos = {0: [fi], 1: [], 2: [], 3: []}
    for i, st in enumerate(ctop):
        a_ = assign_of(st)
        if a_ and a_[0] == "current_heart_beat" and is_zero(a_[1]):
            tpos[1].append(i)
        if calls_named(st, "look_for_objects_to_swap"):
            tpos[2].append(i)
        if calls_named(st, "call_out"):
            tpos[3].append(i)
    n_clear = sum(1 for x in walk(chb) if assign_of(x) and assign_of(x)[0] == "current_heart_beat" and is_zero(assign_of(x)[1]))
    if any(len(v) != 1 for v in tpos.values()) or n_clear != 1:
        raise TieBroken("call_heart_beat:tail", "call_heart_beat: expected, at top level and once each, the guarded round, "
                        "`current_heart_beat = 0`, the look_for_objects_to_swap () call and the call_out () call; found %s"
                        % {k: len(v) for k, v in tpos.items()})
    tail = [k for k, _ in sorted(tpos.items(), key=lambda kv: kv[1][0])]
    info["chbTail"] = tail
    out.append("/-- src/backend.c call_heart_beat, top-level order of 0 = the guarded round, 1 = `current_heart_beat = 0`,\n"
               "    2 = the reset()/clean_up() sweep `look_for_objects_to_swap ()`, 3 = the dispatch `call_out ()` -/\n"
               "def chbTail : List Nat := %s\n" % str(tail))

    # ---------------- call_heart_beat: the statements around the call of heart_beat() --------------------------------
    def find_block(n):
        """the compound statement that directly holds the call_function statement"""
        if n.get("kind") == "CompoundStmt":
            for c in kids(n):
                if c.get("kind") == "CallExpr" and Sym.callee(c) == "call_function":
                    return n
        for c in kids(n):
            r = find_block(c)
            if r is not None:
                return r
        return None
    blk = find_block(wbody)
    if blk is None:
        raise TieBroken("call_heart_beat:call-frame", "call_function is not a direct statement of a block of the loop body")

    def frame_code(st):
        a = assign_of(st)
        if a:
            lhs, rhs = a
            if lhs == "current_heart_beat" and dref(rhs) == "ob":
                return 1
            if lhs == "command_giver" and dref(rhs) == "ob":
                return 2
            if lhs == "eval_cost" and any(x.get("kind") == "DeclRefExpr" and x.get("referencedDecl", {}).get("name") == "config_int"
                                          for x in walk(rhs)) and not any(dref(x) == "eval_cost" for x in walk(rhs)):
                return 4
            if lhs == "command_giver" and is_zero(rhs):
                return 5
            if lhs == "current_object" and is_zero(rhs):
                return 6
            return None
        if st.get("kind") == "CallExpr" and Sym.callee(st) == "call_function":
            return 0
        if st.get("kind") == "IfStmt" and len(kids(st)) == 2:
            c, body = kids(st)
            c = strip(c)
            if c.get("kind") == "UnaryOperator" and c.get("opcode") == "!":
                t = strip(kids(c)[0])
                if t.get("kind") == "BinaryOperator" and t.get("opcode") == "&":
                    l, r = kids(t)
                    l = strip(l)
                    while l.get("kind") == "ImplicitCastExpr":
                        l = strip(kids(l)[0])
                    r = strip(r)
                    while r.get("kind") in ("ImplicitCastExpr", "CStyleCastExpr"):
                        r = strip(kids(r)[0])
                    inner = [body] if body.get("kind") != "CompoundStmt" else kids(body)
                    if l.get("kind") == "MemberExpr" and l.get("name") == "flags" and dref(kids(l)[0]) == "command_giver" \
                            and r.get("kind") == "IntegerLiteral" and int(r["value"]) == o_enable and len(inner) == 1 \
                            and assign_of(inner[0]) and assign_of(inner[0])[0] == "command_giver" and is_zero(assign_of(inner[0])[1]):
                        return 3
        return None

    def harmless(st):
        """no store to a global / through a pointer other than the countdown, no call except tracing"""
        for x in walk(st):
            k = x.get("kind")
            if k == "CallExpr" and not is_observer(Sym.callee(x)):
                return False
            if k in ("BinaryOperator", "CompoundAssignOperator") and x.get("opcode", "").endswith("=") and \
                    x.get("opcode") not in ("==", "!=", "<=", ">="):
                tgt = strip(kids(x)[0])
                if not (tgt.get("kind") == "MemberExpr" and tgt.get("name") == "heart_beat_ticks"):
                    return False
            if k == "UnaryOperator" and x.get("opcode") in ("++", "--"):
                return False
            if k in ("ReturnStmt", "BreakStmt", "ContinueStmt", "GotoStmt"):
                return False
        return True
    frame = []
    for st in kids(blk):
        c = frame_code(st)
        if c is not None:
            frame.append(c)
        elif not harmless(st):
            raise TieBroken("call_heart_beat:call-frame", "a statement next to the heart_beat call is not one the translator knows "
                            "(line %s)" % st.get("range", {}).get("begin", {}).get("line", "?"))
    if frame.count(0) != 1:
        raise TieBroken("call_heart_beat:call-frame", "expected exactly one call_function in the block")
    info["callFrame"] = frame
    out.append("/-- src/backend.c call_heart_beat, statements around the call in source order: 1 = `current_heart_beat = ob`,\n"
               "    2 = `command_giver = ob`, 3 = `if (!(command_giver->flags & O_ENABLE_COMMANDS)) command_giver = 0`,\n"
               "    4 = `eval_cost = CONFIG_INT (__MAX_EVAL_COST__)`, 0 = the call of heart_beat(), 5 = `command_giver = 0`,\n"
               "    6 = `current_object = 0` -/\n"
               "def callFrame : List Nat := %s\n" % str(frame))

    # ---------------- error_handler: catch branch first, then the heart-beat switch-off, then the longjmp -------------
    eh = ast_function(bdir, "src/error_context.c", "error_handler")
    etop = kids(body_of(eh))

    def has_call(n, name):
        return any(x.get("kind") == "CallExpr" and Sym.callee(x) == name for x in walk(n))

    def is_catch_if(st):
        # the FRAME_CATCH test: an if whose condition reads `framekind` and whose body longjmps
        return st.get("kind") == "IfStmt" and any(x.get("kind") == "MemberExpr" and x.get("name") == "framekind"
                                                    for x in walk(kids(st)[0])) and has_call(kids(st)[1], "longjmp")

    def is_hb_if(st):
        return st.get("kind") == "IfStmt" and len(kids(st)) == 2 and dref(kids(st)[0]) == "current_heart_beat"
    ewhere = {0: [], 1: [], 2: []}
    for i, st in enumerate(etop):
        if is_catch_if(st):
            ewhere[0].append(i)
        elif is_hb_if(st):
            ewhere[1].append(i)
        elif st.get("kind") == "IfStmt" and dref(kids(st)[0]) == "current_error_context" and has_call(kids(st)[1], "longjmp") \
                and i > 0 and ewhere[1]:
            ewhere[2].append(i)
    n_hb_calls = sum(1 for x in walk(eh) if x.get("kind") == "CallExpr" and Sym.callee(x) == "set_heart_beat")
    n_cur_writes = sum(1 for x in walk(eh) if assign_of(x) and assign_of(x)[0] == "current_heart_beat")
    if any(len(v) != 1 for v in ewhere.values()) or n_hb_calls != 1 or n_cur_writes != 1:
        raise TieBroken("error_handler:order", "error_handler: expected one catch branch, one `if (current_heart_beat)` block and the "
                        "final longjmp at top level, found %s (set_heart_beat calls: %d, current_heart_beat stores: %d)"
                        % ({k: len(v) for k, v in ewhere.items()}, n_hb_calls, n_cur_writes))
    # between the catch branch and the switch-off nothing may leave the function unless an error is already being handled
    for st in etop[ewhere[0][0] + 1: ewhere[1][0]]:
        if st.get("kind") == "IfStmt" and dref(kids(st)[0]) == "in_error":
            continue
        if any(x.get("kind") in ("ReturnStmt", "GotoStmt") for x in walk(st)) or has_call(st, "longjmp"):
            raise TieBroken("error_handler:order", "error_handler can leave before the heart-beat switch-off")
    eorder = [k for k, _ in sorted(ewhere.items(), key=lambda kv: kv[1][0])]
    eblock = []
    hb_body = kids(etop[ewhere[1][0]])[1]
    for st in (kids(hb_body) if hb_body.get("kind") == "CompoundStmt" else [hb_body]):
        if st.get("kind") == "CallExpr" and Sym.callee(st) == "set_heart_beat":
            args = kids(st)
            if dref(args[1]) != "current_heart_beat" or not is_zero(args[2]):
                raise TieBroken("error_handler:block", "set_heart_beat in error_handler is not called with (current_heart_beat, 0)")
            eblock.append(1)
        elif assign_of(st) and assign_of(st)[0] == "current_heart_beat":
            if not is_zero(assign_of(st)[1]):
                raise TieBroken("error_handler:block", "current_heart_beat is not reset to 0")
            eblock.append(2)
        elif st.get("kind") == "CallExpr" and (Sym.callee(st) == "add_message" or is_observer(Sym.callee(st))):
            continue
        elif all(is_observer(Sym.callee(x)) for x in walk(st) if x.get("kind") == "CallExpr") and \
                any(x.get("kind") == "CallExpr" for x in walk(st)) and \
                not any(x.get("kind") in ("BinaryOperator", "CompoundAssignOperator") and x.get("opcode", "").endswith("=") and
                        x.get("opcode") not in ("==", "!=", "<=", ">=") for x in walk(st)) and \
                not any(x.get("kind") in ("ReturnStmt", "GotoStmt") for x in walk(st)):
            continue        # e.g. `if (verif_hook) verif_hook (...)`
        else:
            raise TieBroken("error_handler:block", "unknown statement in the `if (current_heart_beat)` block of error_handler")
    info["errOrder"] = eorder
    info["errBlock"] = eblock
    out.append("/-- src/error_context.c error_handler, top-level order of 0 = the catch branch (FRAME_CATCH test, longjmp into do_catch),\n"
               "    1 = the `if (current_heart_beat)` block, 2 = the final longjmp to the error context -/\n"
               "def errOrder : List Nat := %s\n" % str(eorder))
    out.append("/-- src/error_context.c error_handler, statements of the `if (current_heart_beat)` block in order:\n"
               "    1 = `set_heart_beat (current_heart_beat, 0)`, 2 = `current_heart_beat = 0` -/\n"
               "def errBlock : List Nat := %s\n" % str(eblock))

    # ---------------- fail closed: the cursor variables must not be written anywhere the slices above do not see -------
    import re as _re
    src_path = os.path.join(E.REPO, "src/backend.c")
    raw = open(src_path, "rb").read()

    def blank(m):
        return _re.sub(rb"[^\n]", b" ", m.group(0))
    text = _re.sub(rb"/\*.*?\*/", blank, raw, flags=_re.S)
    text = _re.sub(rb"//[^\n]*", blank, text)

    def frange(fn_node):
        r = fn_node.get("range", {})
        b = r.get("begin", {}).get("offset")
        e = r.get("end", {}).get("offset")
        if b is None or e is None:
            raise TieBroken("backend.c:cursor-uses", "no source range for " + fn_node.get("name", "?"))
        return b, e
    shb_fn = ast_function(bdir, "src/backend.c", "set_heart_beat")
    ranges = [frange(shb_fn), frange(chb)]
    stray = []
    for m in _re.finditer(rb"\b(heart_beat_index|num_hb_to_do)\b", text):
        off = m.start()
        if any(b <= off <= e for b, e in ranges):
            continue
        line = text[text.rfind(b"\n", 0, off) + 1: text.find(b"\n", off)].decode(errors="replace").strip()
        if _re.match(r"static int (heart_beat_index|num_hb_to_do) = 0;$", line):
            continue
        # a read inside a verification accessor (`verif_*`, NEOLITH_VERIF) is an observer, not a second writer
        head = b""
        for hl in reversed(text[:off].split(b"\n")):
            if _re.match(rb"[A-Za-z_].*\(", hl) and not hl.startswith((b" ", b"\t")):
                head = hl
                break
        writes = _re.search(r"\b(heart_beat_index|num_hb_to_do)\s*(=[^=]|\+\+|--|[-+*/]=)|(\+\+|--)\s*(heart_beat_index|num_hb_to_do)\b|&\s*(heart_beat_index|num_hb_to_do)\b", line)
        if b"verif_" in head and not writes:
            continue
        stray.append(line)
    if stray:
        raise TieBroken("backend.c:cursor-uses", "heart_beat_index / num_hb_to_do are used outside set_heart_beat and "
                        "call_heart_beat: %s" % stray[:3])
    # inside set_heart_beat every write of the cursor must be in the removal branch statements translated above,
    # the address of a cursor variable must not be taken, and the removal branch must not call unknown helpers
    probe = Sym("x", ["heart_beat_index", "num_hb_to_do"], {}, [])

    def count_writes(n):
        c = 0
        for x in walk(n):
            k = x.get("kind")
            if k == "UnaryOperator" and x.get("opcode") in ("++", "--") and probe.lvalue(kids(x)[0]):
                c += 1
            elif k in ("BinaryOperator", "CompoundAssignOperator") and x.get("opcode", "").endswith("=") and \
                    x.get("opcode") not in ("==", "!=", "<=", ">=") and probe.lvalue(kids(x)[0]):
                c += 1
            elif k == "UnaryOperator" and x.get("opcode") == "&" and probe.lvalue(kids(x)[0]):
                raise TieBroken("set_heart_beat:compensation", "address of a cursor variable taken")
        return c
    if count_writes(shb_fn) != sum(count_writes(st) for st in rel):
        raise TieBroken("set_heart_beat:compensation", "set_heart_beat writes heart_beat_index / num_hb_to_do outside the "
                        "removal-branch statements that were translated")
    count_writes(chb)
    known_calls = {"memmove", "memcpy", "fatal"}
    for x in walk(removal):
        if x.get("kind") == "CallExpr" and Sym.callee(x) not in known_calls and not is_observer(Sym.callee(x)):
            raise TieBroken("set_heart_beat:removal-calls", "the removal branch calls %s, which the translator does not "
                            "look into" % Sym.callee(x))

    # ---------------- destruct_object: ORDER of inventory loop / heart-beat removal / O_DESTRUCTED store -------
    import re
    m = re.search(r"#define\s+O_DESTRUCTED\s+(0x[0-9a-fA-F]+|\d+)", open(os.path.join(E.REPO, "lib/lpc/object.h")).read())
    if not m:
        raise TieBroken("destruct_object:order", "O_DESTRUCTED not found in lib/lpc/object.h")
    o_destructed = int(m.group(1), 0)
    dfn = ast_function(bdir, "src/simulate.c", "destruct_object")
    dtop = kids(body_of(dfn))

    def is_hb_off(n):
        return n.get("kind") == "CallExpr" and Sym.callee(n) == "set_heart_beat"

    def is_mark(n):
        if n.get("kind") != "CompoundAssignOperator" or n.get("opcode") != "|=":
            return False
        a, b = kids(n)
        a = strip(a)
        b = strip(b)
        while b.get("kind") == "ImplicitCastExpr":
            b = strip(kids(b)[0])
        return a.get("kind") == "MemberExpr" and a.get("name") == "flags" and b.get("kind") == "IntegerLiteral" \
            and int(b["value"]) == o_destructed

    def is_inv_loop(n):
        return n.get("kind") == "WhileStmt" and any(x.get("kind") == "MemberExpr" and x.get("name") == "contains"
                                                     for x in walk(kids(n)[0])) \
            and any(x.get("kind") == "CallExpr" and Sym.callee(x) == "apply" for x in walk(n))

    where = {0: [], 1: [], 2: []}
    for i, st in enumerate(dtop):
        if is_inv_loop(st):
            where[0].append(i)
        if is_hb_off(st):
            args = kids(st)
            lit = strip(args[2]) if len(args) > 2 else {}
            if lit.get("kind") != "IntegerLiteral" or int(lit.get("value", "1")) != 0:
                raise TieBroken("destruct_object:order", "set_heart_beat in destruct_object is not called with 0")
            where[1].append(i)
        if is_mark(st):
            where[2].append(i)
    total_hb = sum(1 for x in walk(dfn) if is_hb_off(x))
    total_mark = sum(1 for x in walk(dfn) if is_mark(x))
    if any(len(v) != 1 for v in where.values()) or total_hb != 1 or total_mark != 1:
        raise TieBroken("destruct_object:order", "destruct_object: expected exactly one top-level inventory loop, one "
                        "set_heart_beat (ob, 0) and one O_DESTRUCTED store, found %s (calls anywhere: %d, stores anywhere: %d)"
                        % ({k: len(v) for k, v in where.items()}, total_hb, total_mark))
    order = [k for k, _ in sorted(where.items(), key=lambda kv: kv[1][0])]
    info["destructOrder"] = order
    out.append("/-- src/simulate.c destruct_object: order of 0 = the `while (ob->contains)` loop that applies move_or_destruct() in\n"
               "    the inventory, 1 = `set_heart_beat (ob, 0)`, 2 = `ob->flags |= O_DESTRUCTED` -/\n"
               "def destructOrder : List Nat := %s\n" % str(order))
    return "\n".join(out), info


if __name__ == "__main__":
    bd = E.repo_build("asan")
    text, inf = extract(bd)
    print(text)
