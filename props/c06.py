"""C06 - reference counts are exact: no leaks, nothing freed while referenced (PARTIAL)."""
import os

from nvlib import engine as E
from nvlib.check import Prop
from props import c06_extract as T

NSLOT, NOBJ, NVAR, NCALL, NSENT = 10, 4, 4, 4, 4
LAYOUTS = [(1, 1), (1, 2), (2, 1), (3, 1)]      # replace_program() family: variables of the first / second inherit
NEFUN = 92
# groups that build a cycle while they run (an error injected in the middle legitimately leaves cyclic garbage) or
# keep a call_out handle in a local (71: the injected error would leave the call_out pending)
NO_FAULT = (13, 48, 71)


def save_text(v):
    """the driver's save format of a small value (ints, strings without blanks, lists, dicts)"""
    if isinstance(v, int):
        return str(v)
    if isinstance(v, str):
        return '"%s"' % v
    if isinstance(v, list):                      # arrays are lists, mappings are tuples of (key, value) pairs
        return "({" + "".join(save_text(x) + "," for x in v) + "})"
    return "([" + "".join(save_text(k) + ":" + save_text(x) + "," for k, x in v) + "])"


SAVE_BASES = [
    [1, "ab", (("k", [2]), ("j", 3))],
    (("k", [1, "x"]), ([2], "v"), (7, (("z", 1),))),
    [[[1], "s"], "t"],
    (("a", "b"), ((("m", 1),), [3])),
]
DAMAGE_CHARS = 'x,:()[]{}"9-/'


def damage(text, rng):
    k = rng.below(5)
    if not text:
        return "x"
    i = rng.below(len(text))
    if k == 0:
        return text[:i] or "("
    if k == 1:
        return text[:i] + rng.choice(DAMAGE_CHARS) + text[i + 1:]
    if k == 2:
        return text[:i] + text[i + 1:] or "("
    if k == 3:
        return text[:i] + text[i] + text[i:]
    return text[:i] + rng.choice(DAMAGE_CHARS) + text[i:]


def random_value(rng, depth=0):
    k = rng.weighted([("int", 3), ("str", 3), ("arr", 2 if depth < 3 else 0), ("map", 2 if depth < 3 else 0)])
    if k == "int":
        return rng.range(-3, 40)
    if k == "str":
        return rng.choice(["a", "bc", "k1", "xyz"])
    if k == "arr":
        return [random_value(rng, depth + 1) for _ in range(rng.range(0, 3))]
    out, seen = [], set()
    for _ in range(rng.range(0, 3)):
        key = random_value(rng, depth + 2) if rng.chance(1, 3) else rng.choice(["k", "j", 5, 6, "m"])
        if isinstance(key, (int, str)):
            if key in seen:
                continue
            seen.add(key)
        out.append((key, random_value(rng, depth + 1)))
    return tuple(out)


class PCell:
    """generator-side picture of a value (no counters): only used to emit mostly-applicable, acyclic histories"""
    __slots__ = ("kind", "age", "items", "size")

    def __init__(self, kind, age, size=0):
        self.kind, self.age, self.size = kind, age, size
        self.items = {}


class Gen:
    def __init__(self, rng, mode, cyclic):
        self.rng, self.mode, self.cyclic = rng, mode, cyclic
        self.slots = [None] * NSLOT
        self.obj = [None] * NOBJ          # None | PCell(kind obj); .size: 0 alive, 1 destructed, 2 cleaned
        self.handle = [False] * NOBJ
        self.calls = [None] * NCALL
        self.sents = [None] * NSENT
        self.depth = 0
        self.age = 0
        self.lines = []
        self.nstr = 0
        self.anon = 0
        self.inp = False
        self.unl = [False, False]
        self.seq = 0
        self.lay = [None] * NOBJ        # layout of an rc object that has not replaced its program yet
        self.robj = [False] * NOBJ      # clone of an rc program (no callbacks)
        self.late = False       # second half of the history: the blueprints may be unloaded

    def new(self, kind, size=0):
        self.age += 1
        return PCell(kind, self.age, size)

    def can_hold(self, cont, val):
        return self.cyclic or val is None or val.age < cont.age

    def pick_slot(self, kinds=None):
        r = self.rng
        cands = [i for i in range(NSLOT) if (kinds is None or (self.slots[i] is not None and self.slots[i].kind in kinds))]
        if cands and r.chance(9, 10):
            return r.choice(cands)
        return r.below(NSLOT)

    def alive_objs(self):
        return [o for o in range(NOBJ) if self.handle[o] and self.obj[o] is not None and self.obj[o].size == 0]

    def emit(self, s):
        self.lines.append(s)

    def op(self):
        r, m = self.rng, self.mode
        choices = [("newarr", 8), ("newmap", 5), ("newcls", 3), ("newbuf", 2), ("assign", 10), ("free", 6),
                   ("aset", 10), ("aget", 6), ("mset", 8), ("mdel", 4), ("newobj", 4), ("setvar", 6), ("getvar", 4),
                   ("dest", 2), ("cleanup", 2), ("drop", 1), ("call", 5), ("rmcall", 2), ("sweep", 3), ("sent", 4),
                   ("rmsent", 2), ("rmcalln", 1), ("rmall", 1), ("newfun", 4), ("fill", 3), ("inp", 4), ("input", 3), ("deadcall", 3),
                   ("newobjr", 3), ("replace", 3)]
        choices += [("newmstr", 4), ("sappend", 4), ("sjoin", 3), ("sadd", 3), ("schar", 4), ("saddl", 2), ("sadd2", 3)]
        if m == "unit":
            choices += [("newstr", 6), ("push", 6), ("pushr", 3), ("pop", 6), ("popto", 3), ("oref", 3),
                        ("clones", 2), ("unclone", 2), ("unload", 1 if self.late else 0), ("reclaimu", 0 if self.cyclic else 3)]
        else:
            choices += [("err", 4), ("efun", 12), ("srange", 4), ("rest", 8), ("resto", 2), ("fefun", 6), ("frest", 3), ("reclaim", 0 if self.cyclic else 3), ("newffun", 5),
                        ("arange", 8), ("arangev", 5), ("brange", 2)]
        k = r.weighted(choices)
        S = self.slots
        if k == "newarr":
            d, n = r.below(NSLOT), r.weighted([(1, 3), (2, 4), (3, 4), (5, 2), (17, 1)])
            S[d] = self.new("arr", n)
            self.emit("newarr %d %d" % (d, n))
        elif k in ("newmap", "newcls"):
            d = r.below(NSLOT)
            S[d] = self.new(k[3:], 3 if k == "newcls" else 0)
            self.emit("%s %d" % (k, d))
        elif k == "newbuf":
            d = r.below(NSLOT)
            n = r.range(1, 9)
            S[d] = self.new("buf", n)
            self.emit("newbuf %d %d" % (d, n))
        elif k in ("newstr", "newmstr"):
            d = r.below(NSLOT)
            S[d] = self.new("str", 5)
            self.emit("%s %d c06s%d" % (k, d, r.below(4)))
        elif k == "assign":
            d, s = r.below(NSLOT), self.pick_slot(("arr", "map", "cls", "buf", "str", "fn"))
            if d != s:
                S[d] = S[s]
            self.emit("assign %d %d" % (d, s))
        elif k == "free":
            d = r.below(NSLOT)
            S[d] = None
            self.emit("free %d" % d)
        elif k == "aset":
            a, t = self.pick_slot(("arr", "cls")), self.pick_slot()
            c = S[a]
            if c is not None and c.kind in ("arr", "cls"):
                i = r.below(c.size + (1 if r.chance(1, 10) else 0))
                if not self.can_hold(c, S[t]):
                    return
                if i < c.size:
                    c.items[i] = S[t]
            else:
                i = r.below(3)
            self.emit("aset %d %d %d" % (a, i, t))
        elif k == "aget":
            d, a = r.below(NSLOT), self.pick_slot(("arr", "cls"))
            c = S[a]
            i = r.below((c.size if c is not None and c.kind in ("arr", "cls") else 2) + 1)
            if c is not None and c.kind in ("arr", "cls") and i < c.size and d != a:
                S[d] = c.items.get(i)
            self.emit("aget %d %d %d" % (d, a, i))
        elif k in ("mset", "mdel"):
            mslot, ks, t = self.pick_slot(("map",)), self.pick_slot(), self.pick_slot()
            c = S[mslot]
            key = S[ks]
            if c is not None and c.kind == "map" and (key is None or key.kind != "str"):
                kk = ("n", 0) if key is None else ("p", id(key))
                if k == "mset":
                    if not (self.can_hold(c, key) and self.can_hold(c, S[t])):
                        return
                    c.items[kk] = (key, S[t])
                else:
                    c.items.pop(kk, None)
            self.emit("mset %d %d %d" % (mslot, ks, t) if k == "mset" else "mdel %d %d" % (mslot, ks))
        elif k == "push":
            s = self.pick_slot()
            self.depth += 1
            self.emit("push %d" % s)
        elif k == "pushr":
            s = self.pick_slot()
            self.depth += 1
            S[s] = None
            self.emit("pushr %d" % s)
        elif k == "pop":
            if self.depth > 0:
                self.depth -= 1
            self.emit("pop")
        elif k == "popto":
            d = r.below(NSLOT)
            if self.depth > 0:
                self.depth -= 1
                S[d] = PCell("unknown", self.age)     # upper bound of its age
            self.emit("popto %d" % d)
        elif k == "newobj":
            o = r.below(NOBJ)
            if not self.handle[o] and (self.obj[o] is None or self.obj[o].size == 2) and not self.unl[0]:
                self.obj[o] = self.new("obj")
                self.handle[o] = True
                self.lay[o] = None
                self.robj[o] = False
            self.emit("newobj %d" % o)
        elif k == "newobjr":
            o, L = r.below(NOBJ), r.below(len(LAYOUTS))
            if not self.handle[o] and (self.obj[o] is None or self.obj[o].size == 2):
                self.obj[o] = self.new("obj")
                self.handle[o] = True
                self.lay[o] = L
                self.robj[o] = True
            self.emit("newobjr %d %d" % (o, L))
        elif k == "replace":
            ro = [o for o in self.alive_objs() if self.lay[o] is not None]
            o = r.choice(ro) if ro and r.chance(9, 10) else r.below(NOBJ)
            w = r.below(2)
            if o in ro:
                na, nb = LAYOUTS[self.lay[o]]
                it = self.obj[o].items
                self.obj[o].items = {i: it.get(i + na) for i in range(nb)} if w else {i: it.get(i) for i in range(na)}
                self.obj[o].items = {i: v for i, v in self.obj[o].items.items() if v is not None}
                self.lay[o] = None
            self.emit("replace %d %d" % (o, w))
        elif k == "setvar":
            ao = self.alive_objs()
            o = r.choice(ao) if ao and r.chance(9, 10) else r.below(NOBJ)
            i, s = r.below(NVAR), self.pick_slot()
            if o in ao:
                if not self.can_hold(self.obj[o], S[s]):
                    return
                self.obj[o].items[i] = S[s]
            self.emit("setvar %d %d %d" % (o, i, s))
        elif k == "getvar":
            ao = self.alive_objs()
            o = r.choice(ao) if ao and r.chance(9, 10) else r.below(NOBJ)
            d, i = r.below(NSLOT), r.below(NVAR)
            if o in ao:
                S[d] = self.obj[o].items.get(i)
            self.emit("getvar %d %d %d" % (d, o, i))
        elif k == "oref":
            ao = self.alive_objs()
            if not ao:
                return
            d, o = r.below(NSLOT), r.choice(ao)
            S[d] = self.obj[o]
            self.emit("oref %d %d" % (d, o))
        elif k == "dest":
            ao = self.alive_objs()
            o = r.choice(ao) if ao and r.chance(9, 10) else r.below(NOBJ)
            if o in ao:
                self.obj[o].size = 1
                for q in range(NSENT):
                    if self.sents[q] == o:
                        self.sents[q] = None
            self.emit("dest %d" % o)
        elif k == "cleanup":
            for o in range(NOBJ):
                if self.obj[o] is not None and self.obj[o].size == 1:
                    self.obj[o].size = 2
                    self.obj[o].items = {}
            self.emit("cleanup")
        elif k == "drop":
            o = r.below(NOBJ)
            if self.handle[o]:
                self.handle[o] = False
            self.emit("drop %d" % o)
        elif k == "call":
            ao = self.alive_objs()
            o = r.choice(ao) if ao and r.chance(9, 10) else r.below(NOBJ)
            # callback: 0 drops its arguments, 1 keeps the first, 2 raises an error, 3 destructs its own object
            q, st, a, b = r.below(NCALL), r.weighted([(0, 4), (1, 4), (2, 2), (3, 2)]), self.pick_slot(), self.pick_slot()
            if o in ao and self.calls[q] is None:
                if st == 1 and not self.can_hold(self.obj[o], S[a]):
                    st = 0
                self.seq += 1
                self.calls[q] = (o, st, S[a], self.seq)
            self.emit("call %d %d %d %d %d" % (q, o, st, a, b))
        elif k == "rmcall":
            q = r.below(NCALL)
            self.calls[q] = None
            self.emit("rmcall %d" % q)
        elif k == "rmcalln":
            q = r.below(NCALL)
            self.calls[q] = None
            self.emit("rmcalln %d" % q)
        elif k == "rmall":
            o = r.below(NOBJ)
            for q in range(NCALL):
                if self.calls[q] is not None and self.calls[q][0] == o:
                    self.calls[q] = None
            self.emit("rmall %d" % o)
        elif k == "sweep":
            self.sweep()
            self.emit("sweep")
        elif k == "sent":
            ao = self.alive_objs()
            o = r.choice(ao) if ao and r.chance(9, 10) else r.below(NOBJ)
            q = r.below(NSENT)
            if o in ao and self.sents[q] is None:
                self.sents[q] = o
            self.emit("sent %d %d %d %d" % (q, o, self.pick_slot(), self.pick_slot()))
        elif k == "rmsent":
            q = r.below(NSENT)
            self.sents[q] = None
            self.emit("rmsent %d" % q)
        elif k == "newfun":
            ao = self.alive_objs()
            o = r.choice(ao) if ao and r.chance(9, 10) else r.below(NOBJ)
            d, t = r.below(NSLOT), self.pick_slot()
            if o in ao:
                S[d] = self.new("fn")
            self.emit("newfun %d %d %d" % (d, o, t))
        elif k == "newffun":
            ao = [o for o in self.alive_objs() if not self.robj[o]]
            o = r.choice(ao) if ao and r.chance(9, 10) else r.below(NOBJ)
            d = r.below(NSLOT)
            if o in ao:
                S[d] = self.new("fn")
            self.emit("newffun %d %d %d" % (d, o, r.below(6)))
        elif k == "fill":
            d, t = r.below(NSLOT), self.pick_slot()
            n = r.weighted([(2, 3), (7, 3), (64, 2), (300, 1)])
            if n > 7 and S[t] is not None and S[t].kind in ("arr", "cls", "map", "unknown"):
                n = 7       # no wide fan-out over containers: copy() / sprintf("%O") of the result would be exponential
            c = self.new("arr", n)
            for i in range(min(n, 8)):
                c.items[i] = S[t]
            if n > 8:
                c.items = {i: S[t] for i in range(n)}
            S[d] = c
            self.emit("fill %d %d %d" % (d, n, t))
        elif k in ("saddl", "sadd2"):
            a = self.pick_slot(("str",))
            t = self.pick_slot(("str",))
            dd = r.below(NSLOT)
            if S[a] is not None and S[a].kind == "str" and (k == "saddl" or (S[t] is not None and S[t].kind == "str")):
                S[dd] = self.new("str", S[a].size + (1 if k == "saddl" else S[t].size))
            self.emit("saddl %d %d %d" % (dd, a, r.range(1, 9)) if k == "saddl" else "sadd2 %d %d %d" % (dd, a, t))
        elif k in ("sappend", "sjoin", "sadd", "schar", "srange"):
            # strings are values: the target gets a new string, every other holder keeps its text
            d = self.pick_slot(("str",))
            s2 = self.pick_slot(("str",))
            cur = S[d]
            if k == "sappend":
                if cur is not None and cur.kind == "str":
                    S[d] = self.new("str", cur.size + 1)
                self.emit("sappend %d %d" % (d, r.range(1, 9)))
            elif k == "sjoin":
                if cur is not None and cur.kind == "str" and S[s2] is not None and S[s2].kind == "str":
                    S[d] = self.new("str", cur.size + S[s2].size)
                self.emit("sjoin %d %d" % (d, s2))
            elif k == "sadd":
                dd = r.below(NSLOT)
                if S[s2] is not None and S[s2].kind == "str":
                    S[dd] = self.new("str", S[s2].size + 1)
                self.emit("sadd %d %d %d" % (dd, s2, r.range(1, 9)))
            elif k == "schar":
                n = cur.size if cur is not None and cur.kind == "str" else 3
                if cur is not None and cur.kind == "str":
                    S[d] = self.new("str", cur.size)
                self.emit("schar %d %d %s" % (d, r.below(max(1, n)), r.choice("xyzw")))
            else:
                n = cur.size if cur is not None and cur.kind == "str" else 3
                i = r.below(max(1, n))
                j = r.range(i, max(i, n - 1))
                w = r.choice(["Q", "QQ", "QQQ", "R" * (j - i + 1)])
                if cur is not None and cur.kind == "str":
                    S[d] = self.new("str", cur.size - (j - i + 1) + len(w))
                self.emit("srange %d %d %d %s" % (d, i, j, w))
        elif k == "inp":
            ao = [o for o in self.alive_objs() if self.lay[o] is None and not self.robj[o]]
            o = r.choice(ao) if ao and r.chance(9, 10) else r.below(NOBJ)
            rearm = r.chance(1, 3)
            if o in ao and not self.inp:            # while one is pending the call is refused (and nothing is kept)
                self.inp = (o, rearm)
            self.emit("%s %d %d %d" % ("inpr" if rearm else "inp", o, self.pick_slot(), self.pick_slot()))
        elif k == "input":
            # a re-arming callback of a live owner leaves a new input_to pending
            if self.inp and self.inp is not True and self.inp[1] and self.obj[self.inp[0]] is not None and self.obj[self.inp[0]].size == 0:
                self.inp = (self.inp[0], False)
            else:
                self.inp = False
            self.emit("input")
        elif k == "deadcall":
            # the pattern "pending call_out / sentence / input_to with captured values, owner destructed, then the
            # time passes / the input arrives": the entries are dropped by the sweep, not called
            ao = self.alive_objs()
            if not ao:
                return
            o = r.choice(ao)
            for q in r.shuffle(list(range(NCALL)))[:r.range(1, 3)]:
                if self.calls[q] is None:
                    self.seq += 1
                    self.calls[q] = (o, 0, None, self.seq)
                    self.emit("call %d %d %d %d %d" % (q, o, r.below(4), self.pick_slot(), self.pick_slot()))
            if r.chance(1, 2):
                q = r.below(NSENT)
                if self.sents[q] is None:
                    self.emit("sent %d %d %d %d" % (q, o, self.pick_slot(), self.pick_slot()))
            if r.chance(1, 2) and not self.inp:
                self.emit("inp %d %d %d" % (o, self.pick_slot(), self.pick_slot()))
                self.inp = True
            for d in r.shuffle(list(range(NSLOT)))[:r.range(0, 4)]:
                self.slots[d] = None
                self.emit("free %d" % d)
            self.obj[o].size = 1
            for q in range(NSENT):
                if self.sents[q] == o:
                    self.sents[q] = None
            self.emit("dest %d" % o)
            tail = ["sweep"] + (["cleanup"] if r.chance(1, 2) else []) + (["input"] if r.chance(2, 3) else [])
            for x in r.shuffle(tail):
                if x == "cleanup":
                    for oo in range(NOBJ):
                        if self.obj[oo] is not None and self.obj[oo].size == 1:
                            self.obj[oo].size = 2
                            self.obj[oo].items = {}
                elif x == "sweep":
                    self.sweep()
                else:
                    self.inp = False
                self.emit(x)
        elif k == "clones":
            n = r.range(1, 40)
            if not self.unl[0]:
                self.anon += n
            self.emit("clones %d" % n)
        elif k == "unclone":
            n = r.range(1, max(1, self.anon))
            if n <= self.anon and not any(o is not None and o.size == 1 for o in self.obj):
                self.anon -= n
            self.emit("unclone %d" % n)
        elif k in ("rest", "resto"):
            # value builder on a save text: valid, or damaged at one or two places (the partial value must be released)
            text = save_text(random_value(r))
            for _ in range(r.weighted([(0, 1), (1, 4), (2, 2)])):
                text = damage(text, r)
            if " " not in text and 0 < len(text) < 200 and not text.startswith("#"):
                self.emit("%s %s" % (k, text))
        elif k in ("arange", "arangev"):
            # v[d][i .. i+len-1] = rhs: temporary / shared right-hand side, same / shorter / longer, statement / value form
            d = self.pick_slot(("arr",))
            c = S[d]
            size = c.size if c is not None and c.kind == "arr" else 2
            i = r.below(size + 1)
            ln = r.below(size - i + 1)
            if k == "arange":
                t = self.pick_slot()
                n = r.weighted([(max(1, ln), 4), (ln + 1, 2), (max(1, ln - 1), 2), (r.range(1, 4), 1)])
                rhs = [S[t]] * n
            else:
                t = self.pick_slot(("arr",))
                tc = S[t]
                if tc is None or tc.kind != "arr" or t == d:
                    self.emit("arangev %d %d %d %d %d" % (d, i, ln, t, r.below(2)))
                    return
                n = tc.size
                rhs = [tc.items.get(q) for q in range(min(n, 16))] + [None] * max(0, n - 16)
            if c is not None and c.kind == "arr":
                if n == ln:
                    if not all(self.can_hold(c, x) for x in rhs):
                        return
                    for q in range(n):
                        c.items[i + q] = rhs[q]
                else:
                    nc = self.new("arr", size - ln + n)
                    old = [c.items.get(q) for q in range(size)] if size <= 400 else []
                    for q, x in enumerate(old[:i] + list(rhs) + old[i + ln:]):
                        if x is not None:
                            nc.items[q] = x
                    S[d] = nc
            if k == "arange":
                self.emit("arange %d %d %d %d %d %d" % (d, i, ln, n, t, r.below(2)))
            else:
                self.emit("arangev %d %d %d %d %d" % (d, i, ln, t, r.below(2)))
        elif k == "brange":
            d = self.pick_slot(("buf",))
            c = S[d]
            size = c.size if c is not None and c.kind == "buf" else 4
            i = r.below(size + 1)
            ln = r.below(size - i + 1)
            n = r.choice([max(1, ln), ln + 1, max(1, ln - 1)])
            if c is not None and c.kind == "buf" and n != ln:
                S[d] = self.new("buf", size - ln + n)
            self.emit("brange %d %d %d %d" % (d, i, ln, n))
        elif k == "reclaimu":
            self.emit("reclaimu")
        elif k == "reclaim":
            for o in range(NOBJ):
                if self.handle[o] and self.obj[o] is not None and self.obj[o].size >= 1:
                    self.handle[o] = False
            self.emit("reclaim")
        elif k == "unload":
            w = r.below(2)
            if not any(o is not None and o.size == 1 for o in self.obj):
                self.unl[w] = True
            self.emit("unload %d" % w)
        elif k == "fefun":
            f = r.below(NEFUN)
            if f not in NO_FAULT:
                # an error injected at one instruction (1..250), or (1 in 4) at every instruction in turn
                self.emit("fefun %d %d %d %d" % (f, self.pick_slot(), self.pick_slot(), 0 if r.chance(1, 4) else r.range(1, 250)))
        elif k == "frest":
            text = save_text(random_value(r))
            if r.chance(1, 2):
                text = damage(text, r)
            if " " not in text and 0 < len(text) < 200 and not text.startswith("#"):
                self.emit("frest %s %d" % (text, 0 if r.chance(1, 3) else r.range(1, 120)))
        elif k == "err":
            self.emit("err %d %d" % (self.pick_slot(), self.pick_slot()))
        elif k == "efun":
            self.emit("efun %d %d %d" % (r.below(NEFUN), self.pick_slot(), self.pick_slot()))

    def sweep(self):
        # the newest call runs first (new_call_out inserts in front of the calls due at the same time)
        for q in sorted([q for q in range(NCALL) if self.calls[q] is not None], key=lambda q: -self.calls[q][3]):
            o, st, a, _ = self.calls[q]
            if self.obj[o] is not None and self.obj[o].size == 0:
                if st == 1:
                    self.obj[o].items[q] = a
                elif st == 3:
                    self.obj[o].size = 1
                    for x in range(NSENT):
                        if self.sents[x] == o:
                            self.sents[x] = None
            self.calls[q] = None

    def teardown(self):
        """release every holder: afterwards the counters must be back at the baseline"""
        r = self.rng
        steps = []
        for q in range(NCALL):
            steps.append("rmcall %d" % q)
        steps.append("sweep")
        for q in range(NSENT):
            steps.append("rmsent %d" % q)
        if r.chance(1, 2):
            steps.append("input")
        for d in range(NSLOT):
            steps.append("free %d" % d)
        if self.mode == "unit":
            for _ in range(self.depth + 1):
                steps.append("pop")
        steps = r.shuffle(steps)
        for o in r.shuffle(list(range(NOBJ))):
            steps += ["dest %d" % o]
        steps += ["cleanup"]
        for o in range(NOBJ):
            steps += ["drop %d" % o]
        # values kept only by variables of destructed objects / callbacks are gone after the last cleanup
        steps += ["input", "sweep", "cleanup"]
        if self.mode == "unit" and self.anon:
            steps += ["unclone %d" % self.anon]
        self.lines += steps


class C06(Prop):
    id = "C06"
    title = "Reference counts are exact: no leaks, nothing freed while referenced"
    lean_modules = ["NV.C06.Props", "NV.C06.Witness"]
    theorems = ["NV.C06.prog_widths_agree", "NV.C06.incRef_prog_matches", "NV.C06.decRef_prog_matches", "NV.C06.no_dangling_reference",
                "NV.C06.program_alive_while_referenced", "NV.C06.prog_ref_eq_holders", "NV.C06.unreferenced_is_deallocated",
                "NV.C06.holders_eq_H", "NV.C06.run_DE", "NV.C06.oracle_ref_clause", "NV.C06.oracle_freed_clause", "NV.C06.oracle_leak_clause",
                "NV.C06.oracle_string_clauses", "NV.C06.arrBytes_matches", "NV.C06.collect1_fix", "NV.C06.oracle_accepts_model_state",
                "NV.C06.sweep_runs_every_pending_call_once", "NV.C06.sizes_exact", "NV.C06.func_ref_sites_agree", "NV.C06.join_on_copy_never_inplace", "NV.C06.wc_meaning", "NV.C06.run_w",
                "NV.C06.widths_agree", "NV.C06.ref_eq_holders", "NV.C06.no_free_while_held",
                "NV.C06.primitives_preserve_invariant", "NV.C06.string_never_freed_while_held", "NV.C06.string_cells_never_freed_while_held",
                "NV.C06.string_saturates", "NV.C06.no_inplace_modification_while_shared", "NV.C06.extendInPlace_sole",
                "NV.C06.joinInPlace_sole", "NV.C06.unlink_inplace_sole", "NV.C06.add_never_inplace", "NV.C06.sole_of_ref_one", "NV.C06.incRef_str_matches",
                "NV.C06.decRef_str_matches", "NV.C06.decRef_refed_matches", "NV.C06.incRef_refed_matches", "NV.C06.counters_exact", "NV.C06.balanced_history_returns_to_baseline",
                "NV.C06.run_ok", "NV.C06.mstep_ok", "NV.C06.Fits_of_le", "NV.C06.Fits_of_size"]
    witness_theorems = ["NV.C06.wrap_uaf", "NV.C06.wrap_uaf_state", "NV.C06.cycle_leaks",
                        "NV.C06.object_cycle_cut_by_destruct", "NV.C06.prog_wrap_uaf"]
    consts = [("refBits", "sizeof(((refed_t*)0)->ref) * 8"),
              ("arrRefBits", "sizeof(((array_t*)0)->ref) * 8"),
              ("mapRefBits", "sizeof(((mapping_t*)0)->ref) * 8"),
              ("bufRefBits", "sizeof(((buffer_t*)0)->ref) * 8"),
              ("funRefBits", "sizeof(((funptr_t*)0)->hdr.ref) * 8"),
              ("objRefBits", "sizeof(((object_t*)0)->ref) * 8"),
              ("progRefBits", "sizeof(((program_t*)0)->ref) * 8"),
              ("progFuncRefBits", "sizeof(((program_t*)0)->func_ref) * 8"),
              ("strRefBits", "sizeof(((malloc_block_t*)0)->ref) * 8"),
              ("sharedRefBits", "sizeof(((block_t*)0)->refs) * 8"),
              ("sizeofArrayT", "sizeof(array_t)"),
              ("sizeofSvalue", "sizeof(svalue_t)")]
    const_headers = ["lib/lpc/types.h", "lib/lpc/array.h", "lib/lpc/mapping.h", "lib/lpc/buffer.h",
                     "lib/lpc/functional.h", "lib/lpc/object.h", "lib/lpc/program.h", "src/stralloc.h"]
    quick_n = 260
    thorough_n = 4000
    search_n = 600
    design_ref = "5/C06"
    technique = ("Lean 4 proof (counter = number of holders invariant over all micro-instruction sequences, wrap-around "
                 "and saturation arithmetic of the real widths; programs, inherit tables and object structures are cells of the same heap) + "
                 "translator-generated counter widths, counter updates (INC/DEC_COUNTED_REF, free_svalue, assign_svalue_no_free, "
                 "reference_prog, free_prog), in-place decisions of the string primitives and textual checks of the holder sites + "
                 "model/implementation correspondence on the real primitives and through the LPC interpreter + "
                 "error injection at every instruction (hook H2) + "
                 "specification oracle (declarative exact-counting semantics) on every implementation trace")
    level_text = ("PARTIAL. Lean 4 theorems about an executable model of the reference-counting primitives "
                  "(assign_svalue, assign_svalue_no_free, free_svalue with recursive release, push/pop, allocation, "
                  "mapping nodes, string counters with saturation and the in-place decisions that read them, free_call / free_sentence / "
                  "dealloc_funp, destruct_object / destruct2, call_out() including callbacks that raise an error or destruct their "
                  "object, input_to / get_char, program_t.ref with clone / inherit / blueprint references and func_ref with the function "
                  "pointers compiled into a program, made by own or inherited code (reference_prog, free_prog, make_functional_funp, "
                  "deallocate_program), replace_programs(), reclaim_objects(), assignment to array / buffer range lvalues in both forms) for all sequences of primitives: counter = number of holders, nothing "
                  "freed while held, no dangling pointer anywhere, unreferenced values deallocated, count and size statistics exact, the "
                  "oracle's declarative collection step is the identity on every model state; tied to the "
                  "source by the regenerated widths, counter updates and holder sites and by running the real functions (unit style) "
                  "and the real interpreter (LPC style) and the model on the same generated histories with identical per-value "
                  "counters and driver statistics")
    level_note = ("PARTIAL: the theorems cover the counting primitives and conventions; that each of the ~250 efuns and "
                  "~120 opcode cases follows the convention on every path is only observed (92 efun/operator groups: per-value "
                  "counters and statistics equal the model after every operation, also with an error injected at every "
                  "instruction of 89 of them, counters back at the baseline, ASan), not proved.  The top statement "
                  "`judge (model trace) = []` is proved clause-wise only for the per-value comparisons (oracle_ref_clause, "
                  "oracle_freed_clause, oracle_leak_clause, oracle_string_clauses: on every model state the oracle's holder count equals "
                  "the counter / is 0 for freed values; oracle_accepts_model_state: the oracle's declarative collection step is the identity on "
                  "every state the model reaches); the simulation between the oracle's graph machine and the counting machine is not "
                  "proved (the oracle is executed on the model's own traces and on 39 corrupted ones on every run instead).  "
                  "Trusted: Lean kernel; extract.py; the correspondence harness (differential, only the generated histories); "
                  "AddressSanitizer's poisoning as the 'has been freed' observation.")
    rule = ("cases = corpus + known-finding inputs + boundary list + seeded random histories (about 40 operations + "
            "tear-down) over 10 value slots, 4 objects, 4 pending call_outs, 4 sentences: allocation of arrays / mappings / "
            "classes / buffers / strings / function pointers, assignment, element / node / variable stores and loads, "
            "string modification on one holder (+= number, += string, + on a copy, s[i] = c, s[i..j] = w) with the text "
            "seen by every variable compared (strings are values), stack pushes and pops, call_outs whose callbacks keep their argument, add_action and input_to carry-over "
            "arguments, owners destructed while call_outs / sentences / an input_to are pending (dropped by the sweep, "
            "refused by the input), "
            "callbacks that raise an error or destruct their own object, clones / blueprint unloading / inherit references of "
            "programs, replace_program() over four variable layouts, reclaim_objects() with destructed objects in variables / arrays / "
            "classes / mapping keys and values / function pointer arguments, a callback that installs a new input_to, "
            "assignment to array / buffer range lvalues (temporary / shared right-hand side, same / other length, statement / value form), "
            "input_to refused while one is pending, function pointers compiled into the object's own or the inherited program (func_ref of both), "
            "destruct + deferred cleanup, errors thrown under live frames, 67 efun/operator groups with results dropped (among them mapping composition m * n, m *= n, m *= m) (every "
            "lvalue-assignment form, operators and efuns taken from the opcode histogram), an error "
            "injected at the k-th instruction (or at every instruction in turn) of 89 efun groups and of restore_variable, "
            "25 'value builder aborted half-way' groups (callbacks of map/filter/sort/unique/implode raising after k calls, "
            "aggregates and call_other arguments with a failing element, sprintf/sscanf/regexp/allocate errors, built-in "
            "sort refusing its input) and restore_variable / restore_object on valid and damaged save texts (every "
            "truncation and two replacements at every position of four texts, random damage of random small values); "
            "half in unit mode (real C primitives), half in lpc mode (real interpreter); 15% of the cases may build "
            "cyclic containers; a case is non-trivial when it has >= 2 executed operations; distinct = distinct "
            "canonical implementation trace")
    not_covered = ["that every efun (~250) and every opcode case (~120) follows the ownership convention on every path, "
                   "including every error path, is observed on the generated programs only (92 efun/operator groups, 89 of them "
                   "with an error injected at every instruction), not proved; 70 of the 216 operator / one-argument-efun opcodes are never "
                   "executed (integer arithmetic, unused encodings, simul_efun, stateful / user / file-system efuns: list in notes/C06.md)",
                   "the top statement judge (model trace) = [] is proved only clause-wise for the per-value comparisons on model states "
                   "(oracle_*_clause); the simulation between the counting machine and the declarative fixpoint machine of the oracle "
                   "(same state after every operation) is not proved, the statistics clauses only for num_arrays / num_mappings / "
                   "tot_alloc_object / total_array_size / total_mapping_nodes (string and function-name counters are compared); the oracle is exercised on the model's "
                   "traces and on corrupted ones",
                   "func_ref of programs is a cell of the model (function pointers made by an object's own and by inherited code), but the "
                   "case 'program kept alive by func_ref after its last reference' is not reached (unit mode cannot make such pointers, "
                   "lpc mode cannot unload); the copying path of f_bind is only tied textually (the harness master denies binding); "
                   "swapping, load_binary and total_num_prog_blocks are not modelled; replaceable() is not called",
                   "one interactive user (create_test_interactive of the repository), input_to / get_char with flag 0 only",
                   "error injection (hook H2) happens at instruction dispatch only: an error raised in the middle of an efun is "
                   "covered only where LPC code can provoke it (the 25 'builder aborted half-way' groups); groups that build a cycle "
                   "while they run are excluded from the injection",
                   "tot_alloc_sentence is a high-water mark (sentences are recycled through a free list) and is not compared",
                   "mapping hash order: the model releases the nodes of a mapping in insertion order"]

    def gen_extra(self, ctx, bdir):
        """the in-place decisions of the string primitives, regenerated from the macro bodies (gcc -E)"""
        text, self.decisions = T.generate(bdir)
        return text

    def prepare(self, ctx):
        self.exe = E.compile_harness("c06", [os.path.join(E.VERIF, "harness/c06/c06.c")])
        self.conf = E.make_mudlib(ctx.rundir)

    def run_impl(self, ctx, cases):
        # generous per-case limit: the heavy cases (65 537 clones, 70 000 holders) must not depend on machine speed
        return E.run_harness(self.exe, self.conf, cases, ctx.rundir, timeout=3600, args=("--timeout", "300"))

    # ---- oracle audit: traces the judge must reject (one or more per clause), and must accept ---------------
    NEG_BASE = ["mode unit", "newobj 0", "newarr 0 2", "newmap 1", "newmstr 2 abc", "assign 3 2", "assign 4 0", "mset 1 0 0",
                "call 0 0 1 0 1", "sent 1 0 2 2", "setvar 0 1 0", "schar 3 0 z", "free 4", "rmcall 0", "rmsent 1", "free 0",
                "free 1", "free 2", "free 3", "dest 0", "cleanup", "drop 0"]

    def negatives(self):
        """(name, op index (1-based), edit function on the line, expected verdict substring)"""
        def fld(line, key):
            return [x for x in line.split() if x.startswith(key)][0]

        def setfld(line, key, val):
            return " ".join(val if x.startswith(key) else x for x in line.split())

        def ref(i, v):
            def f(line):
                r = fld(line, "r:")[2:].split(",")
                r[i] = v
                return setfld(line, "r:", "r:" + ",".join(r))
            return f

        def st(i, d):
            def f(line):
                s = fld(line, "st:")[3:].split(",")
                s[i] = str(int(s[i]) + d)
                return setfld(line, "st:", "st:" + ",".join(s))
            return f

        def txt(i, v):
            def f(line):
                s = fld(line, "t:")[2:].split(",")
                s[i] = v
                return setfld(line, "t:", "t:" + ",".join(s))
            return f
        N = [
            ("ref-too-low", 6, ref(1, "1"), "ref-mismatch"), ("ref-too-high", 3, ref(2, "2"), "ref-mismatch"),
            ("object-ref", 8, ref(0, "9"), "ref-mismatch"), ("string-ref", 5, ref(3, "1"), "ref-mismatch"),
            ("freed-array-while-held", 6, ref(1, "x"), "freed-while-held"), ("freed-map-while-held", 8, ref(2, "x"), "freed-while-held"),
            ("freed-string-while-held", 5, ref(3, "x"), "freed-while-held"), ("freed-object-while-held", 10, ref(0, "x"), "freed-while-held"),
            ("array-not-freed", 20, ref(1, "1"), "leak op=20 cell="), ("object-not-freed", 21, ref(0, "1"), "leak op=21 cell="),
            ("string-not-freed", 17, ref(3, "1"), "leak op=17 cell="),
            ("arrays+1", 9, st(0, 1), "counter=num_arrays by=+1"), ("arrays-1", 9, st(0, -1), "counter-low"),
            ("array-bytes", 2, st(1, 16), "counter=total_array_size"), ("mappings+1", 3, st(2, 1), "counter=num_mappings"),
            ("nodes+1", 7, st(3, 1), "counter=total_mapping_nodes"), ("nodes-1", 7, st(3, -1), "counter-low"),
            ("strings+1", 11, st(4, 1), "counter=num_distinct_strings by=+1"), ("strings-1", 9, st(4, -1), "counter-low"),
            ("objects+1", 19, st(6, 1), "counter=tot_alloc_object"), ("objects-at-end", 21, st(6, 1), "counter=tot_alloc_object"),
            ("program-ref", 2, lambda l: setfld(l, "p:", "p:5.0/2.0"), "kind=program prog=uobj"), ("program-freed", 2, lambda l: setfld(l, "p:", "p:x.x/2.0"), "freed-while-held op=2 kind=program"),
            ("func_ref-wrong", 9, lambda l: setfld(l, "p:", fld(l, "p:").split("/")[0] + "/2.1"), "kind=program-func_ref prog=base func_ref=1 function-pointers=0"),
            ("base-program-ref", 9, lambda l: setfld(l, "p:", fld(l, "p:").split("/")[0] + "/1.0"), "kind=program prog=base ref=1 holders=2"),
            ("base-program-freed", 21, lambda l: setfld(l, "p:", fld(l, "p:").split("/")[0] + "/x.x"), "freed-while-held op=21 kind=program prog=base"),
            ("injected-error-leak", 9, lambda l: st(0, 1)(l) + " k:17", "first-difference-at=k:17 counter=num_arrays by=+1"),
            ("name-refs+1", 13, lambda l: setfld(l, "f:", "f:2"), "function_name_string_refs by=+1"),
            ("name-refs-1", 9, lambda l: setfld(l, "f:", "f:0"), "counter-low"),
            ("shared-text-changed", 11, txt(2, "zbc"), "modified-while-shared"), ("own-text-wrong", 11, txt(3, "abc"), "text-mismatch"),
            ("text-vanished", 5, txt(2, "-"), "modified-while-shared"),
            ("use-after-free", 7, lambda l: "uaf", "use-after-free"), ("driver-fatal", 7, lambda l: "fatal", "use-after-free"),
            ("asan", 7, lambda l: "sanitizer ERROR: AddressSanitizer: heap-use-after-free on address @", "use-after-free"),
            ("skipped-applicable", 6, lambda l: "skip", "trace-mismatch"), ("extra-cell", 3, lambda l: setfld(l, "r:", fld(l, "r:") + ",1"), "trace-mismatch"),
            ("lpc-error", 7, lambda l: l.replace("ok ", "lpcerr ", 1), "crash"), ("garbage", 7, lambda l: "hello world", "crash"),
            ("output-ends", 7, None, "output-ends"),
        ]
        return N

    def extra_checks(self, ctx, tier, rng):
        """the specification oracle must accept the model's own traces and reject each corrupted one with the right verdict"""
        problems = []
        base = E.Case("neg-base", self.NEG_BASE)
        cyc = E.Case("neg-cyc", ["mode lpc", "newarr 0 2", "aset 0 0 0", "free 0"])
        good = E.nvdrive(self.id, "model", E.cases_text([base, cyc]))
        cases, expect = [], {}
        for c in (base, cyc):
            cases.append(E.Case("pos-" + c.id, c.lines + ["--"] + good[c.id]))
        expect["pos-neg-base"] = "ok"
        expect["pos-neg-cyc"] = "leak-cyclic"
        for name, op, f, want in self.negatives():
            tr = list(good["neg-base"])
            if f is None:
                tr = tr[:op - 1]
            else:
                tr[op - 1] = f(tr[op - 1])
            cases.append(E.Case("neg-" + name, base.lines + ["--"] + tr))
            expect["neg-" + name] = want
        res = E.nvdrive(self.id, "judge", E.cases_text(cases))
        self.neg_checked = len(cases)
        for cid, want in expect.items():
            got = res.get(cid, [])
            ok = (got == ["ok"]) if want == "ok" else any(want in g for g in got)
            if not ok:
                problems.append({"kind": "obligation-broken", "name": "oracle-example:" + cid,
                                 "detail": "the judge answered %s, expected a verdict containing %r" % (got[:3], want)})
        return problems

    def canon(self, lines):
        out = []
        for l in lines:
            l = l.rstrip()
            if not l:
                continue
            if l.startswith("err ") or l.startswith("caught ") or l.startswith("note "):
                continue                   # the master's error_handler log: errors are part of the scenarios
            if l.startswith("sanitizer ") and ("heap-use-after-free" in l or "double-free" in l):
                out.append("uaf")          # ASan stopped the driver: the model's explicit use-after-free outcome
                break
            if l == "crash signal 6" and out and out[-1].startswith("ok"):
                out.append("fatal")        # the driver's fatal() ("ref count 0, but not destructed") aborts
                break
            out.append(l)
        return out

    # ---- generators ------------------------------------------------------
    def boundary(self):
        B = []

        def mk(name, mode, lines):
            B.append(E.Case("b-" + name, ["mode " + mode] + lines, {"origin": "boundary"}))
        big = ["fill 1 14000 0", "fill 2 14000 0", "fill 3 14000 0", "fill 4 14000 0"]
        rel = ["free 1", "free 2", "free 3", "free 4", "free 5", "free 0"]
        for mode in ("unit", "lpc"):
            # exactly 2^16 - 1 holders: still exact
            mk("holders-65535-" + mode, mode, ["newarr 0 1"] + big + ["fill 5 9533 0", "assign 6 0", "free 6"] + rel)
            mk("cycle-array-" + mode, mode, ["newarr 0 2", "aset 0 0 0", "free 0"])
            mk("cycle-map-selfkey-" + mode, mode, ["newmap 1", "mset 1 1 1", "free 1"])
            mk("cycle-map-fn-args-" + mode, mode, ["newobj 0", "newmap 1", "newfun 2 0 1", "mset 1 3 2", "free 1", "free 2",
                                                   "dest 0", "cleanup", "drop 0"])
            # object -> mapping -> function pointer -> object: cut by destruct2, returns to the baseline
            mk("cycle-cut-by-destruct-" + mode, mode, ["newobj 0", "newmap 1", "setvar 0 0 1", "newfun 2 0 3", "mset 1 3 2",
                                                       "free 1", "free 2", "dest 0", "cleanup", "drop 0"])
            mk("callback-outlives-" + mode, mode, ["newobj 0", "newobj 1", "newarr 0 3", "newmap 1", "mset 1 0 0",
                                                   "call 0 0 1 1 0", "call 1 1 0 0 1", "sent 0 1 0 1", "free 0", "free 1",
                                                   "dest 1", "sweep", "getvar 3 0 0", "dest 0", "cleanup", "free 3",
                                                   "drop 0", "drop 1", "cleanup"])
            mk("shared-everywhere-" + mode, mode, ["newarr 0 2", "newmap 1", "newcls 2", "newobj 0", "aset 2 0 0",
                                                   "mset 1 0 0", "mset 1 2 0", "setvar 0 0 0", "setvar 0 1 1",
                                                   "newfun 3 0 0", "call 0 0 1 0 0", "sent 0 0 0 0", "fill 4 64 0",
                                                   "free 0", "sweep", "rmsent 0", "free 4", "free 3", "free 2",
                                                   "mdel 1 2", "free 1", "dest 0", "cleanup", "drop 0"])
        # program_t.ref (widened to 32 bits by repo commit 0280873; the 65 537-holder case is the `fixed` known record)
        mk("program-ref-300-clones", "unit", ["newobj 0", "clones 300", "dest 0", "unclone 5", "cleanup", "unclone 295",
                                              "drop 0"])
        # inherit references: the base program is held by its blueprint and by the inherit table of /c06/uobj's
        # program, which goes (and releases it) with the last clone after its blueprint has been unloaded
        mk("program-inherit-unload", "unit", ["newobj 0", "clones 3", "unload 0", "newobj 1", "clones 2", "unload 1", "unclone 2",
                                              "newarr 0 2", "setvar 0 1 0", "free 0", "dest 0", "unclone 1", "cleanup", "drop 0",
                                              "newarr 1 1", "free 1"])
        mk("program-unload-base-first", "unit", ["unload 1", "newobj 0", "clones 2", "unload 0", "unload 0", "dest 0", "cleanup",
                                                 "unclone 2", "drop 0"])
        mk("program-unload-no-clones", "unit", ["unload 0", "newarr 0 1", "unload 1", "free 0"])
        mk("program-unload-pending", "unit", ["newobj 0", "newobj 1", "newarr 0 2", "call 0 0 1 0 0", "sent 0 1 0 0", "dest 0", "unload 0",
                                              "cleanup", "unload 0", "sweep", "dest 1", "cleanup", "drop 0", "drop 1", "free 0"])
        # replace_program(): every layout (offset of the kept variables below / at / above their number), both inherited
        # programs, every variable holding a counted value; counters after the deferred replace_programs() and after destruct
        for mode in ("unit", "lpc"):
            for L, (na, nb) in enumerate(LAYOUTS):
                for w in (0, 1):
                    mk("replace-program-%d%d-%s-%s" % (na, nb, "ab"[w], mode), mode,
                       ["newobjr 0 %d" % L, "newobjr 1 %d" % L, "newarr 0 2", "newmap 1", "newcls 2", "newmstr 3 rp", "mset 1 0 2",
                        "setvar 0 0 0", "setvar 0 1 1", "setvar 0 2 2", "setvar 0 3 3", "setvar 1 3 0", "free 0", "free 1", "free 2", "free 3",
                        "replace 0 %d" % w, "getvar 4 0 0", "getvar 5 0 1", "getvar 6 0 2", "setvar 0 0 5", "replace 0 %d" % w, "replace 1 %d" % (1 - w),
                        "free 4", "free 5", "free 6", "dest 0", "cleanup", "drop 0", "newobjr 2 %d" % L, "replace 2 %d" % w, "dest 2", "dest 1",
                        "cleanup", "drop 1", "drop 2"])
        for mode in ("unit", "lpc"):
            # a call_out callback that raises an error: its arguments are popped by the error recovery of call_out()
            mk("callout-callback-raises-" + mode, mode,
               ["newobj 0", "newarr 0 2", "newmap 1", "call 0 0 2 0 1", "call 1 0 1 1 0", "call 2 0 2 1 1", "free 0", "sweep",
                "getvar 3 0 1", "free 1", "free 3", "call 3 0 2 3 3", "dest 0", "sweep", "cleanup", "drop 0"])
            # a callback that destructs its own object: the newest call runs first, the older calls of the same owner are
            # dropped; the object may be an argument of the call and (unit mode) sit on the value stack
            mk("callout-callback-destructs-" + mode, mode,
               ["newobj 0", "newobj 1", "newarr 0 2", "oref 2 0", "push 2", "sent 0 0 0 0", "inp 0 0 0", "call 0 0 1 0 0", "call 1 0 3 0 2",
                "call 2 1 1 0 0", "call 3 1 3 2 2", "free 0", "sweep", "pop", "free 2", "input", "cleanup", "drop 0", "getvar 4 1 2",
                "free 4", "drop 1", "cleanup"])
        for mode in ("unit", "lpc"):
            # pending call_outs with arguments whose owner is destructed before they are due: dropped by the sweep
            mk("callout-owner-destructed-" + mode, mode,
               ["newobj 0", "newobj 1", "newarr 0 3", "newmap 1", "newcls 2", "newfun 3 1 0", "mset 1 0 0", "aset 2 0 1",
                "call 0 0 1 0 1", "call 1 0 0 2 3", "call 2 0 1 3 3", "call 3 1 1 0 2", "free 0", "free 1", "free 2", "free 3",
                "dest 0", "sweep", "cleanup", "getvar 4 1 3", "free 4", "dest 1", "cleanup", "drop 0", "drop 1"])
            mk("callout-owner-destructed-cleanup-first-" + mode, mode,
               ["newobj 2", "fill 0 7 5", "newmap 1", "mset 1 0 0", "call 0 2 1 1 0", "call 3 2 0 0 0", "free 0", "free 1",
                "dest 2", "cleanup", "drop 2", "sweep"])
            # add_action / input_to callbacks with captured arguments whose creator is destructed
            mk("sentence-owner-destructed-" + mode, mode,
               ["newobj 0", "newarr 0 2", "newmap 1", "sent 0 0 0 1", "sent 3 0 1 1", "inp 0 1 0", "free 0", "free 1",
                "dest 0", "cleanup", "input", "drop 0"])
            # re-entrancy: the callback installs a new input_to (arguments swapped); owner alive / destructed
            mk("input_to-rearmed-" + mode, mode,
               ["newobj 1", "newarr 0 2", "newmap 1", "inpr 1 0 1", "free 0", "input", "inp 1 1 1", "free 1", "input", "input",
                "newcls 2", "inpr 1 2 2", "dest 1", "free 2", "input", "input", "cleanup", "drop 1"])
            # input_to while one is pending: refused, the sentence and function pointer made for it are released again
            mk("input_to-refused-" + mode, mode,
               ["newobj 1", "newobj 2", "newarr 0 2", "inp 1 0 0", "inp 2 0 0", "inpr 1 0 0", "inp 1 0 0", "free 0", "dest 2", "input", "inp 1 1 1",
                "input", "dest 1", "cleanup", "drop 1", "drop 2"])
            mk("input_to-delivered-" + mode, mode,
               ["newobj 1", "newarr 0 2", "newfun 1 1 0", "inp 1 0 1", "inp 1 1 1", "free 0", "free 1", "input", "input",
                "inp 1 0 0", "dest 1", "input", "cleanup", "drop 1"])
        for mode in ("unit", "lpc"):
            for name, last in (("65535", "fill 5 9533 0"), ("65536", "fill 5 9534 0"), ("70000", "fill 5 13998 0")):
                head = ["newmstr 0 abc"] + big + [last, "assign 6 0"]      # holders = 2 + 56000 + n
                mods = ["sappend 6 7", "assign 6 0", "sjoin 6 0", "sadd 7 0 5", "saddl 7 0 4", "sadd2 7 0 0", "sadd2 7 6 0", "assign 8 0", "schar 8 0 z", "aget 9 1 0",
                        "assign 8 0", "schar 8 2 y"]
                if mode == "lpc":
                    mods += ["assign 8 0", "srange 8 0 1 QQQ", "assign 8 0", "srange 8 1 2 RR", "aget 9 2 7"]
                mk("string-%s-holders-modify-%s" % (name, mode), mode, head + mods + rel + ["free 6", "free 7", "free 8", "free 9"])
            mk("string-values-" + mode, mode, ["newmstr 0 ab", "sappend 0 1", "assign 1 0", "sappend 1 2", "sjoin 0 1", "sjoin 1 1", "saddl 5 0 7",
                                               "sadd2 5 0 1", "sadd2 0 0 0", "sadd2 1 5 1",
                                               "sadd 2 0 3", "schar 2 0 x", "assign 3 2", "schar 3 1 y", "newarr 4 2", "aset 4 0 3",
                                               "schar 3 0 w", "aget 5 4 0", "free 0", "free 1", "free 2", "free 3", "free 4", "free 5"])
            # arrays are references: one holder's element store is seen by all (sanity, 32-bit counters)
            mk("array-65537-holders-store-" + mode, mode, ["newarr 0 2"] + big + ["fill 5 9535 0", "assign 6 0", "newmap 7",
                                                                                  "aset 6 0 7", "aget 8 0 0", "free 7", "free 8", "free 6"] + rel)
        # object-valued call_out arguments: passed on while alive, released and zeroed when destructed before the call
        mk("callout-object-args", "unit", ["newobj 0", "newobj 1", "newobj 2", "oref 0 1", "oref 1 2", "call 0 0 1 0 1", "call 1 0 1 1 0",
                                           "dest 2", "sweep", "getvar 3 0 0", "getvar 4 0 1", "free 0", "free 1", "free 3", "free 4",
                                           "dest 0", "dest 1", "cleanup", "drop 0", "drop 1", "drop 2"])
        mk("string-saturation", "unit", ["newstr 0 c06sat"] + big + ["fill 5 9534 0", "assign 6 0", "newstr 7 c06sat"]
           + rel + ["free 6", "free 7"])
        mk("malloc-string-shared", "unit", ["newmstr 0 c06m", "assign 1 0", "push 0", "newarr 2 2", "aset 2 0 0",
                                            "free 0", "pop", "free 1", "free 2"])
        mk("stack-moves", "unit", ["newarr 0 2", "newmap 1", "push 0", "pushr 1", "push 0", "popto 2", "pop", "popto 3",
                                   "free 0", "free 2", "free 3"])
        # reclaim_objects(): destructed objects referenced from variables (handles; array / mapping key / mapping value /
        # function pointer argument built around them) are released, live ones are kept
        # unit mode: the walk itself - a destructed object directly in a variable, in an array, in a class, as bound argument of a
        # function pointer, as key and as value of a mapping (node deleted / value zeroed), behind a live object key, shared twice
        mk("reclaim-objects-unit", "unit",
           ["newobj 0", "newobj 1", "newobj 2", "newobj 3", "oref 0 1", "oref 1 2", "newarr 2 3", "aset 2 0 0", "aset 2 1 1", "newmap 3",
            "newarr 4 2", "mset 3 0 4", "mset 3 1 2", "mset 3 5 1", "newcls 5", "aset 5 1 0", "aset 4 0 5", "newfun 6 3 0", "oref 7 3",
            "mset 3 7 0", "setvar 0 0 0", "setvar 0 1 2", "setvar 0 2 3", "setvar 3 0 6", "setvar 3 1 2", "reclaimu", "dest 1", "reclaimu",
            "dest 2", "reclaimu", "reclaimu", "cleanup", "free 0", "free 1", "free 7", "reclaimu", "dest 3", "reclaimu", "free 2", "free 3", "free 4", "free 5",
            "free 6", "cleanup", "dest 0", "cleanup", "drop 0", "drop 1", "drop 2", "drop 3"])
        # the recursion counter of check_svalue is not decremented on overflow: after a cyclic value in an earlier variable (a
        # slot) the handles are no longer reached - the model mirrors that
        mk("reclaim-after-cycle-lpc", "lpc", ["fill 6 2 8", "aset 6 0 6", "newobj 0", "newobjr 1 1", "dest 0", "dest 1", "reclaim", "aset 6 0 5",
                                              "reclaim", "free 6", "reclaim", "cleanup"])
        mk("reclaim-objects-lpc", "lpc", ["newobj 0", "newobj 1", "newobj 2", "newobjr 3 2", "newarr 0 2", "newmap 1", "setvar 1 0 0",
                                          "reclaim", "dest 0", "dest 3", "reclaim", "reclaim", "cleanup", "dest 2", "cleanup", "reclaim",
                                          "getvar 2 1 0", "dest 1", "reclaim", "cleanup", "free 0", "free 1", "free 2"])
        # assignment to a range lvalue: statement / value form, temporary / shared right-hand side, same / shorter / longer /
        # empty range / whole array / append, every replaced and every new element a counted value
        rng_head = ["newarr 0 4", "newarr 1 2", "newmap 2", "newmstr 3 rg", "newcls 4", "aset 0 0 1", "aset 0 1 2", "aset 0 2 3", "aset 0 3 4",
                    "assign 5 0", "newarr 6 2", "aset 6 0 2", "aset 6 1 3"]
        rng_tail = ["free 0", "free 1", "free 2", "free 3", "free 4", "free 5", "free 6", "free 7"]
        for f in (0, 1):
            mk("range-lvalue-temporary-%s" % ("statement", "value")[f], "lpc", rng_head +
               ["arange 0 0 2 2 1 %d" % f, "arange 0 1 2 2 2 %d" % f, "arange 0 2 2 1 3 %d" % f, "arange 0 0 1 3 4 %d" % f, "arange 0 2 0 2 1 %d" % f,
                "arange 0 0 0 1 2 %d" % f, "assign 7 0", "arange 0 7 0 2 3 %d" % f, "arange 0 0 9 1 1 %d" % f, "arange 7 0 7 7 4 %d" % f,
                "arange 5 1 2 2 6 %d" % f] + rng_tail)
            mk("range-lvalue-shared-%s" % ("statement", "value")[f], "lpc", rng_head +
               ["arangev 0 0 2 6 %d" % f, "arangev 0 2 2 6 %d" % f, "arangev 0 1 1 6 %d" % f, "arangev 0 0 3 6 %d" % f, "arangev 0 2 0 6 %d" % f,
                "assign 7 0", "arangev 0 0 2 7 %d" % f, "arangev 0 1 0 7 %d" % f, "arangev 5 0 4 6 %d" % f, "arangev 6 0 1 5 %d" % f] + rng_tail)
        # repaired defect: the array assigned to its own whole range (a[0..<1] = a) released every element that only the array
        # held and then copied it (heap-use-after-free)
        for f in (0, 1):
            mk("range-lvalue-self-%s" % ("statement", "value")[f], "lpc",
               ["newarr 0 2", "newarr 1 1", "newmap 2", "aset 0 0 1", "aset 0 1 2", "free 1", "free 2", "assign 6 0", "arangev 0 0 2 6 %d" % f,
                "aget 7 0 0", "aget 8 6 1", "arangev 6 0 2 0 %d" % f, "arangev 0 0 1 6 %d" % f, "free 0", "free 6", "free 7", "free 8"])
        mk("range-lvalue-buffer", "lpc", ["newbuf 0 6", "assign 1 0", "brange 0 0 2 2", "brange 0 1 2 1", "brange 0 5 0 3", "brange 1 0 6 1",
                                          "brange 0 0 8 8", "free 0", "free 1"])
        # function pointers compiled into a program ((: ... :), function () {}): func_ref of the program whose code made them -
        # the object's own program or the one it inherits - after creation, copies, release, destruct + cleanup
        mk("functionals-func_ref-lpc", "lpc",
           ["newobj 0", "newobj 1", "newffun 0 0 0", "newffun 1 0 1", "newffun 2 1 2", "newffun 3 1 3", "newffun 4 0 1", "newffun 7 0 4", "newffun 8 1 5", "free 7", "free 8", "assign 5 1", "newarr 6 2",
            "aset 6 0 1", "setvar 1 0 3", "free 1", "free 0", "free 5", "dest 0", "cleanup", "free 6", "free 4", "free 2", "drop 0", "dest 1", "cleanup",
            "free 3", "drop 1"])
        mk("functionals-bind-lpc", "lpc", ["newobj 0", "newarr 0 2", "efun 89 0 0", "newffun 1 0 1", "efun 89 0 1", "fefun 89 0 0 0", "free 1", "free 0",
                                           "dest 0", "efun 89 0 0", "cleanup", "drop 0"])
        # mapping composition (m * n, m *= n, m *= m in place) on closed / partially closed / disjoint mappings
        mk("mapping-composition-lpc", "lpc", ["newarr 0 2", "newmap 1", "mset 1 0 0", "efun 90 0 1", "efun 91 0 1", "efun 90 1 0", "efun 91 1 1",
                                              "fefun 90 0 1 0", "fefun 91 0 1 0", "free 0", "free 1"])
        mk("errors-lpc", "lpc", ["newarr 0 2", "newmap 1", "newobj 0", "mset 1 0 0", "err 0 1", "efun 10 0 1",
                                 "efun 11 0 1", "err 1 0", "free 0", "free 1", "dest 0", "cleanup", "drop 0"])
        # repaired defects: copy() beyond the nesting limit leaked the partial copy; copy() of a class miscounted arrays
        mk("copy-too-deep-lpc", "lpc", ["newarr 0 2", "newmap 1", "mset 1 0 0", "aset 0 0 1", "efun 1 0 1", "efun 1 1 0",
                                        "aset 0 0 5", "free 0", "free 1"])
        mk("copy-class-lpc", "lpc", ["newcls 0", "newarr 1 2", "aset 0 1 1", "efun 1 0 1", "efun 1 0 1", "free 0", "free 1"])
        # "builder aborted half-way": every truncation and two replacements at every position of four save texts
        ops = []
        for bi, base in enumerate(SAVE_BASES):
            text = save_text(base)
            ops.append("rest " + text)
            ops.append("resto " + text)
            for i in range(1, len(text)):
                ops.append("rest " + text[:i])
                ops.append("rest " + text[:i] + "x" + text[i + 1:])
                ops.append("rest " + text[:i] + "," + text[i + 1:])
                if i % 4 == bi:
                    ops.append("resto " + text[:i] + ":" + text[i + 1:])
        for part in range(0, len(ops), 60):
            mk("restore-damaged-%d" % (part // 60), "lpc", ["newarr 0 2", "newmap 1", "mset 1 0 0"] + ops[part:part + 60] + ["free 0", "free 1"])
        mk("builders-aborted-lpc", "lpc", ["newarr 0 2", "newmap 1", "mset 1 0 0", "newcls 2", "aset 2 0 1"] +
           ["efun %d %d %d" % (f, f % 3, (f + 1) % 3) for f in range(20, NEFUN)] +
           ["efun %d %d %d" % (f, (f + 1) % 3, f % 3) for f in range(20, NEFUN)] + ["free 0", "free 1", "free 2"])
        # error paths, systematically (hook H2): every efun group with an error injected at every instruction in turn
        fg = [f for f in range(NEFUN) if f not in NO_FAULT]
        for part in range(0, len(fg), 12):
            mk("efuns-error-injected-%d" % (part // 12), "lpc", ["newarr 0 3", "newmap 1", "mset 1 0 0", "aset 0 0 1", "newcls 2", "aset 2 0 1"] +
               ["fefun %d %d %d 0" % (f, f % 3, (f + 1) % 3) for f in fg[part:part + 12]] + ["free 0", "free 1", "free 2"])
        mk("restore-error-injected", "lpc", ["newarr 0 2"] + ["frest %s 0" % save_text(b) for b in SAVE_BASES] +
           ["frest %s 0" % save_text(SAVE_BASES[1])[:k] for k in (9, 17, 30)] + ["free 0"])
        mk("efuns-lpc", "lpc", ["newarr 0 3", "newmap 1", "mset 1 0 0", "aset 0 0 1"] +
           ["efun %d %d %d" % (f, f % 2, (f + 1) % 2) for f in range(NEFUN)] + ["free 0", "free 1"])
        return B

    def gen_case(self, rng, cid):
        mode = "unit" if rng.chance(1, 2) else "lpc"
        cyclic = rng.chance(3, 20)
        g = Gen(rng, mode, cyclic)
        n = rng.range(8, 60)
        for i in range(n):
            g.late = i > n // 2
            g.op()
        g.teardown()
        return E.Case(cid, ["mode " + mode] + g.lines, {"origin": "generated", "cyclic": cyclic})

    def generate(self, rng, n, tier):
        return [self.gen_case(rng, "g%d" % i) for i in range(n)]

    def nontrivial_key(self, case, out):
        import hashlib
        body = [l for l in out if l.startswith("ok ")]
        if len(body) < 2:
            return None
        return hashlib.sha1("\n".join(out).encode()).hexdigest()

    def histogram(self, cases, impl):
        h = {"oracle_examples_checked": getattr(self, "neg_checked", 0), "ops_executed": 0, "ops_skipped": 0, "cases_unit": 0, "cases_lpc": 0, "uaf_outcomes": 0,
             "max_ref_seen": 0, "calls_dropped_by_sweep_owner_destructed": 0, "inputs_to_destructed_owner": 0,
             "sentences_freed_by_destruct": 0, "by_op": {}}
        for c in cases:
            pend, dead, inp, sents = {}, set(), None, {}
            for line, res in zip(c.lines[1:], impl.get(c.id, [])):
                if not res.startswith("ok"):
                    continue
                w = line.split()
                if w[0] == "call":
                    pend[w[1]] = w[2]
                elif w[0] == "rmcall":
                    pend.pop(w[1], None)
                elif w[0] == "sent":
                    sents[w[1]] = w[2]
                elif w[0] == "rmsent":
                    sents.pop(w[1], None)
                elif w[0] == "inp":
                    inp = w[1]
                elif w[0] == "dest":
                    dead.add(w[1])
                    h["sentences_freed_by_destruct"] += sum(1 for o in sents.values() if o == w[1])
                    sents = {k: o for k, o in sents.items() if o != w[1]}
                elif w[0] == "newobj":
                    dead.discard(w[1])
                elif w[0] == "sweep":
                    h["calls_dropped_by_sweep_owner_destructed"] += sum(1 for o in pend.values() if o in dead)
                    pend = {}
                elif w[0] == "input":
                    if inp in dead:
                        h["inputs_to_destructed_owner"] += 1
                    inp = None
        for c in cases:
            if c.lines and c.lines[0] == "mode lpc":
                h["cases_lpc"] += 1
            else:
                h["cases_unit"] += 1
            out = impl.get(c.id, [])
            for line, res in zip(c.lines[1:], out):
                op = line.split()[0]
                if res.startswith("ok"):
                    h["ops_executed"] += 1
                    h["by_op"][op] = h["by_op"].get(op, 0) + 1
                    try:
                        refs = res.split()[1][2:].split(",")
                        m = max([int(x) for x in refs if x.isdigit()] or [0])
                        h["max_ref_seen"] = max(h["max_ref_seen"], m)
                    except Exception:
                        pass
                elif res == "skip":
                    h["ops_skipped"] += 1
                elif res in ("uaf", "fatal"):
                    h["uaf_outcomes"] += 1
        return h


PROP = C06()
