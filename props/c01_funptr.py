"""C01 "efuns through function pointers" generator family.

call_function_pointer() (lib/lpc/functional.c) is a second dispatcher for efuns: an efun pointer `(: efun, b1, b2 :)`
carries BOUND arguments that merge_arg_lists() prepends to the call-time ones, a missing last argument can be
defaulted, and only then the arguments are type-checked (CHECK_TYPES loop) and the efun runs.  The typed efun fuzz
reaches efuns through the F_EFUN opcodes only.  This family calls EVERY pointer-callable efun of the regenerated table
through a function pointer - evaluate(), bind(), map() / filter() element callbacks - with every split of the
arguments into bound + call-time ones and a WRONG-typed value at every checked position (so that the wrong value sits
among the bound arguments, among the call-time ones, first, last), plus simul_efun / local / anonymous pointers with
bound arguments.  The legal outcome of every call is a value or an LPC error ("Bad argument N to efun()"); a crash or
a sanitizer report is the verdict.
"""
from nvlib import engine as E

T_ANY = 1022
# (type bit, global of FZ_HEAD) in the order tried when a wrong-typed value is needed
WRONG = [(2, "i31a"), (4, "s1"), (8, "a1"), (32, "m1"), (128, "r2"), (16, "ob0"), (256, "b1"), (64, "fp0")]
RIGHT = {2: "i1", 4: "s1", 8: "a1", 16: "ob0", 32: "m1", 64: "fp0", 128: "r2", 256: "b1"}


def wrong_for(mask):
    for bit, name in WRONG:
        if not (mask & bit):
            return name
    return None


def right_for(mask):
    for bit in (4, 2, 8, 32, 16, 128, 256, 64):
        if mask & bit:
            return RIGHT[bit]
    return "i0"


def fp_expr(name, bound):
    return "(: %s%s :)" % (name, "".join(", " + a for a in bound))


def call_text(name, args, k, via):
    """the call with args[:k] bound into the pointer and args[k:] passed at call time"""
    fp = fp_expr(name, args[:k])
    rest = args[k:]
    if via == "bind":
        fp = "bind (%s, this_object ())" % fp
    if via in ("map", "filter") and len(rest) == 1:
        return "%s (({ %s }), %s)" % (via, rest[0], fp)
    return "evaluate (%s)" % ", ".join([fp] + rest)


def splits(nargs, p):
    return sorted(set(k for k in (0, p, p + 1, nargs) if 0 <= k <= nargs))


def calls_for(e, vias=("evaluate", "bind", "map", "filter")):
    """deterministic list: wrong type at every position x every interesting split; one well-typed call per split"""
    out = []
    lo = e["min"]
    hi = e["max"] if e["max"] != -1 else e["min"] + 1
    n = 0
    for nargs in sorted(set([lo, min(hi, max(lo, 4))])):
        good = [right_for(e["types"][i] if i < 4 else T_ANY) for i in range(nargs)]
        for k in sorted(set([0, nargs])):
            out.append(call_text(e["name"], good, k, vias[n % len(vias)]))
            n += 1
        for p in range(min(nargs, 4)):
            w = wrong_for(e["types"][p])
            if w is None:
                continue
            args = list(good)
            args[p] = w
            for k in splits(nargs, p):
                out.append(call_text(e["name"], args, k, vias[n % len(vias)]))
                n += 1
    return out


EXTRA = r"""
mixed loc2 (mixed a, mixed b) { return ({ a, b }); }
mixed run_extra () {
  // simul_efun, local and anonymous pointers with bound arguments: merge_arg_lists on every pointer kind
  catch (evaluate ((: vsimul_marker, s1, a1 :), m1));
  catch (evaluate ((: vsimul_marker :)));
  catch (evaluate ((: loc2, s2 :), a1));
  catch (evaluate ((: loc2, s2, a1 :), m1, i63a));
  catch (evaluate (bind ((: loc2, adest :), this_object ()), mdest));
  catch (evaluate ((: $1 + $2, s1 :), s2));
  catch (evaluate ((: $1 + $2, a1 :), i1));
  catch (map (a1, (: loc2, sbig :)));
  catch (filter (m1, (: loc2, aself :)));
  catch (sort_array (({ "b", "a", "c" }), (: strcmp :)));
  catch (sort_array (({ 3, "a", 2.5 }), (: strcmp :)));
  catch (sort_array (({ "b", "a" }), (: strcmp, "x" :)));
  catch (unique_array (({ "b", "a" }), (: strlen :)));
  catch (unique_array (({ 1, "a" }), (: strlen :)));
  catch (map (({ "x", 5, ({ }) }), (: capitalize :)));
  catch (filter (({ "x", 5, ({ }) }), (: strlen :)));
  catch (implode (({ "x", 5, "y" }), (: explode :)));
  return 1;
}
"""


def make_cases(efuns, head, per_prog=150, prefix="fp"):
    """efuns: table rows that can be made into pointers; head: FZ_HEAD of the plugin"""
    calls = []
    for e in efuns:
        for c in calls_for(e):
            calls.append((e["name"], c))
    cases = []
    for k in range(0, len(calls), per_prog):
        chunk = calls[k:k + per_prog]
        body = "\n".join("  catch (%s);" % c for _, c in chunk)
        src = head + EXTRA + "mixed run () {\n  setup ();\n" + body + "\n  run_extra ();\n  return 1;\n}\n"
        cid = "%s%d" % (prefix, k // per_prog)
        used = sorted(set(n for n, _ in chunk))
        cases.append(E.Case(cid, ["# efuns through function pointers: " + " ".join(used), "prog %s %s" % (cid, src.encode().hex()),
                                  "run %s run" % cid], {"origin": "boundary", "kind": "funptr", "fp_efuns": used, "fp_calls": len(chunk)}))
    return cases


def random_calls(rng, e, fz_values, n=2):
    """random arguments (right / wrong types) split at a random point"""
    out = []
    for _ in range(n):
        lo = e["min"]
        hi = e["max"] if e["max"] != -1 else e["min"] + rng.range(0, 3)
        nargs = rng.range(lo, max(lo, hi))
        args = []
        for i in range(nargs):
            mask = e["types"][i] if i < 4 else T_ANY
            good = [v for v in fz_values if v[0] & mask]
            args.append(rng.choice(good)[1] if good and rng.chance(6, 10) else rng.choice(fz_values)[1])
        out.append(call_text(e["name"], args, rng.range(0, nargs), rng.choice(["evaluate", "bind", "map", "filter"])))
    return out
