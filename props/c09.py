"""C09 - no event history or failing task takes the driver down (PARTIAL: control-flow / bookkeeping model)."""
import os
import re

from nvlib import engine as E
from nvlib import extract as X
from nvlib.check import Prop

WRAP = ["-Wl,--wrap=epoll_wait", "-Wl,--wrap=time", "-Wl,--wrap=platform_timer_start"]
RESET_DURATION = 2           # ResetDuration: next_reset = now + 1 + rand() % 1 is deterministic
CLEANUP_DURATION = 600       # CleanupDuration: clean_up() for objects nothing has applied to for 10 minutes
HEAD = ["load reg /c09/reg"]
PLAIN_MARK = "# plain"
TAIL = ["step idle", "step idle", "step idle", "step idle", "step tick:40", "step tick:40", "step idle", "step idle"]


class C09(Prop):
    id = "C09"
    title = "No event history or failing task takes the driver down"
    lean_modules = ["NV.C09.Props", "NV.C09.Witness", "NV.C09.Bridge", "NV.C09.SpecNeg", "NV.C09.BatchThms", "NV.C09.PreloadThms"]
    theorems = ["NV.C09.backend_order_as_modelled", "NV.C09.error_handler_order_as_modelled",
                "NV.C09.call_out_order_as_modelled", "NV.C09.sweep_order_as_modelled",
                "NV.C09.remove_interactive_order_as_modelled", "NV.C09.user_command_order_as_modelled",
                "NV.C09.connect_order_as_modelled", "NV.C09.hb_remove_as_modelled", "NV.C09.hb_round_as_modelled",
                "NV.C09.sweep_tests_as_modelled", "NV.C09.cursor_as_modelled", "NV.C09.backend_loop_as_modelled",
                "NV.C09.slot_search_as_modelled", "NV.C09.process_io_as_modelled", "NV.C09.remove_tests_as_modelled",
                "NV.C09.apply_sites_as_modelled", "NV.C09.no_new_unprotected_apply_site", "NV.C09.guards_present", "NV.C09.apply_touch_as_modelled",
                "NV.C09.input_to_call_as_modelled", "NV.C09.set_call_as_modelled", "NV.C09.prompt_as_modelled",
                "NV.C09.command_branches_as_modelled", "NV.C09.preload_as_modelled", "NV.C09.reset_object_as_modelled", "NV.C09.set_snoop_as_modelled", "NV.C09.error_handler_stmts_as_modelled",
                "NV.C09.batch_any_order_good", "NV.C09.stale_event_skipped", "NV.C09.freed_record_events_are_stale",
                "NV.C09.accept_serial_fresh", "NV.C09.applyAction_resolved", "NV.C09.pending_entry_older_than_any_accept",
                "NV.C09.abandoned_suffix", "NV.C09.abandoned_nil_of_ok", "NV.C09.findConn_id",
                "NV.C09.snoop_input_path_safe", "NV.C09.packet_dropped_when_user_gone", "NV.C09.removed_snooper_leaves_no_link",
                "NV.C09.snoop_loop_refused", "NV.C09.cursor_moves_past_served_user",
                "NV.C09.input_to_cleared_before_callback", "NV.C09.input_to_first_wins", "NV.C09.input_to_takes_the_line",
                "NV.C09.no_prompt_while_input_to_pending", "NV.C09.prompt_revalidates", "NV.C09.sweep_keeps_invariant",
                "NV.C09.failing_cleanup_loses_reset_state", "NV.C09.cleanup_restores_reset_state",
                "NV.C09.preload_visits_every_file", "NV.C09.preload_epilog_error_loads_nothing", "NV.C09.judge_preload_phase",
                "NV.C09.preload_keeps_fresh", "NV.C09.backend_total_after_preload", "NV.C09.preloadFiles_visits_all",
                "NV.C09.judge_preload_clause", "NV.C09.runFull_block_start", "NV.C09.startup_good_start",
                "NV.C09.preloadObjects_step", "NV.C09.preload_block", "NV.C09.judge_crash_clause_preload",
                "NV.C09.judge_report_clause_preload", "NV.C09.judge_cycles_clause_preload",
                "NV.C09.judge_crash_clause", "NV.C09.judge_report_clause", "NV.C09.judge_exit_present", "NV.C09.judge_cycles_clause", "NV.C09.runFull_block",
                "NV.C09.backend_total", "NV.C09.backend_total_prefix", "NV.C09.freed_conn_never_used_run",
                "NV.C09.hooks_keep_invariant", "NV.C09.runHook_ok", "NV.C09.errorHandler_same", "NV.C09.cmh_flags",
                "NV.C09.only_failing_hb_removed", "NV.C09.error_keeps_other_heart_beats",
                "NV.C09.flags_clear_after_error", "NV.C09.pending_tasks_preserved",
                "NV.C09.recover_preserves_pending", "NV.C09.callout_sweep_continues_after_error",
                "NV.C09.freed_conn_never_used", "NV.C09.idle_tick_no_crash"]
    witness_theorems = ["NV.C09.connect_error_releases_record", "NV.C09.connect_refs_balanced"]
    consts = [("logCatches", "NV_LOG_CATCHES"), ("numConsts", "5")]
    const_headers = ["lib/efuns/options.h"]
    const_prelude = "#ifdef LOG_CATCHES\n#define NV_LOG_CATCHES 1\n#else\n#define NV_LOG_CATCHES 0\n#endif\n"
    quick_n = 500
    thorough_n = 4000
    search_n = 300
    design_ref = "5/C09"
    technique = ("Lean 4 proof (invariant over all finite event histories x error injections, induction on the history, on "
                 "hook-nesting fuel and on the batch of events of one poll) about an executable control-flow model of "
                 "backend()/process_io()/error_handler()/the object sweep; source tie by regenerated constants, regenerated "
                 "source text of the decisive comparisons / updates / statement orders / apply-site inventory with bridging "
                 "lemmas, and by running the REAL backend() under hook H1 (sanitizer build and plain build) against the model")
    level_text = ("PARTIAL (model level). Lean 4 theorem `backend_total` about the model `Backend` (nullable all_users, "
                  "connection records as serials, recovery points, error_handler flag protocol with the master handler ok / "
                  "raising / catching an inner error and then raising, heart-beat bookkeeping, call_out sweep, reset + clean_up sweep with the "
                  "walk restarted after an error, preload_objects, remove_interactive, input_to, write_prompt, snoop links and the "
                  "snooper's receive_snoop() on the input path, re-validation after callbacks, batches of "
                  "I/O events of one poll incl. stale entries and batches abandoned by a longjmp): for EVERY finite history of "
                  "external events (any number of accept / data / end-of-file / hang-up / console / timer events per poll, in "
                  "any order) x EVERY task oracle x both modes the run never reaches a modelled NULL dereference or use of "
                  "a freed connection record, and after every cycle in_error = in_mudlib_error_handler = false with the "
                  "error-context chain at its base; a stale entry of a batch is skipped and never shares an identity with a "
                  "record accepted later (`batch_any_order_good`, `stale_event_skipped`, "
                  "`pending_entry_older_than_any_accept`); only the failing heart beat removed; pending tasks of others "
                  "kept by the error path; oracle clauses crash / report / cycle markers / exit / preload proved for all histories. "
                  "The model is tied to the source by 60 obligations (incl. 21 bridging lemmas over text regenerated from "
                  "the C source on every run) and by running the real backend() loop (loopback TCP clients, console pipe, "
                  "virtual time, events of one poll delivered in scripted order by the interposed poller, scripted failing "
                  "tasks, master error_handler in three behaviours) on the same histories: traces must be identical; the "
                  "Lean specification oracle (15 clauses, incl. `sweep`: reset() / clean_up() of an object at most once per tick, and `isolation`: a line at the head of a user's input is served within "
                  "users + 2 iterations whatever the other users' commands do) judges every implementation trace.")
    level_note = ("trusted: Lean kernel; extract.py and the regex translator in props/c09.py; the correspondence harness "
                  "(differential; only generated histories); the oracle clauses heartbeats / commands / callouts / leak / "
                  "refs / unexpected-shutdown / disconnect / hb-schedule / turns / isolation / sweep are judged on every trace but not proved "
                  "for all histories; memory errors inside arbitrary failing tasks, real signal delivery, the OS, the same "
                  "descriptor twice in one poll, the address-server pipe, LPC sockets, ed, exec(), get_char, the output side of "
                  "snoop (the scripted receive_snoop() ignores ordinary output), validity of the snoop_by / snoop_on pointers are not "
                  "modelled (ASan/UBSan observe the real runs; address re-use is observed on a second build without "
                  "sanitizers)")
    rule = ("cases = corpus + known-finding inputs + boundary list + seeded random histories: per backend cycle one I/O "
            "event or a batch of 2-4 events delivered by ONE poll in scripted order (accept / 1-3 complete or partial "
            "lines, some very long / end-of-file / reset (hang-up) / console line, on distinct connections, shuffled; "
            "directed templates: a third party frees a record whose own event is still pending with an accept in between; "
            "a backlog of 6-12 failing commands on one connection while the others have commands pending; snoop links "
            "set, replaced and torn down in random order; a heart_beat removing an object still to come in its round) and an "
            "optional timer tick (2 s ... 1000 s, so that reset and clean_up sweeps happen); "
            "scripts inject ok / uncaught error / caught error / destruct (self, other user, other object) / call_out / "
            "heart-beat switch / master-handler switch / input_to / snoop into logon, process_input, command, input_to callback, "
            "write_prompt, receive_snoop, net_dead, heart_beat, call_out, reset, clean_up and connect; both modes; three master error_handler "
            "behaviours; batch cases run on the sanitizer build AND on a plain build; a case is non-trivial when its "
            "trace has >= 2 task lines; distinct = distinct canonical implementation trace")
    not_covered = ["memory errors inside the failing task itself (C01) - only observed by ASan/UBSan on the generated runs",
                   "real signal delivery, the real 2 s timer thread (ticks are injected exactly as its callback does)",
                   "the same descriptor reported twice in one poll (data and end-of-file together), write-ready events",
                   "address-server pipe, LPC sockets, ed, exec(), get_char, the `!` escape, snoop forwarding of ordinary output, "
                   "input_to armed from net_dead / call_out / heart_beat (inherited command_giver)",
                   "an object destructed by its own reset() when its clean_up is due (the C code applies clean_up to it)",
                   "console on a real tty (reconnect path); the harness console is a pipe, where removal means shutdown",
                   "oracle clauses other than crash / report / cycle markers / exit / preload are judged per trace, not proved for all histories"]

    # ---- tie: constants that are literals in the source ---------------------
    def gen_extra(self, ctx, bdir):
        comm = open(os.path.join(E.REPO, "src/comm.c")).read()
        back = open(os.path.join(E.REPO, "src/backend.c")).read()
        m = re.search(r"new_max_users\s*=\s*max_users\s*\+\s*(\d+)\s*;", comm)
        if not m:
            raise X.TieBroken("new_interactive:all_users growth", "cannot locate the all_users growth step in new_interactive()")
        chunk = int(m.group(1))
        m = re.search(r"next_time\s*=\s*current_time\s*\+\s*(\d+)\s*\*\s*(\d+)\s*;", back)
        if not m:
            raise X.TieBroken("look_for_objects_to_swap:period", "cannot locate the sweep period in look_for_objects_to_swap()")
        period = int(m.group(1)) * int(m.group(2))
        sim = open(os.path.join(E.REPO, "src/simulate.c")).read()
        m = re.search(r"#define\s+MAX_VERB_BUFF\s+(\d+)", sim)
        if not m:
            raise X.TieBroken("user_parser:MAX_VERB_BUFF", "cannot locate MAX_VERB_BUFF in simulate.c")
        verbbuf = int(m.group(1))
        # ---- statement order of the recovery points / flag protocol, regenerated from the source ----
        def body_of(src, header_rx):
            m = re.search(header_rx, src)
            if not m:
                return None
            i = src.index("{", m.end() - 1)
            depth, j = 0, i
            while j < len(src):
                if src[j] == "{":
                    depth += 1
                elif src[j] == "}":
                    depth -= 1
                    if depth == 0:
                        break
                j += 1
            b = src[i:j + 1]
            b = re.sub(r"/\*.*?\*/", " ", b, flags=re.S)
            b = re.sub(r"//[^\n]*", " ", b)
            b = re.sub(r"#if 0.*?#endif", " ", b, flags=re.S)
            return b

        def order(body, pats):
            hits = []
            for name, rx in pats:
                for m in re.finditer(rx, body):
                    hits.append((m.start(), name))
            return [n for _, n in sorted(hits)]

        ec = open(os.path.join(E.REPO, "src/error_context.c")).read()
        co = open(os.path.join(E.REPO, "lib/efuns/call_out.c")).read()
        orders = {}
        b = body_of(back, r"\nvoid backend \(\)\s*\{")
        if b is None:
            raise X.TieBroken("backend()", "cannot locate backend()")
        orders["backendOrder"] = order(b, [
            ("save_context", r"save_context\s*\(&econ\)"), ("setjmp", r"setjmp\s*\(econ\.context\)"),
            ("initial_tick", r"startup_step = 1;\s*call_heart_beat\s*\(\)"),
            ("console_user", r"init_console_user\s*\(0\)"), ("loop", r"while\s*\(1\)"),
            ("destructed", r"remove_destructed_objects\s*\(\)"), ("grant_turns", r"iflags\s*\|=\s*HAS_CMD_TURN"),
            ("poll", r"nb = do_comm_polling"), ("process_io", r"process_io\s*\(\)"),
            ("commands", r"process_user_command\s*\(\)"), ("tick", r"if \((?:heart_beat_flag|HEART_BEAT_FLAG\(\))\)\s*call_heart_beat\s*\(\)"),
            ("hook", r"verif_backend_cycle_hook\s*\(\)"), ("pop_context", r"pop_context\s*\(&econ\)")])
        b = body_of(ec, r"\nvoid error_handler \(const char \*err\)\s*\{")
        if b is None:
            raise X.TieBroken("error_handler()", "cannot locate error_handler()")
        b2 = b[b.index("if (in_error)"):]      # the part for errors outside a catch
        orders["errorHandlerOrder"] = order(b2, [
            ("test_in_error", r"if \(in_error\)"), ("in_error=1", r"in_error = 1;"), ("in_error=0", r"in_error = 0;"),
            ("test_in_meh", r"if \(in_mudlib_error_handler\)"), ("in_meh=1", r"in_mudlib_error_handler = 1;"),
            ("in_meh=0", r"in_mudlib_error_handler = 0;"), ("call_handler", r"mudlib_error_handler \(err, 0\)"),
            ("hb_off", r"set_heart_beat \(current_heart_beat, 0\)"), ("cur_hb=0", r"current_heart_beat = 0;"),
            ("longjmp", r"longjmp \(")])
        b = body_of(co, r"\ncall_out \(\)\s*\{")
        if b is None:
            raise X.TieBroken("call_out()", "cannot locate call_out()")
        orders["callOutOrder"] = order(b, [
            ("save_context", r"save_context\s*\(&econ\)"), ("sweep_loop", r"while \(call_out_time < current_time\)"),
            ("entry_loop", r"\bdo\b"), ("setjmp", r"setjmp\s*\(econ\.context\)"),
            ("restore", r"restore_context\s*\(&econ\)"), ("apply", r"apply \(cop->function\.s"),
            ("free_entry", r"free_called_call \(cop\);\s*cop = 0;\s*\}\s*\}"), ("pop_context", r"pop_context\s*\(&econ\)")])
        b = body_of(back, r"\nstatic void look_for_objects_to_swap \(\)\s*\{")
        if b is None:
            raise X.TieBroken("look_for_objects_to_swap()", "cannot locate look_for_objects_to_swap()")
        orders["sweepOrder"] = order(b, [
            ("period_test", r"if \(current_time < next_time\)"), ("save_context", r"save_context\s*\(&econ\)"),
            ("setjmp", r"setjmp\s*\(econ\.context\)"), ("walk", r"for \(ob = obj_list"),
            ("reset", r"reset_object \(ob\)"), ("pop_context", r"pop_context\s*\(&econ\)")])
        b = body_of(comm, r"\nvoid remove_interactive \(object_t \* ob, int dested\)\s*\{")
        if b is None:
            raise X.TieBroken("remove_interactive()", "cannot locate remove_interactive()")
        orders["removeInteractiveOrder"] = order(b, [
            ("test_closing", r"if \(ip->iflags & CLOSING\)"), ("set_closing", r"ip->iflags \|= CLOSING"),
            ("net_dead", r"safe_apply \(APPLY_NET_DEAD"), ("shutdown", r"g_proceeding_shutdown\+\+"),
            ("clear_pending", r"g_io_events\[idx\]\.context = 0;"), ("free", r"FREE \(ip\)"), ("clear_pointer", r"ob->interactive = 0;"),
            ("clear_slot", r"all_users\[idx\] = 0;"), ("free_object", r"free_object \(ob, \"remove_interactive\"\)")])
        b = body_of(comm, r"\nint process_user_command \(\)\s*\{")
        if b is None:
            raise X.TieBroken("process_user_command()", "cannot locate process_user_command()")
        b2 = b[b.index("else if (call_function_interactive"):]   # the ordinary command path
        orders["userCommandOrder"] = order(b2, [
            ("process_input", r"apply \(APPLY_PROCESS_INPUT"), ("validate", r"VALIDATE_IP \(ip, command_giver\)"),
            ("command", r"process_command \(tbuf, command_giver\)"), ("prompt", r"print_prompt \(ip\)")])
        b = body_of(back, r"\nobject_t\* mudlib_connect\(int port, const char\* addr\)\s*\{")
        if b is None:
            raise X.TieBroken("mudlib_connect()", "cannot locate mudlib_connect()")
        orders["connectOrder"] = order(b, [
            ("add_ref_master", r"add_ref \(master_ob"), ("connect", r"safe_apply_master_ob \(APPLY_CONNECT"),
            ("unsafe_connect", r"[^_]apply_master_ob \(APPLY_CONNECT"), ("rejected", r"return 0;"),
            ("bind", r"ob->interactive = master_ob->interactive;"), ("clear_master", r"master_ob->interactive = 0;"),
            ("free_master", r"free_object \(master_ob"), ("add_ref_user", r"add_ref \(ob")])
        # ---- decisive comparisons / loop bounds / index updates, regenerated as normalised source text ----
        def conds_and_updates(body, idents):
            """all if/while/for headers that mention one of `idents` and all assignments / ++ / -- of them, in source order"""
            hits = []
            for m in re.finditer(r"\b(if|while|for)\s*\(", body):
                depth, j = 0, m.end() - 1
                while j < len(body):
                    if body[j] == "(":
                        depth += 1
                    elif body[j] == ")":
                        depth -= 1
                        if depth == 0:
                            break
                    j += 1
                text = re.sub(r"\s+", " ", body[m.start():j + 1]).strip()
                if any(re.search(r"\b%s\b" % re.escape(i), text) for i in idents):
                    hits.append((m.start(), text))
            ids = "|".join(re.escape(i) for i in idents)
            upd = (r"(?<=[;{})])\s*((?:(?:\+\+|--)\s*(?:%(i)s)\b|[^;{}()]*\b(?:%(i)s)\b[^;{}()]*(?:\+\+|--)|"
                   r"[^;{}()]*\b(?:%(i)s)\b[^;{}()=]*(?:[-+|&]?=(?!=))[^;{}]*|[^;{}()=]*(?:[-+|&]?=(?!=))[^;{}]*\b(?:%(i)s)\b[^;{}]*))\s*;") % {"i": ids}
            for m in re.finditer(upd, body):
                # not the ones inside an if/for header (already listed)
                pre = body[:m.start(1)]
                if pre.count("(") - pre.count(")") > 0:
                    continue
                text = re.sub(r"\s+", " ", m.group(1)).strip()
                if re.match(r"(if|for|while|return|else)\b", text):
                    text = re.sub(r"^else\s+", "", text)
                    if re.match(r"(if|for|while|return)\b", text):
                        continue
                hits.append((m.start(1), text + ";"))
            return [t for _, t in sorted(hits)]

        cmp_sites = {}
        b = body_of(ec, r"\nvoid error_handler \(const char \*err\)\s*\{")
        cmp_sites["errorHandlerStmts"] = conds_and_updates(b, ["in_error", "in_mudlib_error_handler", "mudlib_error_handler_context",
                                                               "current_heart_beat"])
        b = body_of(back, r"\nint set_heart_beat \(object_t \* ob, int to\)\s*\{")
        if b is None:
            raise X.TieBroken("set_heart_beat()", "cannot locate set_heart_beat()")
        cmp_sites["hbRemoveStmts"] = conds_and_updates(b, ["heart_beat_index", "num_hb_to_do"])
        b = body_of(back, r"\nstatic void call_heart_beat \(\)\s*\{")
        if b is None:
            raise X.TieBroken("call_heart_beat()", "cannot locate call_heart_beat()")
        cmp_sites["hbRoundStmts"] = conds_and_updates(b, ["heart_beat_index", "num_hb_to_do", "current_heart_beat"])
        b = body_of(back, r"\nstatic void look_for_objects_to_swap \(\)\s*\{")
        cmp_sites["sweepStmts"] = conds_and_updates(b, ["next_time", "next_reset", "O_RESET_STATE", "ref_time", "__TIME_TO_CLEAN_UP__",
                                                        "O_WILL_CLEAN_UP", "save_reset_state", "O_DESTRUCTED"])
        app = open(os.path.join(E.REPO, "src/apply.c")).read()
        b = body_of(app, r"\nint apply_low \(const char \*fun, object_t \* ob, int num_arg\)\s*\{")
        if b is None:
            raise X.TieBroken("apply_low()", "cannot locate apply_low()")
        cmp_sites["applyTouchStmts"] = conds_and_updates(b, ["time_of_ref", "O_RESET_STATE"])
        b = body_of(comm, r"\nint call_function_interactive \(interactive_t \* i, char \*str\)\s*\{")
        if b is None:
            raise X.TieBroken("call_function_interactive()", "cannot locate call_function_interactive()")
        cmp_sites["inputToCallStmts"] = conds_and_updates(b, ["input_to", "sent", "NOESC"]) + order(b, [
            ("free_sentence", r"free_sentence \(sent\)"), ("clear_input_to", r"i->input_to = 0;"),
            ("callback", r"call_function_pointer \(funp")])
        b = body_of(comm, r"\nint set_call \(object_t \* ob, sentence_t \* sent, int flags\)\s*\{")
        if b is None:
            raise X.TieBroken("set_call()", "cannot locate set_call()")
        cmp_sites["setCallStmts"] = conds_and_updates(b, ["input_to"])
        b = body_of(comm, r"\nstatic void print_prompt \(interactive_t \* ip\)\s*\{")
        if b is None:
            raise X.TieBroken("print_prompt()", "cannot locate print_prompt()")
        cmp_sites["promptStmts"] = conds_and_updates(b, ["input_to", "IP_VALID", "HAS_WRITE_PROMPT"])
        b = body_of(comm, r"\nint process_user_command \(\)\s*\{")
        cmp_sites["commandBranchStmts"] = conds_and_updates(b, ["input_to", "call_function_interactive", "HAS_PROCESS_INPUT",
                                                                "O_DESTRUCTED", "ed_buffer"])
        b = body_of(comm, r"\nstatic char\* get_user_command \(\)\s*\{")
        if b is None:
            raise X.TieBroken("get_user_command()", "cannot locate get_user_command()")
        cmp_sites["cursorStmts"] = conds_and_updates(b, ["s_next_user", "max_users", "HAS_CMD_TURN"])
        b = body_of(back, r"\nvoid backend \(\)\s*\{")
        cmp_sites["backendLoopStmts"] = conds_and_updates(b, ["connected_users", "HAS_CMD_TURN", "startup_step"])
        b = body_of(comm, r"\nvoid new_interactive \(socket_fd_t socket_fd\)\s*\{")
        if b is None:
            raise X.TieBroken("new_interactive()", "cannot locate new_interactive()")
        cmp_sites["slotSearchStmts"] = conds_and_updates(b, ["max_users", "new_max_users"])
        b = body_of(comm, r"\nvoid process_io \(\)\s*\{")
        if b is None:
            raise X.TieBroken("process_io()", "cannot locate process_io()")
        cmp_sites["processIoStmts"] = conds_and_updates(b, ["g_num_io_events", "O_DESTRUCTED", "EVENT_CLOSE", "all_users"])
        b = body_of(comm, r"\nvoid remove_interactive \(object_t \* ob, int dested\)\s*\{")
        cmp_sites["removeStmts"] = conds_and_updates(b, ["g_num_io_events", "g_io_events", "CLOSING", "dested", "max_users", "all_users"])

        b = body_of(back, r"\nvoid preload_objects \(int eflag\)\s*\{")
        if b is None:
            raise X.TieBroken("preload_objects()", "cannot locate preload_objects()")
        cmp_sites["preloadStmts"] = order(b, [
            ("save_context", r"save_context\s*\(&econ\)"), ("setjmp", r"setjmp\s*\(econ\.context\)"),
            ("restore", r"restore_context\s*\(&econ\)"), ("pop_context", r"pop_context\s*\(&econ\)"),
            ("return", r"return;"), ("epilog", r"apply_master_ob \(APPLY_EPILOG"), ("next_file", r"ix\+\+;"),
            ("loop", r"for \(; ix < prefiles->size; ix\+\+\)"), ("preload", r"apply_master_ob \(APPLY_PRELOAD")]) + \
            conds_and_updates(b, ["ix", "prefiles"])
        b = body_of(comm, r"\nint new_set_snoop \(object_t \* me, object_t \* you\)\s*\{")
        if b is None:
            raise X.TieBroken("new_set_snoop()", "cannot locate new_set_snoop()")
        cmp_sites["snoopStmts"] = conds_and_updates(b, ["snoop_on", "snoop_by", "O_DESTRUCTED"])
        objc = open(os.path.join(E.REPO, "lib/lpc/object.c")).read()
        b = body_of(objc, r"\nvoid reset_object \(object_t \* ob\)\s*\{")
        if b is None:
            raise X.TieBroken("reset_object()", "cannot locate reset_object()")
        cmp_sites["resetObjectStmts"] = order(b, [
            ("next_reset", r"ob->next_reset\s*="), ("apply_reset", r"apply \(APPLY_RESET, ob"),
            ("clear_will_reset", r"ob->flags &= ~O_WILL_RESET"), ("set_reset_state", r"ob->flags \|= O_RESET_STATE")]) + \
            conds_and_updates(b, ["__TIME_TO_RESET__"])
        # ---- inventory of the driver-initiated apply sites of the event loop (protected or not) ----
        def apply_sites(fname, src):
            txt = re.sub(r"/\*.*?\*/", lambda m: re.sub(r"[^\n]", " ", m.group(0)), src, flags=re.S)
            txt = re.sub(r"//[^\n]*", "", txt)
            funcs = [(m.start(), m.group(1)) for m in re.finditer(r"^(?:[A-Za-z_][\w \t\*]*?[ \*])?([A-Za-z_]\w*)[ \t]*\([^;{}]*\)[ \t]*\{?[ \t]*$", txt, flags=re.M)
                     if m.group(1) not in ("if", "for", "while", "switch", "return", "sizeof", "defined")]
            out = []
            rx = r"(?<![\w])(safe_apply_master_ob|apply_master_ob|safe_apply|apply|safe_call_function_pointer|call_function_pointer|call_function)\s*\(\s*([A-Za-z_][\w\.\->\[\]]*)"
            for m in re.finditer(rx, txt):
                line_start = txt.rfind("\n", 0, m.start()) + 1
                if txt[line_start:m.start()].lstrip().startswith("#"):
                    continue
                if re.match(r"[ \t]*\([^;{}]*\)[ \t]*\{?[ \t]*$", txt[m.end(1):txt.find("\n", m.end(1))]) and line_start == m.start():
                    continue        # a definition
                fn = "?"
                for pos, name in funcs:
                    if pos <= m.start():
                        fn = name
                if fn == m.group(1):
                    continue
                out.append("%s:%s:%s:%s" % (fname, fn, m.group(1), m.group(2)))
            return out

        sites = []
        for fname, src in (("backend.c", back), ("error_context.c", ec), ("comm.c", comm), ("call_out.c", co)):
            sites += apply_sites(fname, src)
        # exact inventory for the functions the model mirrors; for all other functions only the UNPROTECTED sites matter
        # (file:function, each once): protecting one of them, or adding a protected site, is harmless and must not
        # break the tie - a NEW unprotected site does
        modelled_fns = ("mudlib_connect", "mudlib_logon", "look_for_objects_to_swap", "call_heart_beat", "preload_objects",
                        "mudlib_error_handler", "process_user_command", "remove_interactive", "call_function_interactive",
                        "print_prompt", "receive_snoop", "call_out")
        cmp_sites["applySites"] = [x for x in sites if x.split(":")[1] in modelled_fns]
        elsewhere = []
        for x in sites:
            f, fn, call, _ = x.split(":", 3)
            if fn not in modelled_fns and not call.startswith("safe_") and (f + ":" + fn) not in elsewhere:
                elsewhere.append(f + ":" + fn)
        cmp_sites["unprotectedElsewhere"] = elsewhere
        # shape guards of the repaired code: the model mirrors these forms
        guards = [
            (r"if\s*\(\s*all_users\s*&&\s*all_users\s*\[\s*0\s*\]\s*\)\s*\n\s*flush_message", comm, "process_io:all_users guard"),
            (r"object_t\s*\*\s*user_ob\s*=\s*ip->ob;\s*\n\s*get_user_data", comm, "process_io:revalidation through the object"),
            (r"if\s*\(\s*setjmp\s*\(\s*econ\.context\s*\)\s*\)\s*\n\s*restore_context\s*\(&econ\);[^;]*?if\s*\(\s*startup_step\s*==\s*0\s*\)",
             back, "backend:recovery point before the start-up steps"),
            (r"if\s*\(\s*duration\s*<\s*0\s*\)", back, "update_load_av:clamp"),
            (r"ret\s*=\s*safe_apply_master_ob\s*\(\s*APPLY_CONNECT", back, "mudlib_connect:connect under its own recovery point"),
            (r"safe_apply\s*\(\s*APPLY_LOGON,\s*ob", back, "mudlib_logon:logon under its own recovery point"),
            (r'add_message \(ip->ob, "[^"]*"\);\s*\n\s*if \(user_ob->interactive != ip\)\s*\n\s*return \(size_t\) -1;', comm,
             "copy_chars:record re-validated after the echo"),
            (r"ip->iflags \|= CMD_IN_BUF;\s*\}\s*(?:/\*[\s\S]*?\*/\s*)?if \(ip->snoop_by && !\(ip->iflags & NOECHO\)\)\s*\n\s*receive_snoop \(buf, ip->snoop_by->ob\);\s*\n\s*break;",
             comm, "get_user_data:snoop forwarding last"),
            (r"for\s*\(idx = 0; idx < g_num_io_events; idx\+\+\)\s*\n\s*if\s*\(g_io_events\[idx\]\.context == ip\)\s*\n\s*g_io_events\[idx\]\.context = 0;[^}]*?FREE \(ip\);",
             comm, "remove_interactive:pending events of the freed record cleared"),
        ]
        flags = []
        for rx, src, name in guards:
            flags.append((name, 1 if re.search(rx, src) else 0))
        t = "/-- all_users grows by this many slots (literal in new_interactive) -/\ndef userChunk : Nat := %d\n\n" % chunk
        t += "/-- look_for_objects_to_swap period in seconds (literal) -/\ndef sweepPeriod : Nat := %d\n\n" % period
        t += "/-- MAX_VERB_BUFF of user_parser() (literal in simulate.c) -/\ndef maxVerbBuff : Nat := %d\n\n" % verbbuf
        t += "/-- ResetDuration of the verification configuration -/\ndef resetDuration : Nat := %d\n\n" % RESET_DURATION
        t += "/-- CleanupDuration of the verification configuration -/\ndef cleanupDuration : Nat := %d\n\n" % CLEANUP_DURATION
        for name, lst in orders.items():
            t += "/-- statement order regenerated from the source (see props/c09.py gen_extra) -/\ndef %s : List String :=\n  [%s]\n\n" % (
                name, ", ".join('"%s"' % x for x in lst))
        for name, lst in cmp_sites.items():
            t += "/-- normalised source text regenerated from the C code (see props/c09.py gen_extra) -/\ndef %s : List String :=\n  [%s]\n\n" % (
                name, ",\n   ".join('"%s"' % x.replace("\\", "\\\\").replace('"', '\\"') for x in lst))
        t += "/-- all source shapes of the repaired code are present -/\ndef guardsPresent : List Nat := [%s]\n\n" % ", ".join(str(v) for _, v in flags)
        for name, v in flags:
            ident = re.sub(r"[^A-Za-z0-9]", "_", name)
            t += "/-- source shape: %s (1 = present) -/\ndef guard_%s : Nat := %d\n\n" % (name, ident, v)
        return t

    def prepare(self, ctx):
        self.exe = E.compile_harness("c09", [os.path.join(E.VERIF, "harness/c09/c09.c")], extra=WRAP)
        # second build WITHOUT sanitizers: ASan never hands a freed address out again (quarantine), the C library's
        # allocator does so at once - address reuse of connection records is only observable there
        self.exe_plain = E.compile_harness("c09", [os.path.join(E.VERIF, "harness/c09/c09.c")], kind="plain", extra=WRAP)
        self.conf = E.make_mudlib(ctx.rundir, master="/c09/master.c",
                                  extra_conf="ResetDuration %d\nCleanupDuration %d\n" % (RESET_DURATION, CLEANUP_DURATION))

    def run_impl(self, ctx, cases):
        # split into chunks: one harness process per chunk keeps a crash of the harness itself local
        out = {}
        for i in range(0, len(cases), 60):
            out.update(E.run_harness(self.exe, self.conf, cases[i:i + 60], ctx.rundir, args=["--timeout", "40"]))
        # cases marked `# plain` run a second time on the build without sanitizers (real allocator: a freed
        # connection record's address is reused by the next accept).  Its trace is the one that is compared and
        # judged, unless the sanitizer run already shows a crash.
        plain = [c for c in cases if PLAIN_MARK in c.lines]
        for i in range(0, len(plain), 60):
            res = E.run_harness(self.exe_plain, self.conf, plain[i:i + 60], ctx.rundir, args=["--timeout", "40"])
            for cid, tr in res.items():
                if not any(l.startswith(("crash", "sanitizer")) for l in out.get(cid, [])):
                    out[cid] = tr
        return out

    # ---- boundary set ---------------------------------------------------------
    def boundary(self):
        B = []

        def mk(name, lines, settle=True):
            B.append(E.Case("b-" + name, HEAD + lines + (TAIL if settle else []) + ["run"], {"origin": "boundary"}))
        # the repaired defects (each crashed the unrepaired driver)
        mk("idle-tick-no-connection", ["mode net", "step tick", "step idle", "step tick"])
        mk("console-error-in-command", ["mode console", "script u1 cmd:boom err", "step cin:hi/", "step cin:boom/",
                                        "step cin:after/", "step tick"])
        mk("error-in-initial-heart-beat", ["mode net", "clone o1 /c09/obj", "clone o2 /c09/obj", "script o1 hb err",
                                           "vapply o1 do_ops hb:1", "vapply o2 do_ops hb:1", "step tick", "step tick"])
        mk("clock-steps-back", ["mode net", "step conn:c1", "step send:c1:a/", "step tick:5", "step send:c1:b/",
                                "step tick:-3", "step send:c1:c/", "step idle", "step tick:10"], settle=False)
        mk("client-eof", ["mode net", "step conn:c1", "step send:c1:a/b/", "step close:c1", "step conn:c2", "step send:c2:x/"])
        # error in every task kind, other tasks pending, all three master behaviours
        for meh in ("ok", "raise", "recurse"):
            mk("every-kind-" + meh, [
                "mode net", "meh " + meh, "clone o1 /c09/obj", "clone o2 /c09/obj", "clone o3 /c09/obj",
                "script o2 hb err", "script o3 reset err", "script o1 reset cerr", "script o2 co:t err",
                "script u1 logon err", "script u1 input ok", "script u2 cmd:boom err", "script u2 netdead err",
                "script u3 input err", "script u1 hb err", "script u2 logon hb:1", "script u2 hb ok",
                "vapply o1 do_ops hb:1;co:3:a", "vapply o2 do_ops hb:1;co:3:t;co:3:u", "vapply o3 do_ops hb:1;co:3:b",
                "step conn:c1", "step conn:c2 tick", "step conn:c3", "step send:c1:a1/b1/c1/", "step send:c2:boom/b2/ tick",
                "step send:c3:a3/b3/", "step tick", "step close:c2", "step tick:1000", "step send:c1:d1/", "step tick:1000"])
        mk("console-every-kind", ["mode console", "meh raise", "clone o1 /c09/obj", "script o1 hb err", "script u1 hb err",
                                  "script u1 logon hb:1", "script u1 cmd:boom err", "script u1 input cerr",
                                  "vapply o1 do_ops hb:1;co:2:x", "script o1 co:x err",
                                  "step cin:a/boom/b/", "step tick", "step conn:c1", "step send:c1:n1/ tick", "step cin:c/",
                                  "step tick"])
        mk("console-quit-shuts-down", ["mode console", "script u1 cmd:quit dest:me", "step cin:a/", "step cin:quit/more/",
                                       "step idle"])
        mk("self-disconnect-everywhere", [
            "mode net", "script u1 logon dest:me", "script u2 input dest:me", "script u3 cmd:quit dest:me",
            "script u4 netdead dest:me", "script u5 hb dest:me", "script u5 logon hb:1", "script u6 co:t dest:me",
            "script u6 logon co:1:t",
            "step conn:c1", "step conn:c2", "step conn:c3", "step conn:c4", "step conn:c5", "step conn:c6",
            "step send:c2:x/y/", "step send:c3:quit/z/", "step close:c4", "step tick", "step tick"])
        mk("kick-others-mid-command", [
            "mode net", "script u1 cmd:kick dest:u2;dest:u3", "script u2 netdead err", "script u3 hb ok", "script u3 logon hb:1",
            "step conn:c1", "step conn:c2", "step conn:c3", "step send:c2:p/q/r/", "step send:c3:s/t/",
            "step send:c1:kick/after/ tick", "step tick", "step conn:c4", "step send:c4:again/"])
        mk("partial-input-then-close", ["mode net", "step conn:c1", "step send:c1:ab", "step send:c1:c/de", "step close:c1",
                                        "step conn:c2", "step send:c2:f", "step send:c2:/", "step tick"])
        mk("reconnect-reuses-slot", ["mode net", "step conn:c1", "step conn:c2", "step close:c1", "step conn:c3",
                                     "step send:c3:a/", "step send:c2:b/", "step close:c2", "step close:c3", "step conn:c4",
                                     "step send:c4:c/"])
        mk("hb-round-removals", ["mode net", "clone o1 /c09/obj", "clone o2 /c09/obj", "clone o3 /c09/obj", "clone o4 /c09/obj",
                                 "script o1 hb dest:o2", "script o3 hb hb:0", "script o4 hb dest:o1;err",
                                 "vapply o1 do_ops hb:1", "vapply o2 do_ops hb:1", "vapply o3 do_ops hb:1",
                                 "vapply o4 do_ops hb:1", "step tick", "step tick", "step tick"])
        mk("handler-switch-repeated-errors", ["mode net", "script u1 cmd:r meh:raise;err", "script u1 cmd:c meh:recurse;err",
                                              "script u1 cmd:o meh:ok;err", "script u1 cmd:e err", "step conn:c1",
                                              "step send:c1:e/r/e/", "step send:c1:c/e/o/e/", "step idle", "step idle",
                                              "step idle", "step idle"])
        # several events reported by ONE poll, delivered in the order written (the harness sorts what epoll returned)
        mk("batch-stale-event-reused-record", [
            PLAIN_MARK, "mode net", "script u2 netdead dest:u1", "step conn:c1", "step conn:c2", "step send:c1:a/",
            "step send:c2:b/", "step close:c2 conn:c3 reset:c1", "step send:c3:x/", "step send:c3:y/"])
        mk("batch-stale-data-reused-record", [
            PLAIN_MARK, "mode net", "script u2 netdead dest:u1", "step conn:c1", "step conn:c2",
            "step reset:c2 conn:c3 send:c1:lost/", "step send:c3:x/"])
        for i, perm in enumerate([("conn:c3", "send:c1:p/", "close:c2"), ("conn:c3", "close:c2", "send:c1:p/"),
                                  ("send:c1:p/", "conn:c3", "close:c2"), ("send:c1:p/", "close:c2", "conn:c3"),
                                  ("close:c2", "conn:c3", "send:c1:p/"), ("close:c2", "send:c1:p/", "conn:c3")]):
            mk("batch-perm-%d" % i, [
                PLAIN_MARK, "mode net", "script u2 netdead dest:u1;err", "script u3 logon dest:u1", "script u1 netdead err",
                "step conn:c1", "step conn:c2", "step send:c1:a/ send:c2:b/", "step " + " ".join(perm) + " tick",
                "step send:c3:x/", "step idle"])
        mk("batch-console-and-network", ["mode console", "script u1 cmd:boom err", "step conn:c1", "step conn:c2",
                                         "step send:c1:a/ cin:boom/ reset:c2 tick", "step cin:b/ conn:c3 send:c1:c/",
                                         "step close:c1 cin:d/ send:c3:e/"])
        mk("batch-logon-error-keeps-rest", [
            "mode net", "script u3 logon err", "step conn:c1", "step conn:c2", "step conn:c3 send:c1:a/ close:c2",
            "step idle", "step send:c1:b/"])
        # the console line that arrives in the same poll as a connection whose logon() raises is served in that cycle
        mk("batch-console-line-behind-failing-logon", ["mode console", "script u2 logon err", "step cin:first/",
                                                       "step conn:c1 cin:hello/"])
        # table boundary: slots 1..49 full, the 50th network connection makes all_users grow from 50 to 100 entries;
        # the console user (slot 0) and a user of the first chunk keep working afterwards
        mk("fifty-one-connections", ["mode console", "script u3 netdead err"] + ["step conn:c%d" % i for i in range(1, 52)] +
           ["step send:c51:a/ send:c1:b/ cin:c/", "step close:c2 conn:c52", "step send:c52:d/ tick"])
        # input_to(): the next line goes to the callback (no process_input, no command, no prompt while one is pending);
        # the callback re-arms itself, raises, disconnects its user; only the first of two input_to() calls counts
        mk("input-to-chain", ["mode net", "script u1 logon it:s;it:t", "script u1 it:s it:t", "script u1 it:t err",
                              "script u1 cmd:ask it:s;w:q", "script u2 logon it:s", "script u2 it:s dest:me", "script u3 it:s ok",
                              "script u3 input it:s", "step conn:c1", "step conn:c2", "step conn:c3",
                              "step send:c1:l1/l2/l3/ask/l5/l6/ send:c2:bye/never/ send:c3:a/b/c/", "step close:c1"])
        mk("input-to-console", ["mode console", "script u1 logon it:s", "script u1 it:s it:t;cerr", "script u1 it:t dest:me",
                                "step cin:one/two/", "step cin:three/"])
        # clean_up(): idle objects get it from the sweep; it raises, destructs itself, destructs the next object of the walk;
        # a failing clean_up() does not restore the saved O_RESET_STATE (the object is reset again by the next sweep)
        mk("clean-up-sweep", ["mode net", "clone o1 /c09/obj", "clone o2 /c09/obj", "clone o3 /c09/obj", "clone o4 /c09/obj",
                              "script o1 cleanup err", "script o2 cleanup dest:me", "script o4 cleanup dest:o3;co:2:p",
                              "script o3 reset cerr", "script o1 reset ok", "script o4 co:p w:x",
                              "step tick", "step tick:1000", "step conn:c1 tick:1000", "step send:c1:a/ tick:1000",
                              "step tick:1000", "step tick:5"])
        # write_prompt(): unprotected apply after every served line; it raises, disconnects its user, arms an input_to
        mk("write-prompt-hooks", ["mode net", "script u1 prompt err", "script u2 prompt dest:me", "script u3 prompt it:s",
                                  "script u3 it:s w:got", "script u4 prompt cerr;dest:u1", "step conn:c1", "step conn:c2",
                                  "step conn:c3", "step conn:c4", "step send:c1:a/b/ send:c2:a/b/ send:c3:a/b/c/ send:c4:a/",
                                  "step send:c1:c/ tick"])
        # preload_objects(): a failing file does not stop the rest; a failing epilog() preloads nothing; all three master
        # error_handler behaviours report the error
        for meh in ("ok", "raise", "recurse"):
            mk("preload-" + meh, ["mode net", "meh " + meh, "preload err,ok,err,err,ok", "step conn:c1", "step send:c1:a/"])
        mk("preload-epilog-fails", ["mode console", "meh recurse", "preload epilog-err", "step cin:a/"])
        # failure isolation: one connection sends a BACKLOG of commands that each raise an uncaught error (in the command,
        # in process_input, in an input_to callback) while the others have commands pending: the longjmp to backend()
        # restarts the cycle behind the failing user, the others are served in the next iteration
        for i, (kind, line) in enumerate([("cmd:boom", "boom"), ("input", "a"), ("prompt", "a")]):
            mk("backlog-of-failing-commands-%d" % i, [
                "mode net", "script u1 %s err" % kind, "step conn:c1", "step conn:c2", "step conn:c3",
                "step send:c1:%s send:c2:x1/ send:c3:a/b/" % ((line + "/") * 9), "step send:c2:b/", "step idle", "step idle",
                "step send:c3:c/", "step idle", "step idle", "step idle"])
        mk("backlog-of-failing-commands-console", [
            "mode console", "script u1 cmd:boom err", "script u3 cmd:boom err", "step conn:c1", "step conn:c2",
            "step cin:%s send:c1:a/b/ send:c2:%s" % ("boom/" * 8, "boom/" * 8), "step send:c1:c/", "step idle", "step idle",
            "step idle", "step idle", "step idle", "step idle"])
        # snoop: what the snooped user types is shown to the snooper (receive_snoop(), unprotected apply inside
        # get_user_data); the snooper destructs / disconnects the snooped user or itself, raises, re-targets; loops refused
        mk("snoop-input-destructs-snoopee", ["mode net", "script u1 cmd:spy snoop:u2", "script u1 snoop dest:u2",
                                             "step conn:c1", "step conn:c2", "step send:c1:spy/", "step send:c2:a/b/",
                                             "step send:c1:x1/"])
        mk("snoop-input-raises", ["mode net", "script u1 cmd:spy snoop:u2", "script u1 snoop err", "step conn:c1",
                                  "step conn:c2", "step send:c1:spy/", "step send:c2:a/", "step idle", "step idle",
                                  "step send:c1:x1/"])
        mk("snoop-links", ["mode net", "script u1 cmd:spy snoop:u2", "script u2 cmd:spy snoop:u3", "script u3 cmd:spy snoop:u1",
                           "script u1 cmd:kick snoop:u3", "script u1 snoop w:saw", "script u2 snoop dest:me",
                           "script u3 snoop cerr;dest:u1", "step conn:c1", "step conn:c2", "step conn:c3",
                           "step send:c1:spy/ send:c2:spy/", "step send:c3:spy/a/", "step send:c2:b/ send:c3:c/",
                           "step send:c1:kick/", "step send:c3:d/pa", "step send:c3:rt/ close:c1", "step send:c2:e/ send:c3:f/"])
        # a snooper is REPLACED (two users snoop the same one), then the ends of the old and the new link go away in
        # every order: the old snooper must not keep a link (remove_interactive() follows snoop_on / snoop_by)
        for i, tail3 in enumerate([["step close:c3", "step close:c1", "step send:c2:a/"],
                                   ["step close:c1", "step send:c3:a/b/", "step close:c2", "step send:c3:c/"],
                                   ["step send:c1:quit/", "step send:c3:a/", "step close:c3 close:c2"],
                                   ["step reset:c3 reset:c1 conn:c4", "step send:c4:a/ send:c2:b/"]]):
            mk("snoop-replaced-snooper-%d" % i, ["mode net", "script u1 cmd:spy snoop:u3", "script u2 cmd:spy snoop:u3",
                                                 "script u1 cmd:quit dest:me", "script u2 snoop w:saw", "script u1 snoop w:old",
                                                 "step conn:c1", "step conn:c2", "step conn:c3", "step send:c1:spy/",
                                                 "step send:c3:x1/", "step send:c2:spy/", "step send:c3:b/"] + tail3)
        # a heart_beat removes objects that are still to come in the same round (the one right behind it, the last one,
        # two at once): the round shrinks with them, nobody beats twice, no destructed object beats
        mk("hb-removes-later-object", ["mode net"] + ["clone o%d /c09/obj" % i for i in range(1, 5)] + ["script o1 hb dest:o2"] +
           ["vapply o%d do_ops hb:1" % i for i in range(1, 5)] + ["step tick", "step tick"])
        mk("hb-removes-last-object", ["mode net"] + ["clone o%d /c09/obj" % i for i in range(1, 5)] +
           ["script o2 hb dest:o4", "script o3 hb cerr"] + ["vapply o%d do_ops hb:1" % i for i in range(1, 5)] +
           ["step tick", "step conn:c1 tick"])
        mk("hb-removes-two-later-objects", ["mode net"] + ["clone o%d /c09/obj" % i for i in range(1, 6)] +
           ["script o2 hb dest:o5;dest:o3", "script o4 hb err"] + ["vapply o%d do_ops hb:1" % i for i in range(1, 6)] +
           ["step tick", "step tick"])
        mk("connect-rejected", ["mode net", "script k1 connect rej", "step conn:c1", "step conn:c2", "step send:c2:a/"])
        return B

    # ---- oracle self-test: traces the compiled judge must reject ------------------
    def tie_diffs(self):
        """precise report for a broken bridging lemma: which entry of which regenerated list differs from the list the
        lemma in Bridge.lean expects (names the function / statement instead of a Lean line number)"""
        out = []
        try:
            gen = open(os.path.join(E.VERIF, "lean/NV/Gen/C09.lean")).read()
            br = open(os.path.join(E.VERIF, "lean/NV/C09/Bridge.lean")).read()
        except OSError:
            return out

        def items(txt):
            return re.findall(r'"((?:[^"\\\\]|\\\\.)*)"', txt)

        def list_at(txt, pos):
            """the bracketed list literal starting at the first `[` at or after pos (string aware)"""
            i = txt.find("[", pos)
            if i < 0:
                return ""
            k, instr = i, False
            while k < len(txt):
                ch = txt[k]
                if instr:
                    if ch == "\\":
                        k += 1
                    elif ch == '"':
                        instr = False
                elif ch == '"':
                    instr = True
                elif ch == "]":
                    return txt[i:k + 1]
                k += 1
            return ""
        for m in re.finditer(r"theorem (\w+) :\s*NV\.Gen\.C09\.(\w+) =", br):
            thm, name = m.group(1), m.group(2)
            g = re.search(r"def %s : List String :=" % name, gen)
            if not g:
                continue
            want, have = items(list_at(br, m.end())), items(list_at(gen, g.end()))
            if have != want:
                gone = [x for x in want if x not in have]
                new = [x for x in have if x not in want]
                out.append("%s (Gen.%s): source no longer has %s; source now has %s%s" % (
                    thm, name, gone or "-", new or "-", "" if gone or new else " (same entries, order changed)"))
        m = re.search(r"def unprotectedElsewhere : List String :=", gen)
        a = re.search(r"def unprotectedAllowed : List String :=", br)
        if m and a:
            extra = [x for x in items(list_at(gen, m.end())) if x not in items(list_at(br, a.end()))]
            if extra:
                out.append("no_new_unprotected_apply_site: NEW unprotected driver-initiated apply in %s" % extra)
        return out

    def extra_checks(self, ctx, tier, rng):
        pre_problems = [{"kind": "obligation-broken", "name": "tie detail: " + d.split(":")[0], "detail": d}
                        for d in self.tie_diffs()]
        head = ["load reg /c09/reg", "mode net", "step conn:c1", "step send:c1:a/b/", "step idle", "run", "--"]
        tail = ["exit loop", 'hbs ""', "refs 0 0", "slots 1", "slotidx 1"]
        pre = ["start", "cycle 1", "t connect k1", "t logon u1", "cycle 2"]
        bad = {
            "line-never-served": pre + ["t input u1 a", "t cmd u1 a", "cycle 3"] + tail,
            "line-served-twice": pre + ["t input u1 a", "t cmd u1 a", "cycle 3", "t input u1 a", "t cmd u1 a", "cycle 4",
                                        "t input u1 b", "t cmd u1 b"] + tail,
            "lines-out-of-order": pre + ["t input u1 b", "t cmd u1 b", "cycle 3", "t input u1 a", "t cmd u1 a"] + tail,
            "wrong-command-run": pre + ["t input u1 a", "t cmd u1 zzz", "cycle 3", "t input u1 b", "t cmd u1 b"] + tail,
            "refs-unbalanced": pre + ["t input u1 a", "t cmd u1 a", "cycle 3", "t input u1 b", "t cmd u1 b",
                                      "exit loop", 'hbs ""', "refs 1 0", "slots 1", "slotidx 1"],
            "user-disconnected-by-the-driver": pre + ["t input u1 a", "t cmd u1 a", "cycle 3", "t input u1 b", "t cmd u1 b",
                                                "cycle 4", "t netdead u1", "exit loop", 'hbs ""', "refs 0 0", "slots 0", "slotidx"],
            "line-waits-far-beyond-the-isolation-bound": [
                "start", "cycle 1", "t connect k1", "t logon u1", "cycle 2", "t input u1 a", "t cmd u1 a"] +
                ["cycle %d" % i for i in range(3, 10)] + ["t input u1 b", "t cmd u1 b"] + tail,
            "sanitizer-line": pre + ["sanitizer ERROR: AddressSanitizer: heap-use-after-free"] + tail,
        }
        good = pre + ["t input u1 a", "t cmd u1 a", "cycle 3", "t input u1 b", "t cmd u1 b"] + tail
        cases = [E.Case("neg-" + k, head + v) for k, v in bad.items()] + [E.Case("pos-good", head + good)]
        out = E.nvdrive(self.id, "judge", E.cases_text(cases))
        problems = pre_problems
        for k in bad:
            if out.get("neg-" + k, ["ok"]) == ["ok"]:
                problems.append({"kind": "obligation-broken", "name": "oracle self-test: " + k,
                                 "detail": "the judge accepted a trace it must reject"})
        if out.get("pos-good") != ["ok"]:
            problems.append({"kind": "obligation-broken", "name": "oracle self-test: good trace",
                             "detail": "the judge rejected a correct trace: %s" % out.get("pos-good")})
        return problems

    # ---- random histories -------------------------------------------------------
    def gen_ops(self, rng, me, nusers, nobjs, allow_err=True, allow_it=False):
        ops = []
        for _ in range(rng.weighted([(1, 6), (2, 3), (3, 1)])):
            k = rng.weighted([("ok", 4), ("err", 5 if allow_err else 0), ("cerr", 2), ("dest", 3), ("co", 3), ("hb", 2),
                              ("w", 2), ("meh", 1), ("it", 3 if allow_it else 0), ("snoop", 2 if me.startswith("u") else 0)])
            if k == "dest":
                t = rng.weighted([("me", 3), ("u", 3), ("o", 2)])
                if t == "u":
                    t = "u%d" % rng.range(1, max(1, nusers))
                elif t == "o":
                    if nobjs == 0:
                        t = "me"
                    else:
                        t = "o%d" % rng.range(1, nobjs)
                ops.append("dest:" + t)
            elif k == "co":
                ops.append("co:%d:%s" % (rng.range(1, 5), rng.choice(["p", "q", "r"])))
            elif k == "hb":
                ops.append("hb:%d" % rng.below(2))
            elif k == "w":
                ops.append("w:" + rng.choice(["hi", "zz", "msg"]))
            elif k == "meh":
                ops.append("meh:" + rng.choice(["ok", "raise", "recurse"]))
            elif k == "it":
                ops.append("it:" + rng.choice(["s", "t"]))
            elif k == "snoop":
                ops.append("snoop:u%d" % rng.range(1, max(1, nusers)))
            else:
                ops.append(k)
            if k == "err":
                break
        return ";".join(ops)

    def gen_case(self, rng, cid):
        self._long_used = False
        console = rng.chance(35, 100)
        lines = ["mode console" if console else "mode net", "meh " + rng.weighted([("ok", 5), ("raise", 3), ("recurse", 3)])]
        nobjs = rng.weighted([(0, 2), (1, 3), (2, 3), (3, 2)])
        nusers = rng.range(1, 4)
        verbs = ["a", "b", "boom", "quit", "kick", "x1"]
        # preload_objects() before backend(): the master's epilog() names 1-4 files, some of which fail to load
        if rng.chance(25, 100):
            lines.append("preload " + ("epilog-err" if rng.chance(8, 100) else
                                       ",".join(rng.choice(["ok", "ok", "err"]) for _ in range(rng.range(1, 4)))))
        for i in range(1, nobjs + 1):
            lines.append("clone o%d /c09/obj" % i)
        density = rng.weighted([(25, 2), (45, 3), (70, 2)])
        for i in range(1, nobjs + 1):
            for kind in ("hb", "reset", "co:p", "co:q", "co:r", "cleanup"):
                if rng.chance(density, 100):
                    ops = self.gen_ops(rng, "o%d" % i, nusers, nobjs)
                    if kind == "reset":
                        # an object destructed by its own reset() would still get clean_up() from the C code when that
                        # is due (apply to a destructed object): not scripted
                        ops = ";".join("ok" if o in ("dest:me", "dest:o%d" % i) else o for o in ops.split(";"))
                    lines.append("script o%d %s %s" % (i, kind, ops))
        for u in range(1, nusers + 2):
            for kind in ["logon", "input", "netdead", "hb", "co:p", "co:q", "it:s", "it:t", "prompt", "snoop"] + ["cmd:" + v for v in verbs]:
                if rng.chance(density // 2 if kind in ("logon", "input", "prompt") else density, 100):
                    # input_to() acts on command_giver: that is the user itself in logon, process_input, a command and
                    # an input_to callback (not in net_dead / call_out / heart_beat, where it is inherited)
                    it_ok = kind in ("logon", "input", "it:s", "it:t", "prompt") or kind.startswith("cmd:")
                    lines.append("script u%d %s %s" % (u, kind, self.gen_ops(rng, "u%d" % u, nusers, nobjs, allow_it=it_ok)))
        refused = set()
        for k in range(1, nusers + 3):
            if rng.chance(6, 100):
                refused.add(k)
                lines.append("script k%d connect %s" % (k, rng.choice(["err", "rej"])))
        # directed: a heart_beat that removes an object still to come in the same round
        hb_forced = set()
        if nobjs >= 2 and rng.chance(25, 100):
            i = rng.range(1, nobjs - 1)
            j = rng.range(i + 1, nobjs)
            lines.append("script o%d hb %s" % (i, rng.choice(["dest:o%d", "ok;dest:o%d", "dest:o%d;err", "cerr;dest:o%d"]) % j))
            hb_forced = {i, j}
        for i in range(1, nobjs + 1):
            if rng.chance(75, 100) or i in hb_forced:
                s = ["hb:1"] if (rng.chance(70, 100) or i in hb_forced) else []
                for _ in range(rng.below(3)):
                    s.append("co:%d:%s" % (rng.range(1, 6), rng.choice(["p", "q", "r"])))
                if s:
                    lines.append("vapply o%d do_ops %s" % (i, ";".join(s)))
        # the history
        nextc = 1
        open_c = []
        nconn = 0
        sent = {}
        quiet_next = False
        aba_done = False
        backlog_done = False
        snoop_done = False
        user_of = {}                      # client -> ordinal of its user object (the console user is attempt 1)
        attempt = [1 if console else 0, 0 if (not console or 1 in refused) else 1]

        def note_conn(c):
            attempt[0] += 1
            if attempt[0] not in refused:
                attempt[1] += 1
                user_of[c] = attempt[1]
        batch = False
        later_open = []
        for _ in range(rng.range(5, 22)):
            acts = []
            open_c += later_open
            later_open = []
            if quiet_next:
                quiet_next = False
                lines.append("step " + rng.weighted([("idle", 3), ("tick", 2)]))
                continue
            k = rng.weighted([("conn", 4 if nconn < nusers + 1 else 0), ("send", 9 if open_c else 0), ("close", 2 if open_c else 0),
                              ("cin", 6 if console else 0), ("idle", 2), ("none", 3)])
            if k == "conn":
                acts.append("conn:c%d" % nextc)
                open_c.append(nextc)
                note_conn(nextc)
                nextc += 1
                nconn += 1
            elif k == "send":
                c = rng.choice(open_c)
                t = self.gen_text(rng, verbs)
                sent[c] = sent.get(c, 0) + t.count("/")
                acts.append("send:c%d:%s" % (c, t))
            elif k == "close":
                c = rng.choice(open_c)
                open_c.remove(c)
                acts.append("%s:c%d" % (rng.weighted([("close", 3), ("reset", 2)]), c))
            elif k == "cin":
                t = self.gen_text(rng, verbs, partial_ok=False)
                sent[0] = sent.get(0, 0) + t.count("/")
                acts.append("cin:" + t)
            elif k == "idle":
                acts.append("idle")
            # several events reported by ONE poll, in every order (the harness delivers them in the order written):
            # accept / data / end-of-file / reset (hang-up) / console line on DISTINCT connections that were open
            # before this step - one descriptor yields one event per poll
            if k in ("send", "cin", "conn", "close") and rng.chance(30, 100):
                busy = set(int(a.split(":")[1][1:]) for a in acts if a.split(":")[0] in ("send", "close", "conn", "reset"))
                for _ in range(rng.weighted([(1, 5), (2, 3), (3, 1)])):
                    others = [c for c in open_c if c not in busy]
                    k2 = rng.weighted([("send", 6 if others else 0), ("close", 2 if others else 0), ("reset", 3 if others else 0),
                                       ("conn", 3 if (nconn < nusers + 2 and not any(a.startswith("conn") for a in acts)) else 0),
                                       ("cin", 3 if console and not any(a.startswith("cin") for a in acts) else 0), ("none", 1)])
                    if k2 == "send":
                        c = rng.choice(others)
                        t = self.gen_text(rng, verbs)
                        sent[c] = sent.get(c, 0) + t.count("/")
                        acts.append("send:c%d:%s" % (c, t))
                        busy.add(c)
                    elif k2 in ("close", "reset"):
                        c = rng.choice(others)
                        open_c.remove(c)
                        acts.append("%s:c%d" % (k2, c))
                        busy.add(c)
                    elif k2 == "conn":
                        acts.append("conn:c%d" % nextc)
                        busy.add(nextc)
                        later_open.append(nextc)
                        note_conn(nextc)
                        nextc += 1
                        nconn += 1
                    elif k2 == "cin":
                        t = self.gen_text(rng, verbs, partial_ok=False)
                        sent[0] = sent.get(0, 0) + t.count("/")
                        acts.append("cin:" + t)
                rng.shuffle(acts)
                # (logon() runs under its own recovery point - fix commit -, so an accept in front of other events,
                #  console lines included, cannot make process_io() abandon them any more: no restriction on the order)
                if len(acts) > 1:
                    batch = True
            if rng.chance(35, 100) or not acts:
                acts.append(rng.weighted([("tick", 12), ("tick:1", 3), ("tick:5", 2), ("tick:1000", 4)]))
            lines.append("step " + " ".join(acts))
            # directed: snoop links set, replaced and torn down in random order
            if len(open_c) >= 3 and not snoop_done and rng.chance(10, 100):
                snoop_done = True
                cs = [c for c in open_c if c in user_of]
                if len(cs) >= 3:
                    rng.shuffle(cs)
                    a, b, t = cs[0], cs[1], cs[2]
                    verb = rng.choice(verbs)
                    lines.append("script u%d cmd:%s snoop:u%d" % (user_of[a], verb, user_of[t]))
                    lines.append("script u%d cmd:%s snoop:u%d" % (user_of[b], verb, user_of[t]))
                    lines.append("step send:c%d:%s/" % (a, verb))
                    lines.append("step send:c%d:%s" % (t, self.gen_text(rng, verbs, partial_ok=False)))
                    lines.append("step send:c%d:%s/" % (b, verb))
                    lines.append("step send:c%d:%s" % (t, self.gen_text(rng, verbs, partial_ok=False)))
                    for c in (a, b, t):
                        sent[c] = sent.get(c, 0) + 3
                    order = [a, b, t]
                    rng.shuffle(order)
                    for c in order[:rng.range(1, 3)]:
                        open_c.remove(c)
                        lines.append("step %s:c%d" % (rng.choice(["close", "reset"]), c))
                        rest = [x for x in (a, b, t) if x in open_c]
                        if rest and rng.chance(60, 100):
                            lines.append("step send:c%d:%s" % (rng.choice(rest), self.gen_text(rng, verbs, partial_ok=False)))
            # directed: a backlog of failing commands on one connection, commands pending on the others
            if len(open_c) >= 2 and not backlog_done and rng.chance(10, 100):
                backlog_done = True
                a = rng.choice(open_c)
                if a in user_of:
                    verb = rng.choice(verbs)
                    kind = rng.choice(["cmd:" + verb, "input", "cmd:" + verb])
                    lines.append("script u%d %s %s" % (user_of[a], kind, rng.choice(["err", "cerr;err", "w:zz;err", "hb:1;err"])))
                    n = rng.range(6, 12)
                    acts2 = ["send:c%d:%s" % (a, (verb + "/") * n)]
                    sent[a] = sent.get(a, 0) + n
                    for c in open_c:
                        if c != a and rng.chance(70, 100):
                            t = self.gen_text(rng, verbs, partial_ok=False)
                            sent[c] = sent.get(c, 0) + t.count("/")
                            acts2.append("send:c%d:%s" % (c, t))
                    rng.shuffle(acts2)
                    lines.append("step " + " ".join(acts2))
            # directed: a third party frees a record whose own event is still waiting in the batch, with an accept in
            # between (the allocator hands the freed address to the new record): A's net_dead destructs B
            if len(open_c) >= 2 and not aba_done and not quiet_next and rng.chance(12, 100):
                aba_done = True
                batch = True
                a, b = rng.choice(open_c), None
                b = rng.choice([c for c in open_c if c != a])
                if a in user_of and b in user_of:
                    lines.append("script u%d netdead dest:u%d%s" % (user_of[a], user_of[b], rng.choice(["", ";err", ";co:1:p"])))
                mid = ["conn:c%d" % nextc] + (["send:c%d:%s" % (c, self.gen_text(rng, verbs)) for c in open_c if c not in (a, b)][:1])
                rng.shuffle(mid)
                lines.append("step %s:c%d %s %s:c%d" % (rng.choice(["close", "reset"]), a, " ".join(mid),
                                                        rng.weighted([("reset", 3), ("close", 1)]), b))
                open_c = [c for c in open_c if c not in (a, b)] + [nextc]
                note_conn(nextc)
                nextc += 1
                nconn += 1
                lines.append("step " + rng.weighted([("idle", 3), ("tick", 2)]))
        # settle: one buffered line is served per user and cycle, so drain the longest backlog before the closing ticks
        drain = ["step idle"] * max(0, max(list(sent.values()) + [0]) - 3)
        # batches run on the build without sanitizers as well (address reuse of freed connection records)
        mark = [PLAIN_MARK] if batch and rng.chance(50, 100) else []
        return E.Case(cid, HEAD + mark + lines + drain + TAIL + ["run"], {"origin": "generated"})

    def gen_text(self, rng, verbs, partial_ok=True):
        n = rng.weighted([(1, 6), (2, 3), (3, 1)])
        t = "".join(rng.choice(verbs) + "/" for _ in range(n))
        if rng.chance(4, 100) and not getattr(self, "_long_used", False):
            # one very long line per case (verb longer than MAX_VERB_BUFF); more would fill the 2 KB input buffer,
            # whose compaction / discard rules are property C13's subject
            self._long_used = True
            t += "L" * rng.choice([120, 250]) + "/"
        if partial_ok and rng.chance(15, 100):
            t += rng.choice(["pa", "q"])        # partial line, completed (or not) by a later packet
        return t

    def generate(self, rng, n, tier):
        return [self.gen_case(rng, "g%d" % i) for i in range(n)]

    def shrink_ok(self, lines):
        """a shrunk case must still be a case that runs: registry loaded first, `run` last (without `run` there is no
        final observation and the judge's `no-observation` / `no-exit` verdicts would pass for the original verdict)"""
        return len(lines) >= 2 and lines[0] == HEAD[0] and lines[-1] == "run" and lines.count("run") == 1

    def nontrivial_key(self, case, out):
        import hashlib
        tasks = [l for l in out if l.startswith("t ")]
        if len(tasks) < 2:
            return None
        return hashlib.sha1("\n".join(out).encode()).hexdigest()

    def histogram(self, cases, impl):
        h = {}
        for c in cases:
            for l in impl.get(c.id, []):
                t = l.split()
                if not t:
                    continue
                if t[0] in ("t", "x") and len(t) > 1:
                    key = t[0] + " " + t[1]
                elif t[0] in ("meh", "cycle", "exit", "crash", "sanitizer"):
                    key = t[0] + (" " + t[1] if t[0] in ("meh", "exit") and len(t) > 1 else "")
                else:
                    continue
                h[key] = h.get(key, 0) + 1
            for l in c.lines:
                if l.startswith("mode "):
                    h[l] = h.get(l, 0) + 1
                elif l == PLAIN_MARK:
                    h["cases also run without sanitizers"] = h.get("cases also run without sanitizers", 0) + 1
                elif l.startswith("step "):
                    io = [a.split(":")[0] for a in l.split()[1:] if not a.startswith(("tick", "idle"))]
                    if len(io) >= 2:
                        h["polls with %d events" % min(len(io), 4)] = h.get("polls with %d events" % min(len(io), 4), 0) + 1
                        if "conn" in io and io[-1] != "conn":
                            h["polls: accept followed by other events"] = h.get("polls: accept followed by other events", 0) + 1
                        if "reset" in io or "close" in io:
                            h["polls: hang-up / eof with other events"] = h.get("polls: hang-up / eof with other events", 0) + 1
        return h


PROP = C09()
